#!/bin/sh
# usage: benignsweep.sh "C14 C12 C02:C01"   (P:D = run check P against the benign changes written for D)  - run the quick tier of each property against its benign (property-preserving)
# changes under /verif/benign/<PROP>/benign*.diff; every VIOLATION here is a false alarm of the check
for PD in $1; do P=${PD%%:*}; D=${PD##*:}; for f in /verif/benign/$D/benign*.diff; do
  extra=""; [ "$P" = "C01" ] && extra="--engines e1"
  out=$(/verif/mut.sh $P $f $extra 2>&1 | grep -a "signature=\|^VIOLATION\|^mut.sh\|DOES NOT\|harness error\|build of" | cut -c1-300)
  echo "== $P (changes of $D) $(basename $f): $(echo "$out" | tail -1)"; echo "$out" | grep -a "signature=" | head -3
done; done
