#!/bin/sh
# usage: benignsweep.sh "C14 C12"  - run the quick tier of each property against its benign (property-preserving)
# changes under /verif/benign/<PROP>/benign*.diff; every VIOLATION here is a false alarm of the check
for P in $1; do for f in /verif/benign/$P/benign*.diff; do
  out=$(/verif/mut.sh $P $f 2>&1 | grep -a "signature=\|^VIOLATION\|^mut.sh\|DOES NOT\|harness error\|build of" | cut -c1-300)
  echo "== $P $(basename $f): $(echo "$out" | tail -1)"; echo "$out" | grep -a "signature=" | head -3
done; done
