#!/bin/sh
# development helper: type-check the harness inside ipa-core (no codegen)
cd ${VERIF_REPO:-/repo} && RUSTFLAGS="--cfg ipa_verif" IPA_VERIF_DIR=${IPA_VERIF_DIR:-/verif/harness} CARGO_TARGET_DIR=${VERIF_TARGET:-/verif/target/e1} CARGO_PROFILE_TEST_OPT_LEVEL=2 CARGO_PROFILE_DEV_OPT_LEVEL=2 CARGO_PROFILE_TEST_DEBUG=0 CARGO_PROFILE_DEV_DEBUG=0 cargo check -p ipa-core --lib --tests --offline "$@" 2>&1 | grep -v "^warning: unused\|^ *Checking\|^ *Compiling" | grep -B2 -A18 "^error" | head -${LINES_MAX:-150}
