// libFuzzer target for C09: type tag + bytes, two-direction oracle.
//   bytes -> value -> bytes : deserialize accepts a string iff the reference predicate calls it
//   canonical (where one exists), and an accepted string re-encodes to itself and decodes again to
//   an equal value; nothing panics.
#![no_main]

#[path = "support.rs"]
mod support;

use generic_array::GenericArray;
use ipa_core::{
    ff::{
        boolean::Boolean,
        boolean_array::{BA112, BA16, BA20, BA256, BA3, BA32, BA5, BA64, BA7, BA8},
        curve_points::RP25519,
        ec_prime_field::Fp25519,
        Fp31, Fp32BitPrime, Fp61BitPrime, Gf2, Gf20Bit, Gf32Bit, Gf3Bit, Gf40Bit, Gf8Bit, Gf9Bit, Serializable,
    },
    report::hybrid::PrfHybridReport,
    secret_sharing::{replicated::semi_honest::AdditiveShare, StdArray},
};
use libfuzzer_sys::fuzz_target;
use typenum::Unsigned;

#[derive(Clone, Copy)]
enum Leaf {
    Prime(usize, u128),
    Bits(usize, usize),
    Bool,
    Scalar,
    Point,
    Raw(usize),
}

const L: [u8; 32] = [
    0xed, 0xd3, 0xf5, 0x5c, 0x1a, 0x63, 0x12, 0x58, 0xd6, 0x9c, 0xf7, 0xa2, 0xde, 0xf9, 0xde, 0x14, 0, 0, 0, 0, 0, 0, 0, 0, 0, 0, 0, 0, 0, 0, 0, 0x10,
];
const P: [u8; 32] = [
    0xed, 0xff, 0xff, 0xff, 0xff, 0xff, 0xff, 0xff, 0xff, 0xff, 0xff, 0xff, 0xff, 0xff, 0xff, 0xff, 0xff, 0xff, 0xff, 0xff, 0xff, 0xff, 0xff, 0xff, 0xff,
    0xff, 0xff, 0xff, 0xff, 0xff, 0xff, 0x7f,
];

fn less(a: &[u8], b: &[u8]) -> bool {
    for i in (0..a.len()).rev() {
        if a[i] != b[i] {
            return a[i] < b[i];
        }
    }
    false
}

impl Leaf {
    fn size(self) -> usize {
        match self {
            Leaf::Prime(s, _) | Leaf::Bits(s, _) | Leaf::Raw(s) => s,
            Leaf::Bool => 1,
            Leaf::Scalar | Leaf::Point => 32,
        }
    }
    /// Some(true) canonical, Some(false) not, None unknown
    fn verdict(self, b: &[u8]) -> (Option<bool>, &'static str) {
        match self {
            Leaf::Prime(_, p) => {
                let mut x = [0u8; 16];
                x[..b.len()].copy_from_slice(b);
                (Some(u128::from_le_bytes(x) < p), "prime")
            }
            Leaf::Bits(_, bits) => (Some((bits..8 * b.len()).all(|i| (b[i / 8] >> (i % 8)) & 1 == 0)), "padding"),
            Leaf::Bool => (Some(b[0] <= 1), "Boolean"),
            Leaf::Scalar => (Some(less(b, &L)), "Fp25519"),
            Leaf::Point => (if b[0] & 1 == 1 || !less(b, &P) { Some(false) } else { None }, "RP25519"),
            Leaf::Raw(_) => (Some(true), "raw"),
        }
    }
}

fn check<T: Serializable + PartialEq + std::fmt::Debug>(name: &str, leaves: &[Leaf], data: &[u8]) {
    let n = <T::Size as Unsigned>::USIZE;
    assert_eq!(n, leaves.iter().map(|l| l.size()).sum::<usize>(), "leaf model of {name}");
    let mut bytes = vec![0u8; n];
    let k = data.len().min(n);
    bytes[..k].copy_from_slice(&data[..k]);
    let mut want = Some(true);
    let mut bad = "";
    let mut off = 0;
    for l in leaves {
        match l.verdict(&bytes[off..off + l.size()]) {
            (Some(false), w) => {
                want = Some(false);
                bad = w;
                break;
            }
            (None, _) => want = None,
            _ => {}
        }
        off += l.size();
    }
    let input = format!("{name} <- {}", support::hex(&bytes));
    match support::guard(|| T::deserialize(GenericArray::from_slice(&bytes))) {
        Err((loc, msg)) => support::fail(&format!("decode-panic:{name}"), &format!("{loc}: {msg} on {input}")),
        Ok(Err(e)) => {
            if want == Some(true) {
                support::fail(&format!("canonical-rejected:{name}"), &format!("{e} on {input}"));
            }
        }
        Ok(Ok(v)) => {
            let mut buf = GenericArray::<u8, T::Size>::default();
            buf.iter_mut().for_each(|b| *b = 0x5a);
            v.serialize(&mut buf);
            if want == Some(false) {
                if bad == "Fp25519" {
                    support::known("noncanonical-accepted:Fp25519", &input);
                } else {
                    support::fail(&format!("noncanonical-accepted:{name}"), &format!("{bad}: {input} -> {v:?}"));
                }
            } else if buf[..] != bytes[..] {
                support::fail(&format!("reencode-differs:{name}"), &format!("{input} -> {v:?} -> {}", support::hex(&buf)));
            }
            match T::deserialize(&buf) {
                Ok(v2) if v2 == v => {}
                other => support::fail(&format!("own-encoding-unstable:{name}"), &format!("{input} -> {v:?} -> {} -> {other:?}", support::hex(&buf))),
            }
        }
    }
}

macro_rules! types {
    ($tag:expr, $data:expr; $( $t:ty => [$($l:expr),*] ),* $(,)?) => {{
        let all: &[(&str, fn(&str, &[u8]))] = &[ $( (stringify!($t), |n, d| check::<$t>(n, &[$($l),*], d)) ),* ];
        let (n, f) = all[usize::from($tag) % all.len()];
        f(n, $data);
    }};
}

fuzz_target!(|data: &[u8]| {
    support::init();
    let Some((tag, rest)) = data.split_first() else { return };
    use Leaf::*;
    types!(*tag, rest;
        Fp31 => [Prime(1, 31)],
        Fp32BitPrime => [Prime(4, 4_294_967_291)],
        Fp61BitPrime => [Prime(8, 2_305_843_009_213_693_951)],
        Boolean => [Bool],
        Gf2 => [Bits(1, 1)],
        Gf3Bit => [Bits(1, 3)],
        Gf8Bit => [Bits(1, 8)],
        Gf9Bit => [Bits(2, 9)],
        Gf20Bit => [Bits(3, 20)],
        Gf32Bit => [Bits(4, 32)],
        Gf40Bit => [Bits(5, 40)],
        BA3 => [Bits(1, 3)],
        BA5 => [Bits(1, 5)],
        BA7 => [Bits(1, 7)],
        BA8 => [Bits(1, 8)],
        BA16 => [Bits(2, 16)],
        BA20 => [Bits(3, 20)],
        BA32 => [Bits(4, 32)],
        BA64 => [Bits(8, 64)],
        BA112 => [Bits(14, 112)],
        BA256 => [Bits(32, 256)],
        Fp25519 => [Scalar],
        RP25519 => [Point],
        AdditiveShare<Fp31> => [Prime(1, 31), Prime(1, 31)],
        AdditiveShare<Fp61BitPrime> => [Prime(8, 2_305_843_009_213_693_951), Prime(8, 2_305_843_009_213_693_951)],
        AdditiveShare<Boolean> => [Bool, Bool],
        AdditiveShare<BA3> => [Bits(1, 3), Bits(1, 3)],
        AdditiveShare<BA20> => [Bits(3, 20), Bits(3, 20)],
        AdditiveShare<BA64> => [Bits(8, 64), Bits(8, 64)],
        AdditiveShare<Fp25519> => [Scalar, Scalar],
        AdditiveShare<RP25519> => [Point, Point],
        StdArray<BA3, 16> => [Bits(1, 3), Bits(1, 3), Bits(1, 3), Bits(1, 3), Bits(1, 3), Bits(1, 3), Bits(1, 3), Bits(1, 3), Bits(1, 3), Bits(1, 3), Bits(1, 3), Bits(1, 3), Bits(1, 3), Bits(1, 3), Bits(1, 3), Bits(1, 3)],
        PrfHybridReport<BA8, BA3> => [Raw(8), Bits(1, 3), Bits(1, 3), Bits(1, 8), Bits(1, 8)],
    );
});
