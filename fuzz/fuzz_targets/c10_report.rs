// libFuzzer target for C10: structured input = report specification + mutation script.
// Oracle (in-target): the untouched record decrypts to exactly the original; any edited record gives
// Err; nothing panics. Built with -O and without debug assertions (production semantics).
#![no_main]

#[path = "support.rs"]
mod support;

use arbitrary::Unstructured;
use bytes::Bytes;
use ipa_core::{
    ff::{
        boolean_array::{BA3, BA64, BA8},
        U128Conversions,
    },
    hpke::{KeyPair, KeyRegistry},
    report::{
        hybrid::{EncryptedHybridReport, HybridConversionReport, HybridImpressionReport, HybridReport},
        hybrid_info::{HybridConversionInfo, HybridImpressionInfo},
    },
    secret_sharing::replicated::{semi_honest::AdditiveShare, ReplicatedSecretSharing},
};
use libfuzzer_sys::fuzz_target;
use rand::{rngs::StdRng, SeedableRng};

type Report = HybridReport<BA8, BA3>;

#[derive(Debug)]
struct Spec {
    conv: bool,
    mk: (u64, u64),
    small: (u8, u8),
    nkeys: u8,
    lookup_key: u8,
    info_key: Option<u8>,
    domain_len: u8,
    domain_seed: u8,
    ts: u64,
    eps: u64,
    sens: u64,
    key_seed: u16,
    enc_seed: u16,
}

#[derive(Debug)]
enum Edit {
    Flip { off: u16, bit: u8 },
    Set { off: u16, val: u8 },
    Truncate { len: u16 },
    Append { bytes: Vec<u8> },
    Insert { off: u16, val: u8 },
    Remove { off: u16 },
    Replace { bytes: Vec<u8> },
    /// move the NUL delimiter of a conversion info: overwrite it and put a NUL elsewhere in the info
    MoveDelimiter { to: u16 },
}

#[derive(Debug)]
struct Case {
    spec: Spec,
    edits: Vec<Edit>,
    other_registry: bool,
}

/// hand-written decoding (the derive feature of `arbitrary` is not available offline)
fn decode(u: &mut Unstructured<'_>) -> arbitrary::Result<Case> {
    let spec = Spec {
        conv: u.arbitrary()?,
        mk: (u.arbitrary()?, u.arbitrary()?),
        small: (u.arbitrary()?, u.arbitrary()?),
        nkeys: u.arbitrary()?,
        lookup_key: u.arbitrary()?,
        info_key: if u.ratio(1u8, 5u8)? { Some(u.arbitrary()?) } else { None },
        domain_len: u.arbitrary()?,
        domain_seed: u.arbitrary()?,
        ts: u.arbitrary()?,
        eps: u.arbitrary()?,
        sens: u.arbitrary()?,
        key_seed: u.arbitrary()?,
        enc_seed: u.arbitrary()?,
    };
    let other_registry = u.ratio(1u8, 8u8)?;
    let mut edits = vec![];
    while edits.len() < 6 && !u.is_empty() {
        let e = match u.int_in_range(0u8..=7)? {
            0 => Edit::Flip { off: u.arbitrary()?, bit: u.arbitrary()? },
            1 => Edit::Set { off: u.arbitrary()?, val: u.arbitrary()? },
            2 => Edit::Truncate { len: u.arbitrary()? },
            3 => {
                let n = u.int_in_range(1usize..=40)?;
                Edit::Append { bytes: u.bytes(n.min(u.len()))?.to_vec() }
            }
            4 => Edit::Insert { off: u.arbitrary()?, val: u.arbitrary()? },
            5 => Edit::Remove { off: u.arbitrary()? },
            6 => {
                let n = u.int_in_range(0usize..=300)?;
                Edit::Replace { bytes: u.bytes(n.min(u.len()))?.to_vec() }
            }
            _ => Edit::MoveDelimiter { to: u.arbitrary()? },
        };
        edits.push(e);
    }
    Ok(Case { spec, edits, other_registry })
}

fn same(a: &Report, b: &Report) -> bool {
    match (a, b) {
        (HybridReport::Impression(x), HybridReport::Impression(y)) => x.match_key == y.match_key && x.breakdown_key == y.breakdown_key && x.info.key_id == y.info.key_id,
        (HybridReport::Conversion(x), HybridReport::Conversion(y)) => {
            x.match_key == y.match_key
                && x.value == y.value
                && x.info.key_id == y.info.key_id
                && x.info.conversion_site_domain == y.info.conversion_site_domain
                && x.info.timestamp == y.info.timestamp
                && x.info.epsilon.to_bits() == y.info.epsilon.to_bits()
                && x.info.sensitivity.to_bits() == y.info.sensitivity.to_bits()
        }
        _ => false,
    }
}

const INFO_OFF: usize = 1 + 32 + 16 + 16 + 32 + 2 + 16 + 1;

fuzz_target!(|data: &[u8]| {
    support::init();
    let mut u = Unstructured::new(data);
    let Ok(case) = decode(&mut u) else { return };
    let s = &case.spec;
    let nkeys = usize::from(s.nkeys % 4) + 1;
    let lookup = s.lookup_key % nkeys as u8;
    let info_key = s.info_key.unwrap_or(lookup);
    let reg = KeyRegistry::<KeyPair>::random(nkeys, &mut StdRng::seed_from_u64(u64::from(s.key_seed)));
    let mk = AdditiveShare::new(BA64::truncate_from(s.mk.0), BA64::truncate_from(s.mk.1));
    let report: Report = if s.conv {
        // printable ASCII, no NUL (the NUL case is a separate known finding of the in-crate check)
        let domain: String = (0..s.domain_len).map(|i: u8| char::from(0x21 + (s.domain_seed.wrapping_mul(31).wrapping_add(i.wrapping_mul(7))) % 0x5e)).collect();
        HybridReport::Conversion(HybridConversionReport::<BA3> {
            match_key: mk,
            value: AdditiveShare::new(BA3::truncate_from(s.small.0 & 7), BA3::truncate_from(s.small.1 & 7)),
            info: HybridConversionInfo::new(info_key, &domain, s.ts, f64::from_bits(s.eps), f64::from_bits(s.sens)).unwrap(),
        })
    } else {
        HybridReport::Impression(HybridImpressionReport::<BA8> {
            match_key: mk,
            breakdown_key: AdditiveShare::new(BA8::truncate_from(s.small.0), BA8::truncate_from(s.small.1)),
            info: HybridImpressionInfo::new(info_key),
        })
    };
    let rec = report.encrypt(lookup, &reg, &mut StdRng::seed_from_u64(u64::from(s.enc_seed))).expect("encrypting a valid report");

    let mut m = rec.clone();
    for e in case.edits.iter().take(6) {
        match *e {
            Edit::Flip { off, bit } if !m.is_empty() => {
                let o = usize::from(off) % m.len();
                m[o] ^= 1 << (bit % 8);
            }
            Edit::Set { off, val } if !m.is_empty() => {
                let o = usize::from(off) % m.len();
                m[o] = val;
            }
            Edit::Truncate { len } => m.truncate(usize::from(len) % (m.len() + 1)),
            Edit::Append { ref bytes } => m.extend_from_slice(&bytes[..bytes.len().min(64)]),
            Edit::Insert { off, val } => {
                let o = usize::from(off) % (m.len() + 1);
                m.insert(o, val);
            }
            Edit::Remove { off } if !m.is_empty() => {
                let o = usize::from(off) % m.len();
                m.remove(o);
            }
            Edit::Replace { ref bytes } => m = bytes.clone(),
            Edit::MoveDelimiter { to } if s.conv && m.len() > INFO_OFF + 1 => {
                if let Some(p) = m[INFO_OFF..].iter().position(|b| *b == 0) {
                    m[INFO_OFF + p] = b'.';
                }
                let t = INFO_OFF + usize::from(to) % (m.len() - INFO_OFF);
                m[t] = 0;
            }
            _ => {}
        }
    }
    let foreign;
    let registry = if case.other_registry {
        foreign = KeyRegistry::<KeyPair>::random(nkeys, &mut StdRng::seed_from_u64(u64::from(s.key_seed) ^ 0xdead_0000));
        &foreign
    } else {
        &reg
    };
    let untouched = m == rec && !case.other_registry;
    let describe = || format!("record {} (original {}), key seed {}, keys {nkeys}, foreign registry {}, report {report:?}", support::hex(&m), support::hex(&rec), s.key_seed, case.other_registry);
    let out = support::guard(|| EncryptedHybridReport::<BA8, BA3>::try_from(Bytes::from(m.clone())).and_then(|e| e.decrypt(registry)));
    match out {
        Err((loc, msg)) => support::on_panic(&loc, &msg, &describe()),
        Ok(Ok(r)) => {
            if untouched {
                if !same(&r, &report) {
                    support::fail("roundtrip-different", &format!("{r:?} from {}", describe()));
                }
            } else if same(&r, &report) && m.len() > rec.len() && m[..rec.len()] == rec[..] && !case.other_registry {
                // valid record + trailing bytes
                support::known(
                    if s.conv { "trailing-bytes-accepted:conversion" } else { "trailing-bytes-accepted:impression" },
                    &format!("{} trailing byte(s) accepted: {}", m.len() - rec.len(), describe()),
                );
            } else if same(&r, &report) {
                support::fail("tamper-ignored", &describe());
            } else {
                support::fail("tamper-accepted", &format!("decrypts to {r:?}: {}", describe()));
            }
        }
        Ok(Err(e)) => {
            if untouched {
                support::fail("roundtrip-rejected", &format!("{e}: {}", describe()));
            }
        }
    }
});
