// libFuzzer target for C17: bytes + split points through RecordsStream (single and batch mode,
// fallible and infallible record types) and LengthDelimitedStream, against a reference parse of
// the concatenated bytes: delivered records are a prefix of the valid leading records, a
// malformed stream (invalid record, trailing partial data) ends with an error item, a well-formed
// one delivers everything; nothing panics.
#![no_main]

#[path = "support.rs"]
mod support;

use arbitrary::Unstructured;
use bytes::Bytes;
use futures::{executor::block_on, stream, StreamExt};
use generic_array::GenericArray;
use ipa_core::{
    error::BoxError,
    ff::{boolean_array::BA20, Fp31, Fp32BitPrime, Serializable},
    helpers::{LengthDelimitedStream, RecordsStream, SingleRecordStream},
};
use libfuzzer_sys::fuzz_target;
use typenum::Unsigned;

#[derive(Debug)]
struct Case {
    parser: u8,
    splits: Vec<u8>,
    data: Vec<u8>,
}

fn chunks(data: &[u8], splits: &[u8]) -> Vec<Bytes> {
    let mut out = vec![];
    let mut rest = data;
    let mut i = 0;
    while !rest.is_empty() {
        let n = if splits.is_empty() { rest.len() } else { usize::from(splits[i % splits.len()]) % 67 + 1 }.min(rest.len());
        out.push(Bytes::copy_from_slice(&rest[..n]));
        rest = &rest[n..];
        i += 1;
    }
    out
}

/// (records delivered in order, ended with error, ended cleanly)
fn drive<S, I>(mut s: S) -> (Vec<I>, bool, bool)
where
    S: futures::Stream<Item = Result<Vec<I>, String>> + Unpin,
{
    let mut got = vec![];
    block_on(async {
        loop {
            match s.next().await {
                None => return (got, false, true),
                Some(Ok(v)) => got.extend(v),
                Some(Err(_)) => return (got, true, false),
            }
        }
    })
}

fn fixed<T: Serializable + PartialEq + std::fmt::Debug + Clone>(name: &str, single: bool, c: &Case) {
    let sz = <T::Size as Unsigned>::USIZE;
    // reference parse
    let mut want = vec![];
    let mut clean = c.data.len() % sz == 0;
    for rec in c.data.chunks(sz) {
        if rec.len() < sz {
            break;
        }
        match T::deserialize(GenericArray::from_slice(rec)) {
            Ok(v) => want.push(v),
            Err(_) => {
                clean = false;
                break;
            }
        }
    }
    let input = stream::iter(chunks(&c.data, &c.splits).into_iter().map(Ok::<_, BoxError>));
    let what = format!("{name} single={single} data {} splits {:?}", support::hex(&c.data), &c.splits[..c.splits.len().min(20)]);
    let r = support::guard(|| {
        if single {
            drive(SingleRecordStream::<T, _>::new(input).map(|r| r.map(|v| vec![v]).map_err(|e| e.to_string())))
        } else {
            drive(RecordsStream::<T, _>::new(input).map(|r| r.map_err(|e| e.to_string())))
        }
    });
    match r {
        Err((loc, msg)) => support::fail(&format!("stream-panic:{name}"), &format!("{loc}: {msg} on {what}")),
        Ok((got, err, end)) => {
            if got.len() > want.len() || got[..] != want[..got.len()] {
                support::fail(&format!("stream-records-differ:{name}"), &format!("{} delivered, reference has {} valid leading records: {what}", got.len(), want.len()));
            }
            if clean && !(end && got.len() == want.len()) {
                support::fail(&format!("stream-loses-records:{name}"), &format!("{} of {} delivered, error {err}: {what}", got.len(), want.len()));
            }
            if !clean && !err {
                support::fail(&format!("stream-error-swallowed:{name}"), &what);
            }
        }
    }
}

/// variable-length record that refuses bodies starting with 0xff
#[derive(Debug, PartialEq, Clone)]
struct Rec(Vec<u8>);
impl TryFrom<Bytes> for Rec {
    type Error = BoxError;
    fn try_from(b: Bytes) -> Result<Self, BoxError> {
        if b.first() == Some(&0xff) {
            Err("refused".into())
        } else {
            Ok(Rec(b.to_vec()))
        }
    }
}

fn delimited(c: &Case) {
    let mut want = vec![];
    let mut clean = true;
    let mut rest = &c.data[..];
    loop {
        if rest.is_empty() {
            break;
        }
        if rest.len() < 2 {
            clean = false;
            break;
        }
        let n = usize::from(u16::from_le_bytes([rest[0], rest[1]]));
        if rest.len() < 2 + n {
            clean = false;
            break;
        }
        let body = &rest[2..2 + n];
        if body.first() == Some(&0xff) {
            clean = false;
            break;
        }
        want.push(Rec(body.to_vec()));
        rest = &rest[2 + n..];
    }
    let input = stream::iter(chunks(&c.data, &c.splits).into_iter().map(Ok::<_, BoxError>));
    let what = format!("length-delimited data {} splits {:?}", support::hex(&c.data), &c.splits[..c.splits.len().min(20)]);
    match support::guard(|| drive(LengthDelimitedStream::<Rec, _>::new(input).map(|r| r.map_err(|e| e.to_string())))) {
        Err((loc, msg)) => support::fail("stream-panic:length-delimited", &format!("{loc}: {msg} on {what}")),
        Ok((got, err, end)) => {
            if got.len() > want.len() || got[..] != want[..got.len()] {
                support::fail("stream-records-differ:length-delimited", &format!("{} delivered, reference has {} valid leading frames: {what}", got.len(), want.len()));
            }
            if clean && !(end && got.len() == want.len()) {
                support::fail("stream-loses-records:length-delimited", &format!("{} of {} delivered, error {err}: {what}", got.len(), want.len()));
            }
            if !clean && !err {
                support::fail("stream-error-swallowed:length-delimited", &what);
            }
        }
    }
}

fuzz_target!(|data: &[u8]| {
    support::init();
    let mut u = Unstructured::new(data);
    let Ok(c) = (|| -> arbitrary::Result<Case> {
        let parser = u.arbitrary()?;
        let n = u.int_in_range(0usize..=12)?;
        let splits = u.bytes(n.min(u.len()))?.to_vec();
        let data = u.bytes(u.len())?.to_vec();
        Ok(Case { parser, splits, data })
    })() else {
        return;
    };
    match c.parser % 7 {
        0 => fixed::<Fp32BitPrime>("Fp32BitPrime", false, &c),
        1 => fixed::<Fp32BitPrime>("Fp32BitPrime", true, &c),
        2 => fixed::<Fp31>("Fp31", false, &c),
        3 => fixed::<Fp31>("Fp31", true, &c),
        4 => fixed::<BA20>("BA20", false, &c),
        5 => fixed::<BA20>("BA20", true, &c),
        _ => delimited(&c),
    }
});
