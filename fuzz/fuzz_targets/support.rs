// Shared by the libFuzzer targets: panic capture (libfuzzer-sys installs a hook that aborts, which
// would end the campaign at the first *known* panic), allow-list handling, and reporting.
#![allow(dead_code)]

use std::{
    cell::RefCell,
    collections::BTreeSet,
    panic::{catch_unwind, AssertUnwindSafe},
    sync::{Mutex, Once},
};

thread_local! {
    static LAST: RefCell<Option<(String, String)>> = const { RefCell::new(None) };
}
static SEEN: Mutex<BTreeSet<String>> = Mutex::new(BTreeSet::new());
static INIT: Once = Once::new();

/// replay mode (`VERIF_FUZZ_STRICT=1`): nothing is tolerated
pub fn strict() -> bool {
    std::env::var("VERIF_FUZZ_STRICT").is_ok_and(|v| v == "1")
}

pub fn init() {
    INIT.call_once(|| {
        std::panic::set_hook(Box::new(|info| {
            let loc = info.location().map_or_else(|| "?".to_string(), |l| format!("{}:{}", l.file(), l.line()));
            let msg = if let Some(s) = info.payload().downcast_ref::<&str>() {
                (*s).to_string()
            } else if let Some(s) = info.payload().downcast_ref::<String>() {
                s.clone()
            } else {
                "<non-string panic payload>".to_string()
            };
            LAST.with(|l| *l.borrow_mut() = Some((loc, msg)));
        }));
    });
}

/// Run `f`; a panic becomes `Err((location, message))`.
pub fn guard<R>(f: impl FnOnce() -> R) -> Result<R, (String, String)> {
    init();
    LAST.with(|l| *l.borrow_mut() = None);
    catch_unwind(AssertUnwindSafe(f)).map_err(|_| LAST.with(|l| l.borrow_mut().take()).unwrap_or_else(|| ("?".into(), "?".into())))
}

/// A listed known finding was observed: report it once per process, go on (campaign) or die (replay).
pub fn known(sig: &str, detail: &str) {
    if strict() {
        fail(&format!("{sig} (known finding, strict mode)"), detail);
    }
    if SEEN.lock().unwrap().insert(sig.to_string()) {
        eprintln!("KNOWN-FINDING: {sig} :: {detail}");
    }
}

/// Oracle violated: print and abort (libFuzzer stores the input as a crash artifact).
pub fn fail(sig: &str, detail: &str) -> ! {
    eprintln!("ORACLE-VIOLATION: {sig} :: {detail}");
    std::process::abort();
}

fn kind(msg: &str) -> &'static str {
    if msg.contains("not enough delimiters") {
        "no-delimiter"
    } else if msg.contains("index out of bounds") {
        "index"
    } else if msg.contains("range end index") || msg.contains("range start index") || msg.contains("out of range for slice") {
        "slice"
    } else if msg.contains("unwrap()") {
        "unwrap"
    } else {
        "other"
    }
}

/// Panics the in-crate check already reported (file suffix, kind). Everything else is a crash.
const ALLOW: [(&str, &str); 5] = [
    ("report/hybrid.rs", "index"),
    ("report/hybrid_info.rs", "index"),
    ("report/hybrid_info.rs", "slice"),
    ("report/hybrid_info.rs", "no-delimiter"),
    ("report/hybrid_info.rs", "unwrap"),
];

pub fn on_panic(loc: &str, msg: &str, input: &str) {
    let file = loc.rsplit_once(':').map_or(loc, |x| x.0);
    let short = file.find("ipa-core/src/").map_or(file, |i| &file[i..]);
    let k = kind(msg);
    let sig = format!("panic:{short}:{k}");
    if ALLOW.iter().any(|(f, kk)| short.ends_with(f) && *kk == k) {
        known(&sig, &format!("panic at {loc}: {msg} on {input}"));
    } else {
        fail(&sig, &format!("panic at {loc}: {msg} on {input}"));
    }
}

pub fn hex(b: &[u8]) -> String {
    let mut s = String::new();
    for x in b.iter().take(600) {
        s.push_str(&format!("{x:02x}"));
    }
    if b.len() > 600 {
        s.push_str("..");
    }
    s
}
