"""Engine E5: libFuzzer campaigns / replays for the /verif checks (called from ../check).

run(prop, target, tier, seed, replay, partials, VERIF, REPO, TARGET) -> 0 held / 1 violation / 2 inconclusive

* the crate manifest is generated from Cargo.toml.in (the repository under test is a parameter),
  the lock file starts from <REPO>/Cargo.lock, everything is built offline with
  `cargo +nightly fuzz build -O` (no debug assertions: production semantics for "never crashes");
* a campaign is a fixed number of runs with a fixed -seed from a copy of the committed seed corpus;
* a crash artifact is copied to <VERIF>/replays/ and reported as `VIOLATION property=<id> replay=<path>`; timeout-* and oom-* artifacts (wall-clock / memory signals) are re-executed on their own and count only if that run crashes or prints an oracle message - an input that still does not finish makes the run inconclusive (exit 2);
* known findings are tolerated in-target during a campaign (they are printed once and counted in
  the evidence) and are fatal in replay mode (VERIF_FUZZ_STRICT=1).
"""
import glob, hashlib, json, os, re, shutil, subprocess, sys, tempfile, time

RUNS = {
    "c10_report": {"quick": 40_000, "thorough": 500_000},     # ~800 exec/s (two HPKE opens per input, ASan)
    "c09_decode": {"quick": 500_000, "thorough": 30_000_000},
    "c17_streams": {"quick": 300_000, "thorough": 20_000_000},
}
MAX_LEN = {"c10_report": 512, "c09_decode": 600, "c17_streams": 2048}
RULES = {
    "c10_report": "libFuzzer, structured: input decodes (arbitrary::Unstructured) to a report specification (kind, shares, key ids, site domain length, "
                  "timestamp, float bits, key/encryption seeds) plus up to 6 edits {bit flip, set byte, truncate, append, insert, remove, replace, move the "
                  "NUL delimiter} and an optional foreign registry; oracle in-target: untouched record decrypts to the original, every edited record gives "
                  "Err, no panic (release build, no debug assertions); non-trivial count = corpus units that reached new coverage",
    "c09_decode": "libFuzzer: type tag + bytes for 33 Serializable types; accept iff canonical by the leaf model, accepted strings re-encode to themselves "
                  "and decode to an equal value, no panic",
    "c17_streams": "libFuzzer: (parser, split points, bytes) through RecordsStream single/batch for Fp32BitPrime, Fp31, BA20 and LengthDelimitedStream "
                   "against a reference parse: delivered records are a prefix of the valid leading records, malformed streams end with an error item, "
                   "well-formed ones deliver everything, no panic",
}


def log(*a):
    print("[fuzz]", *a, flush=True)


def prepare(VERIF, REPO):
    fz = os.path.join(VERIF, "fuzz")
    manifest = open(os.path.join(fz, "Cargo.toml.in")).read().replace("@REPO@", REPO)
    path = os.path.join(fz, "Cargo.toml")
    if not os.path.exists(path) or open(path).read() != manifest:
        open(path, "w").write(manifest)
    lock = os.path.join(fz, "Cargo.lock")
    if not os.path.exists(lock):
        shutil.copy(os.path.join(REPO, "Cargo.lock"), lock)
    return fz


def build(fz, target, TARGET, timeout=3600):
    env = dict(os.environ)
    env.update({"CARGO_NET_OFFLINE": "true", "CARGO_TERM_COLOR": "never"})
    env.pop("RUSTFLAGS", None)
    tdir = os.path.join(TARGET, "e5")
    cmd = ["cargo", "+nightly", "fuzz", "build", "-O", "--fuzz-dir", fz, "--target-dir", tdir, target]
    extra = os.environ.get("VERIF_FUZZ_BUILD_ARGS")
    if extra:
        cmd[5:5] = extra.split()
    t0 = time.time()
    try:
        p = subprocess.run(cmd, cwd=fz, env=env, stdout=subprocess.PIPE, stderr=subprocess.STDOUT, text=True, timeout=timeout)
    except subprocess.TimeoutExpired:
        log("build timed out")
        return None
    if p.returncode != 0:
        log(f"build failed (exit {p.returncode})")
        sys.stdout.write(p.stdout[-6000:])
        return None
    exes = glob.glob(os.path.join(tdir, "*", "release", target))
    if not exes:
        log("no executable found under", tdir)
        return None
    log(f"target {target} built in {time.time() - t0:.1f}s: {exes[0]}")
    return exes[0]


def run(prop, target, tier, seed, replay, partials, VERIF, REPO, TARGET):
    t0 = time.time()
    if target not in RULES:
        log("unknown fuzz target", target)
        return 2
    fz = prepare(VERIF, REPO)
    exe = build(fz, target, TARGET)
    if exe is None:
        return 2
    os.makedirs(os.path.join(VERIF, "replays"), exist_ok=True)

    if replay:
        env = dict(os.environ, VERIF_FUZZ_STRICT="1", RUST_BACKTRACE="0")
        p = subprocess.run([exe, os.path.abspath(replay)], env=env, stdout=subprocess.PIPE, stderr=subprocess.STDOUT, text=True, errors="replace", timeout=600)
        out = p.stdout
        viol = [l for l in out.splitlines() if l.startswith(("ORACLE-VIOLATION", "KNOWN-FINDING"))]
        print("\n".join(viol[:5]))
        if p.returncode != 0:
            print(f"VIOLATION property={prop} replay={os.path.abspath(replay)}")
            log("replay: violation reproduced")
            return 1
        log("replay: no violation")
        return 0

    work = tempfile.mkdtemp(prefix=f"verif-fuzz-{target}-")
    try:
        corpus = os.path.join(work, "corpus")
        shutil.copytree(os.path.join(fz, "corpus", target), corpus)
        seeds = len(os.listdir(corpus))
        art = os.path.join(work, "artifacts") + os.sep
        os.makedirs(art)
        runs = RUNS[target][tier] * int(os.environ.get("VERIF_SCALE", "100")) // 100
        cmd = [exe, corpus, f"-runs={runs}", f"-seed={seed + 1}", f"-artifact_prefix={art}", f"-max_len={MAX_LEN[target]}",
               "-print_final_stats=1", "-timeout=120", "-rss_limit_mb=4096", "-verbosity=0", "-detect_leaks=0"]
        budget = 900 if tier == "quick" else 6 * 3600
        try:
            p = subprocess.run(cmd, env=dict(os.environ, RUST_BACKTRACE="0"), stdout=subprocess.PIPE, stderr=subprocess.STDOUT, text=True,
                               errors="replace", timeout=budget)
            out, rc = p.stdout, p.returncode
        except subprocess.TimeoutExpired as e:
            log(f"campaign exceeded {budget}s - inconclusive")
            return 2
        executed = 0
        m = re.search(r"stat::number_of_executed_units:\s*(\d+)", out)
        if m:
            executed = int(m.group(1))
        known = {}
        for l in out.splitlines():
            if l.startswith("KNOWN-FINDING: "):
                sig = l[len("KNOWN-FINDING: "):].split(" :: ")[0]
                known[sig] = known.get(sig, 0) + 1
                print(f"KNOWN-FINDING: property={prop} {l[len('KNOWN-FINDING: '):][:300]}")
        units = len(os.listdir(corpus))
        artifacts = sorted(glob.glob(art + "*"))
        # slow-unit-* and leak-* artifacts are not failures of the property (lazy statics look like
        # leaks to LeakSanitizer). crash-* is. timeout-* and oom-* are resource signals: libFuzzer's
        # -timeout is wall-clock, so a loaded machine produces timeout-* on inputs that take
        # milliseconds. Each such input is executed once more on its own: an oracle message or a
        # crash there is a violation, a clean run means the signal was load ("ignored-artifact:
        # timeout-not-reproduced"), and an input that still does not finish within 10 minutes makes
        # the run inconclusive (exit 2) - a hang is never reported as a violation.
        crashes, unresolved = [], []
        ignored = []
        for c in artifacts:
            kind = os.path.basename(c).split("-")[0]
            if kind == "crash":
                crashes.append((c, None))
            elif kind in ("timeout", "oom"):
                try:
                    rp = subprocess.run([exe, c, "-rss_limit_mb=8192", "-detect_leaks=0"], env=dict(os.environ, RUST_BACKTRACE="0"), stdout=subprocess.PIPE,
                                        stderr=subprocess.STDOUT, text=True, errors="replace", timeout=600)
                    if rp.returncode == 0 and "ORACLE-VIOLATION" not in rp.stdout:
                        ignored.append(f"{kind}-not-reproduced")
                    elif "ORACLE-VIOLATION" in rp.stdout or "deadly signal" in rp.stdout or "panicked at" in rp.stdout:
                        crashes.append((c, rp.stdout))
                    else:
                        unresolved.append(kind)
                except subprocess.TimeoutExpired:
                    unresolved.append(kind)
            else:
                ignored.append(kind)
        if artifacts:
            open(os.path.join(TARGET, f"fuzz-{prop}-{target}-last.log"), "w").write(out[-20000:])
        violations = []
        for c, replay_out in crashes:
            data = open(c, "rb").read()
            kind = os.path.basename(c).split("-")[0]
            dst = os.path.join(VERIF, "replays", f"{prop}-fuzz-{target}-{kind}-{hashlib.sha256(data).hexdigest()[:16]}.bin")
            shutil.copy(c, dst)
            src_out = replay_out if replay_out is not None else out
            msg = next((l for l in src_out.splitlines() if l.startswith("ORACLE-VIOLATION")),
                       next((l for l in src_out.splitlines() if "ERROR:" in l or "SUMMARY:" in l or "panicked at" in l), f"{kind} (no oracle message)"))
            print(f"VIOLATION property={prop} replay={dst}")
            print(f"  sub=fuzz:{target} {msg[:400]}")
            violations.append({"signature": msg.split(" :: ")[0].replace("ORACLE-VIOLATION: ", ""), "message": msg[:2000], "replay": dst})
        if unresolved and not violations:
            log(f"{len(unresolved)} input(s) flagged {sorted(set(unresolved))} by libFuzzer did not finish on their own within 600 s - inconclusive")
            return 2
        if rc != 0 and not artifacts:
            log(f"fuzzer exited with {rc} without an artifact - inconclusive")
            sys.stdout.write(out[-3000:])
            return 2
        wall = time.time() - t0
        samples = []
        for f in sorted(os.listdir(corpus))[:3]:
            samples.append({"sub": f"fuzz:{target}", "case": {"input_hex": open(os.path.join(corpus, f), "rb").read()[:200].hex()}})
        ev = {
            "property_id": prop, "tier": tier, "seed": seed, "level": "fault_enumeration" if prop == "C10" else "exploration",
            "coverage": {
                "evaluations": executed, "distinct_nontrivial": units, "rule": f"[fuzz:{target}] " + RULES[target], "samples": samples,
                "rejected": 0, "exhaustive": False, "engine": f"fuzz:{target}",
                "subchecks": {f"fuzz:{target}": {"evaluations": executed, "nontrivial": units, "distinct_nontrivial": units, "rejected": 0,
                                                 "classes": dict({"seed-corpus-units": seeds, "final-corpus-units": units}, **{f"ignored-artifact:{k}": ignored.count(k) for k in set(ignored)}), "exhaustive": False,
                                                 "wall_s": round(wall, 3), "violations": violations, "known_findings_seen": known}},
                "known_findings_seen": known,
            },
            "assumptions": ["libFuzzer campaigns are only approximately reproducible from -seed; the saved input is the reproducible unit"],
            "wall_s": round(wall, 3), "violations": len(violations),
        }
        part = os.path.join(TARGET, f"evidence-{prop}-fuzz-{target}.json")
        os.makedirs(TARGET, exist_ok=True)
        json.dump(ev, open(part, "w"), indent=1)
        partials.append(part)
        log(f"property={prop} engine=fuzz:{target} tier={tier} seed={seed} executed={executed} corpus={units} violations={len(violations)} wall={wall:.1f}s")
        return 1 if violations else 0
    finally:
        shutil.rmtree(work, ignore_errors=True)


if __name__ == "__main__":
    # stand-alone use: run_fuzz.py <PROP> <target> [quick|thorough] [--replay file]
    import argparse
    ap = argparse.ArgumentParser()
    ap.add_argument("prop")
    ap.add_argument("target")
    ap.add_argument("tier", nargs="?", default="quick")
    ap.add_argument("--replay")
    a = ap.parse_args()
    verif = os.path.dirname(os.path.dirname(os.path.abspath(__file__)))
    sys.exit(run(a.prop, a.target, a.tier, int(os.environ.get("VERIF_SEED", "0") or 0), a.replay, [], verif,
                 os.environ.get("VERIF_REPO", "/repo"), os.path.join(verif, "target")))
