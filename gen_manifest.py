#!/usr/bin/env python3
"""Regenerates MANIFEST.json from manifest_src.json (per-property texts) and plan.json."""
import json, subprocess, os
V = os.path.dirname(os.path.abspath(__file__))
src = json.load(open(os.path.join(V, "manifest_src.json")))
plan = json.load(open(os.path.join(V, "plan.json")))
props = [json.loads(l) for l in open(os.path.join(V, "properties.jsonl"))]
hooks = subprocess.run(["git", "-C", "/repo", "log", "--format=%H %s", "05c81c7..HEAD"], capture_output=True, text=True).stdout.splitlines()
hook_commits = [l.split()[0] for l in hooks if "verif hook" in l]
checks, na = [], []
for p in props:
    pid = p["id"]
    c = src["checks"].get(pid)
    if not c:
        na.append({"property_id": pid, "reason": src["not_applicable"].get(pid, "check not built yet in this revision of /verif")})
        continue
    checks.append({
        "property_id": pid,
        "quick_cmd": f"./check {pid} --tier quick",
        "thorough_cmd": f"./check {pid} --tier thorough",
        "evidence_file": f"/verif/evidence/{pid}.json",
        "replay_cmd_template": f"./check {pid} --replay {{path}}",
        "engine": "+".join(plan[pid]["quick"]["engines"]) + " (quick) / " + "+".join(plan[pid]["thorough"]["engines"]) + " (thorough)",
        "level_claimed": {"category": c["category"], "text": c["text"], "design_ref": c.get("design_ref", f"DESIGN.md section 3, {pid}")},
        "level_note": c["note"],
        "technique": c["technique"],
    })
m = {
    "version": 1,
    "setup_cmd": "./setup.sh",
    "hooks": {
        "guard": "ipa_verif",
        "enable": "RUSTFLAGS='--cfg ipa_verif' IPA_VERIF_DIR=/verif/harness cargo test -p ipa-core --lib (hook modules are cfg(all(test, ipa_verif)) and include! the harness sources from $IPA_VERIF_DIR)",
        "baseline_off_cmd": "cd /repo && cargo test --workspace --no-fail-fast --offline",
        "source_commits": hook_commits,
        "add_only": True,
    },
    "engines": src["engines"],
    "checks": checks,
    "notes": src["notes"],
    "not_applicable": na,
}
json.dump(m, open(os.path.join(V, "MANIFEST.json"), "w"), indent=1)
print(f"{len(checks)} checks, {len(na)} not_applicable, {len(hook_commits)} hook commits")
