// C01 - the hybrid attribution result equals the in-the-clear reference.
//
// Generated report multisets x configurations, run through the real `hybrid_protocol` on a
// TestWorld with S shards, compared with an independently written plaintext attribution.

use std::time::Duration;

use serde_json::json;

use super::{common::*, mpc::*};

pub const LEVEL: &str = "exploration";

pub struct GenCase {
    pub rows: Vec<Row>,
    pub cfg: HybridCfg,
    pub labels: Vec<String>,
}

/// Build a report multiset from a pool of match keys with generated multiplicity and kind
/// patterns. `max_keys` bounds the pool.
pub fn gen_rows(src: &mut Src<'_>, max_keys: usize, labels: &mut Vec<String>) -> Vec<Row> {
    let nkeys = match src.below(8) {
        0 => 0,
        1 => 1,
        _ => src.urange(1, max_keys),
    };
    // bucket/breakdown-key style: few hot buckets (collisions) or spread
    let hot: Vec<u8> = (0..3).map(|_| src.below(256) as u8).collect();
    let bk_mode = src.below(4);
    let mut gen_bk = |src: &mut Src<'_>| -> u8 {
        match bk_mode {
            0 => hot[src.idx(3)],
            1 => src.pick(&[0u8, 1, 127, 128, 200, 255]),
            _ => src.below(256) as u8,
        }
    };
    let mut rows = vec![];
    let mut classes = [0usize; 6];
    for k in 0..nkeys {
        // distinct match keys (low 16 bits = pool index) with structured high bits
        let hi = match src.below(4) {
            0 => 0,
            1 => u64::MAX,
            2 => 1u64 << src.below(48),
            _ => src.u64(),
        };
        let mk = (hi << 16) | k as u64;
        let class = src.below(10);
        let count = match class {
            0 | 1 => 1,
            2..=7 => 2,
            8 => 3,
            _ => src.urange(3, 5),
        };
        let pattern = src.below(4); // 0 imp+conv, 1 conv+conv, 2 imp+imp, 3 generated per row
        for j in 0..count {
            let kind = match pattern {
                0 => {
                    if j % 2 == 0 {
                        RowKind::Impression
                    } else {
                        RowKind::Conversion
                    }
                }
                1 => RowKind::Conversion,
                2 => RowKind::Impression,
                _ => {
                    if src.bool() {
                        RowKind::Conversion
                    } else {
                        RowKind::Impression
                    }
                }
            };
            let payload = if kind == RowKind::Impression { gen_bk(src) } else { src.pick(&[7u8, 1, 0, 4, 3, 5, 2, 6]) };
            rows.push(Row { mk, kind, payload });
        }
        if count == 2 {
            classes[pattern as usize] += 1;
        } else if count == 1 {
            classes[4] += 1;
        } else {
            classes[5] += 1;
        }
    }
    // make duplicate match keys across pool entries impossible to matter: the reference groups by
    // value anyway. Shuffle row order.
    let p = src.perm(rows.len());
    let rows: Vec<Row> = p.into_iter().map(|i| rows[i]).collect();
    for (i, n) in ["pair:imp+conv", "pair:conv+conv", "pair:imp+imp", "pair:mixed", "single", "three-plus"].iter().enumerate() {
        if classes[i] > 0 {
            labels.push((*n).to_string());
        }
    }
    rows
}

/// >= 37 conversion pairs landing in one bucket (7 * 37 > 255): saturation of an 8-bit bucket
pub fn gen_overflow_rows(src: &mut Src<'_>, labels: &mut Vec<String>) -> Vec<Row> {
    let bucket = src.below(256) as u8;
    let n = src.urange(37, 48);
    let mut rows = vec![];
    for k in 0..n {
        let mk = 0x1000_0000u64 + k as u64;
        rows.push(Row { mk, kind: RowKind::Impression, payload: bucket });
        rows.push(Row { mk, kind: RowKind::Conversion, payload: if src.chance(1, 8) { 6 } else { 7 } });
    }
    // a second bucket that stays just below / at the limit
    let other = bucket.wrapping_add(1 + src.below(254) as u8);
    for k in 0..src.urange(0, 36) {
        let mk = 0x2000_0000u64 + k as u64;
        rows.push(Row { mk, kind: RowKind::Impression, payload: other });
        rows.push(Row { mk, kind: RowKind::Conversion, payload: 7 });
    }
    let p = src.perm(rows.len());
    labels.push("overflow".into());
    p.into_iter().map(|i| rows[i]).collect()
}

pub fn gen_case(env: &Env, src: &mut Src<'_>) -> GenCase {
    let mut labels = vec![];
    let thorough = env.thorough();
    let shards = src.pick(&[1usize, 2, 3, 5, 1, 2]);
    let malicious = src.bool();
    let pad = match src.below(if thorough { 40 } else { 45 }) {
        0 | 1 => Pad::Default,
        2..=4 => Pad::Relaxed,
        5..=10 => Pad::Tiny,
        _ => Pad::None,
    };
    let overflow = src.chance(1, 12);
    let hv_bits = if overflow { 8 } else { src.pick(&[8u32, 32, 16]) };
    let workers = src.pick(&[0usize, 0, 2, 4]);
    let max_keys = if thorough { 200 } else { 24 };
    let mut rows = if overflow { gen_overflow_rows(src, &mut labels) } else { gen_rows(src, max_keys, &mut labels) };
    // sharded runs without padding: a shard that is left with zero rows / zero matched pairs at
    // some stage is the listed known finding (Error::ZeroRecords / early return). Keep these cases
    // out of that region by adding enough well-formed pairs (counted in the label), except for a
    // small probe class that confirms the finding.
    let probe_known = src.chance(1, 40);
    let (_, pairs) = reference_histogram(&rows, 32);
    let need_pairs = if shards == 1 { 1 } else { 12 * shards };
    if pad == Pad::None && !probe_known && pairs < need_pairs {
        let add = need_pairs - pairs;
        for k in 0..add {
            let mk = 0x7000_0000_0000u64 + k as u64;
            rows.push(Row { mk, kind: RowKind::Impression, payload: src.below(256) as u8 });
            rows.push(Row { mk, kind: RowKind::Conversion, payload: 1 + src.below(7) as u8 });
        }
        let p = src.perm(rows.len());
        rows = p.into_iter().map(|i| rows[i]).collect();
        labels.push("steered-away-from-zero-rows".into());
    }
    // assignment of rows to shards
    let mode = src.below(4);
    let assign: Vec<usize> = (0..rows.len())
        .map(|i| match mode {
            0 => i % shards,
            1 => src.idx(shards),
            2 => {
                if src.chance(1, 8) {
                    src.idx(shards)
                } else {
                    0
                }
            } // skewed
            _ => (i * shards) / rows.len().max(1), // contiguous blocks
        })
        .collect();
    let mut assign = assign;
    // avoid empty shard inputs (known finding: early return on the empty shard, siblings wait)
    // unless this is the probe class
    let mut empty_shard = false;
    if shards > 1 {
        for s in 0..shards {
            if !assign.iter().any(|a| *a == s) {
                if probe_known || rows.len() < shards {
                    empty_shard = true;
                } else {
                    // move one row of the most loaded shard here
                    let mut cnt = vec![0usize; shards];
                    for a in &assign {
                        cnt[*a] += 1;
                    }
                    let big = (0..shards).max_by_key(|s| cnt[*s]).unwrap();
                    let pos = assign.iter().position(|a| *a == big).unwrap();
                    assign[pos] = s;
                }
            }
        }
    }
    if empty_shard {
        labels.push("empty-shard-input".into());
    }
    labels.push(format!("shards:{shards}"));
    labels.push(if malicious { "malicious".into() } else { "semi-honest".into() });
    labels.push(format!("pad:{pad:?}"));
    labels.push(format!("hv:{hv_bits}"));
    labels.push(format!("workers:{workers}"));
    labels.push(format!("assign:{}", ["round-robin", "random", "skewed", "blocks"][mode as usize]));
    labels.push(format!("rows:{}", match rows.len() { 0 => "0", 1..=9 => "1-9", 10..=49 => "10-49", 50..=199 => "50-199", _ => "200+" }));
    let cfg = HybridCfg {
        shards,
        malicious,
        pad,
        hv_bits,
        workers,
        world_seed: src.seed(),
        share_seed: src.seed(),
        assign,
        timeout: Duration::from_secs(if empty_shard { 4 } else { 120 }),
        tamper: None,
        more_tampers: vec![],
        grace_after_other_failure: None,
        stop_on_error_of: 0b111,
    };
    GenCase { rows, cfg, labels }
}

pub fn check_honest(env: &Env, case: &GenCase) -> CaseResult {
    let GenCase { rows, cfg, labels } = case;
    let (want, pairs) = reference_histogram(rows, cfg.hv_bits);
    let cj = json!({"cfg": cfg.json(), "rows": rows.iter().map(Row::json).collect::<Vec<_>>()});
    let res = run_hybrid(cfg, rows);
    let mut labels = labels.clone();
    let empty_shard = labels.iter().any(|l| l == "empty-shard-input");
    if let Some((h, s, o)) = res.first_failure() {
        match o {
            HelperOutcome::Err { variant, .. } if variant == "ZeroRecords" => {
                known_or_violation(
                    env,
                    "zero-records",
                    format!("helper {h} shard {s} returned Err(ZeroRecords) on an honest run ({} rows, {pairs} matched pairs, {} shards, pad {:?}): a stage was left with zero rows on that shard", rows.len(), cfg.shards, cfg.pad),
                    cj,
                )?;
                labels.push("known:zero-records".into());
                return Ok(CaseOk::new(false, &0u8, serde_json::Value::Null).labels(labels));
            }
            HelperOutcome::Err { variant, display } => {
                return Err(violation(format!("honest-error:{variant}"), format!("helper {h} shard {s} failed an honest run: {display}"), cj));
            }
            HelperOutcome::Panic { loc, msg } => {
                return Err(violation(format!("panic:{}", loc_file(loc)), format!("helper {h} shard {s} panicked at {loc}: {msg}"), cj));
            }
            HelperOutcome::Ok(_) => unreachable!(),
        }
    }
    if res.timed_out {
        if empty_shard {
            known_or_violation(
                env,
                "empty-shard-hang",
                format!("a shard with an empty input returned early and its sibling shards never produced output ({} shards)", cfg.shards),
                cj,
            )?;
            labels.push("known:empty-shard-hang".into());
        } else {
            labels.push("inconclusive:timeout".into());
        }
        return Ok(CaseOk::new(false, &0u8, serde_json::Value::Null).labels(labels));
    }
    match res.reconstruct_leader() {
        Ok(got) => {
            if got != want {
                let diff: Vec<_> = (0..256).filter(|i| got.get(*i) != want.get(*i)).take(6).map(|i| json!({"bucket": i, "got": got.get(i).map(|v| v.to_string()), "want": want[i].to_string()})).collect();
                return Err(violation("wrong-histogram", format!("reconstructed histogram differs from the plaintext attribution: {}", serde_json::to_string(&diff).unwrap()), cj));
            }
        }
        Err(e) => return Err(violation("bad-output-sharing", e, cj)),
    }
    if want.iter().any(|v| *v == (1u128 << cfg.hv_bits) - 1) {
        labels.push("saturated-bucket".into());
    }
    // wrap of breakdown-key sum / value sum actually exercised?
    let dig = digest(&(rows, cfg.shards, cfg.malicious, format!("{:?}", cfg.pad), cfg.hv_bits, &cfg.assign));
    Ok(CaseOk {
        nontrivial: pairs >= 1,
        digest: dig,
        labels,
        sample: json!({"cfg": cfg.json(), "n_rows": rows.len(), "pairs": pairs, "rows_head": rows.iter().take(6).map(Row::json).collect::<Vec<_>>(),
                       "nonzero_buckets": want.iter().filter(|v| **v != 0).count(), "elapsed_ms": res.elapsed.as_millis() as u64}),
    })
}

pub fn honest(env: &Env, src: &mut Src<'_>) -> CaseResult {
    let case = gen_case(env, src);
    check_honest(env, &case)
}

pub fn subs(_env: &Env) -> Vec<Sub> {
    vec![
        Sub::random(
            "honest", 4000, 640, 8000, honest,
            "report multisets from a pool of match keys with generated multiplicity (1, 2, 3+) and kind patterns (imp+conv, conv+conv, imp+imp, mixed), breakdown keys with forced collisions/wrap, values 0..7, an overflow class (>=37 pairs into one 8-bit bucket); x shards {1,2,3,5} x row->shard assignment {round-robin, random, skewed, blocks} x {semi-honest, malicious} x padding {none, tiny, relaxed, default} x output width {8,16,32} x runtime {current-thread, 2/4 workers}; oracle = independent plaintext attribution + replicated-share consistency + empty follower output; non-trivial = at least one attributed pair; distinct by (rows, configuration)",
        )
        .shrink_iters(24),
    ]
}
