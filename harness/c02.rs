// C02 - one tampering helper can abort a query but never change its result.
//
// Fault enumeration over the channel catalogue of an honest run of the whole malicious hybrid
// query: one helper's message on one (gate, dest, shard) channel is edited (length preserving),
// everything else is identical to the recorded baseline (same seeds).

use std::{
    collections::{BTreeMap, HashMap},
    sync::{Arc, Mutex},
    time::Duration,
};

use rand::{RngCore, SeedableRng, rngs::StdRng};
use serde_json::json;

use super::{c01, common::*, mpc::*};

pub const LEVEL: &str = "fault_enumeration";

pub struct Baseline {
    pub rows: Vec<Row>,
    pub cfg: HybridCfg,
    pub hist: Vec<u128>,
    pub elapsed: Duration,
    /// per sender: channels with chunk lengths
    pub by_sender: [Vec<(ChannelKey, Vec<usize>)>; 3],
    /// per sender: groups of channel indices by gate prefix (stratification)
    pub groups: [Vec<Vec<usize>>; 3],
    pub total_channels: usize,
}

static BASELINES: Mutex<Option<HashMap<(u64, usize), Arc<Baseline>>>> = Mutex::new(None);

pub const N_BASE: usize = 8;
/// base inputs >= SPARSE_FROM are sparse: one shard, no padding, a handful of attributed pairs
/// with pairwise distinct buckets - no aggregation additions, so a share altered late in the
/// query reaches the output without passing through another proved multiplication
pub const SPARSE_FROM: usize = 6;

fn gate_prefix(g: &str, depth: usize) -> String {
    // gates look like "protocol/run-0/<step>/<step>/..."; skip the two leading components
    g.split('/').skip(2).take(depth).collect::<Vec<_>>().join("/")
}

fn base_cfg(seed: u64, i: usize) -> (Vec<Row>, HybridCfg) {
    // base inputs are a pure function of (VERIF_SEED, i): choices drawn from a seeded StdRng
    let mut rng = StdRng::seed_from_u64(digest(&(seed, i as u64, "c02-base")));
    let choices: Vec<u32> = (0..3000).map(|_| rng.next_u32()).collect();
    let mut src = Src::new(&choices);
    let sparse = i >= SPARSE_FROM;
    let shards = if sparse { 1 } else if i % 3 == 2 { 2 } else { 1 };
    let mut labels = vec![];
    let mut rows = if sparse { vec![] } else { c01::gen_rows(&mut src, 10, &mut labels) };
    if sparse {
        let npairs = 3 + src.idx(4);
        for k in 0..npairs {
            let mk = 0x6000_0000_0000u64 + k as u64;
            rows.push(Row { mk, kind: RowKind::Impression, payload: (10 + 37 * k) as u8 });
            rows.push(Row { mk, kind: RowKind::Conversion, payload: 1 + ((k * 3 + i) % 7) as u8 });
        }
        // a few unmatched reports that are dropped before aggregation
        for k in 0..src.idx(3) {
            rows.push(Row { mk: 0x6100_0000_0000u64 + k as u64, kind: RowKind::Conversion, payload: 3 });
        }
    }
    // enough matched pairs that no shard is left without rows (known finding of C01), and at
    // least three populated buckets
    let need = if sparse { 0 } else { 12 * shards };
    for k in 0..need {
        let mk = 0x5000_0000_0000u64 + k as u64;
        rows.push(Row { mk, kind: RowKind::Impression, payload: [3u8, 200, 77, 255, 0][k % 5] });
        rows.push(Row { mk, kind: RowKind::Conversion, payload: 1 + (k % 7) as u8 });
    }
    let p = src.perm(rows.len());
    let rows: Vec<Row> = p.into_iter().map(|i| rows[i]).collect();
    let assign = (0..rows.len()).map(|j| j % shards).collect();
    let cfg = HybridCfg {
        shards,
        malicious: true,
        pad: if i % 2 == 1 && !sparse { Pad::Tiny } else { Pad::None },
        hv_bits: [8u32, 32, 16][i % 3],
        workers: 0,
        world_seed: src.seed(),
        share_seed: src.seed(),
        assign,
        timeout: Duration::from_secs(120),
        tamper: None,
        more_tampers: vec![],
        grace_after_other_failure: None,
        stop_on_error_of: 0b111,
    };
    (rows, cfg)
}

pub fn baseline(seed: u64, i: usize) -> Result<Arc<Baseline>, String> {
    {
        let g = BASELINES.lock().unwrap();
        if let Some(b) = g.as_ref().and_then(|m| m.get(&(seed, i))) {
            return Ok(Arc::clone(b));
        }
    }
    let (rows, cfg) = base_cfg(seed, i);
    let res = run_hybrid(&cfg, &rows);
    if !res.all_ok() {
        return Err(format!("honest baseline run {i} did not complete: {}", res.summary()));
    }
    let hist = res.reconstruct_leader()?;
    let (want, _) = reference_histogram(&rows, cfg.hv_bits);
    if hist != want {
        return Err("honest baseline differs from the plaintext reference (C01 territory)".into());
    }
    let mut by_sender: [Vec<(ChannelKey, Vec<usize>)>; 3] = [vec![], vec![], vec![]];
    for (k, v) in &res.catalogue {
        by_sender[k.source].push((k.clone(), v.clone()));
    }
    let mut groups: [Vec<Vec<usize>>; 3] = [vec![], vec![], vec![]];
    for s in 0..3 {
        let mut m: BTreeMap<String, Vec<usize>> = BTreeMap::new();
        for (idx, (k, _)) in by_sender[s].iter().enumerate() {
            m.entry(gate_prefix(&k.gate, 4)).or_default().push(idx);
        }
        groups[s] = m.into_values().collect();
    }
    let b = Arc::new(Baseline { rows, cfg, hist, elapsed: res.elapsed, total_channels: res.catalogue.len(), by_sender, groups });
    let mut g = BASELINES.lock().unwrap();
    g.get_or_insert_with(HashMap::new).insert((seed, i), Arc::clone(&b));
    Ok(b)
}

pub fn gen_edit(src: &mut Src<'_>, len: usize) -> (Edit, &'static str) {
    match src.below(9) {
        8 => gen_elem_lsb(src, len),
        0 | 1 => {
            let byte = match src.below(3) {
                0 => 0,
                1 => len - 1,
                _ => src.idx(len),
            };
            (Edit::BitFlip { byte, bit: src.below(8) as u8 }, "bitflip")
        }
        2 => (Edit::XorAll { pattern: 1 + src.below(255) as u8 }, "xor-all"),
        3 => (Edit::Replace { pattern: src.below(256) as u8 }, "replace"),
        4 => (Edit::AddLe { elem: src.idx(len), stride: 8, width: 8, delta: 1 + src.below(1 << 20) as u128, modulus: Some((1u128 << 61) - 1) }, "add-fp61"),
        5 => (Edit::AddLe { elem: src.idx(len), stride: 32, width: 16, delta: 1 + src.u64() as u128, modulus: None }, "add-fp25519"),
        6 => (Edit::AddLe { elem: src.idx(len), stride: 1, width: 1, delta: 1 + src.below(255) as u128, modulus: None }, "add-byte"),
        _ => (Edit::AddLe { elem: src.idx(len), stride: 4, width: 4, delta: 1 + src.below(u64::from(u32::MAX)) as u128, modulus: Some(4_294_967_291) }, "add-fp32"),
    }
}

/// flip one of the lowest bits of one element, for a plausible element size (a divisor of the
/// chunk length among the record sizes the protocol sends): hits the first field of a row
pub fn gen_elem_lsb(src: &mut Src<'_>, len: usize) -> (Edit, &'static str) {
    let strides: Vec<usize> = [1usize, 4, 8, 14, 16, 18, 32].into_iter().filter(|s| len % s == 0).collect();
    let stride = if strides.is_empty() { 1 } else { strides[strides.len() - 1 - src.idx(strides.len())] };
    let elem = src.idx(len / stride);
    (Edit::BitFlip { byte: elem * stride, bit: src.below(3) as u8 }, "elem-lsb")
}

fn tamper_case(env: &Env, src: &mut Src<'_>) -> CaseResult {
    tamper_with(env, src, None, 0..N_BASE)
}

/// sparse inputs (see SPARSE_FROM): late alterations are not re-proved by a later multiplication
fn tamper_sparse_case(env: &Env, src: &mut Src<'_>) -> CaseResult {
    tamper_with(env, src, None, SPARSE_FROM..N_BASE)
}

/// rows in flight between helpers during the two shuffles of a sparse query: low bits of one row
fn tamper_shuffle_rows_case(env: &Env, src: &mut Src<'_>) -> CaseResult {
    tamper_with(env, src, Some("shuffle/transfer"), SPARSE_FROM..N_BASE)
}

/// openings: only channels of steps that reveal a value (pseudonyms, breakdown keys, conversion
/// masks, MAC r) - a receiver must compare the two copies it gets
fn tamper_reveal_case(env: &Env, src: &mut Src<'_>) -> CaseResult {
    tamper_with(env, src, Some("reveal"), 0..N_BASE)
}

fn tamper_with(env: &Env, src: &mut Src<'_>, only: Option<&str>, bases: std::ops::Range<usize>) -> CaseResult {
    tamper_with_dir(env, src, only, bases, false)
}

/// `incoming`: the edited message is one the corrupt helper *receives* (its own view is falsified
/// and its honest code carries the falsification into everything it sends afterwards)
fn tamper_with_dir(env: &Env, src: &mut Src<'_>, only: Option<&str>, bases: std::ops::Range<usize>, incoming: bool) -> CaseResult {
    let bi = bases.start + src.idx(bases.len());
    let base = match baseline(env.seed, bi) {
        Ok(b) => b,
        Err(e) => {
            // a baseline that does not complete is not a C02 verdict; it is reported by C01.
            return Ok(CaseOk::new(false, &0u8, serde_json::Value::Null).label(format!("baseline-unusable:{}", e.chars().take(40).collect::<String>())));
        }
    };
    let corrupt = src.idx(3);
    // hierarchical stratification: at each gate depth choose one of the distinct next components
    // uniformly, so that every protocol step (not only the 256-fold bit steps) is hit
    // the channels the edit may hit: sent by the corrupt helper, or (incoming) received by it
    let pool: Vec<&(ChannelKey, Vec<usize>)> = if incoming {
        (0..3).filter(|q| *q != corrupt).flat_map(|q| base.by_sender[q].iter()).filter(|(k, _)| k.dest == corrupt).collect()
    } else {
        base.by_sender[corrupt].iter().collect()
    };
    let mut cand: Vec<usize> = (0..pool.len()).filter(|c| only.is_none_or(|o| pool[*c].0.gate.contains(o))).collect();
    if cand.is_empty() {
        return Ok(CaseOk::new(false, &0u8, serde_json::Value::Null).label("no-matching-channel"));
    }
    for depth in 2..7 {
        let mut m: BTreeMap<&str, Vec<usize>> = BTreeMap::new();
        for &c in &cand {
            let comp = pool[c].0.gate.split('/').nth(depth).unwrap_or("");
            m.entry(comp).or_default().push(c);
        }
        if m.len() > 1 {
            let keys: Vec<&str> = m.keys().copied().collect();
            let k = keys[src.idx(keys.len())];
            cand = m.remove(k).unwrap();
        }
    }
    let ch = cand[src.idx(cand.len())];
    let (key, chunks) = pool[ch];
    let ordinal = match src.below(3) {
        0 => 0,
        1 => chunks.len() - 1,
        _ => src.idx(chunks.len()),
    };
    let len = chunks[ordinal];
    if len == 0 {
        return Ok(CaseOk::new(false, &0u8, serde_json::Value::Null).label("empty-chunk"));
    }
    // The shuffle's cardinality word sizes an allocation on the receiver: an arbitrary value makes
    // the honest receiver abort the whole process on allocation failure (a crash, i.e. "never
    // produces output" - acceptable for the property, but it would take this harness down with
    // it). On that channel only small additive errors are injected.
    let (edit, ename) = if key.gate.contains("cardinality") && len <= 16 {
        (Edit::AddLe { elem: 0, stride: len, width: len, delta: 1 + src.below(32) as u128, modulus: None }, "add-small-cardinality")
    } else if only == Some("shuffle/transfer") {
        gen_elem_lsb(src, len)
    } else if key.gate.contains("reveal_r") && len % 32 == 0 && src.below(4) != 0 {
        // openings of curve points (the PRF mask g^r): a flipped bit almost never is a valid
        // point encoding and is refused at decoding; the interesting substitution is ANOTHER
        // VALID point (falls back to a bit flip where the 32 bytes are not a point)
        let mut scalar = [0u8; 32];
        scalar[..8].copy_from_slice(&(1 + src.below(u64::MAX - 1)).to_le_bytes());
        (Edit::RistrettoAdd { elem: src.idx(len / 32), scalar }, "other-valid-point")
    } else {
        gen_edit(src, len)
    };
    let mut cfg = base.cfg.clone();
    cfg.tamper = Some(Tamper { key: key.clone(), ordinal, edit: edit.clone() });
    let honest = [(corrupt + 1) % 3, (corrupt + 2) % 3];
    cfg.stop_on_error_of = (1 << honest[0]) | (1 << honest[1]);
    cfg.timeout = (base.elapsed * 20).max(Duration::from_secs(5));
    cfg.grace_after_other_failure = Some((base.elapsed * 4).max(Duration::from_millis(1500)));
    let cj = json!({"base": bi, "base_cfg": base.cfg.json(), "corrupt": corrupt, "edited_message": if incoming { "received by the corrupt helper" } else { "sent by the corrupt helper" }, "channel": {"gate": key.gate, "source": key.source, "dest": key.dest, "shard": key.shard},
                    "ordinal": ordinal, "len": len, "edit": format!("{edit:?}")});
    let res = run_hybrid(&cfg, &base.rows);
    let prefix = gate_prefix(&key.gate, 3);
    let mut labels = vec![format!("edit:{ename}"), format!("corrupt:H{}", corrupt + 1), format!("step:{prefix}"), format!("shards:{}", cfg.shards)];
    if incoming {
        labels.push("edited:incoming".into());
    }
    if !res.tamper_fired || !res.tamper_changed {
        labels.push(if res.tamper_fired { "edit-no-change".into() } else { "edit-not-fired".into() });
        return Ok(CaseOk::new(false, &0u8, serde_json::Value::Null).labels(labels));
    }
    // (i) an honest helper ended with an error / panic
    let honest_failed = honest.iter().any(|h| res.outcomes[*h].iter().any(|o| o.as_ref().is_some_and(|o| !o.is_ok())));
    let verdict;
    if honest_failed {
        verdict = "detected";
    } else if res.timed_out || honest.iter().any(|h| res.outcomes[*h].iter().any(Option::is_none)) {
        verdict = "no-output";
    } else {
        // (iii) both honest helpers produced output on every shard: their shares alone must
        // determine the untampered histogram
        let out = |h: usize| match &res.outcomes[h][0] {
            Some(HelperOutcome::Ok(v)) => v.clone(),
            _ => unreachable!(),
        };
        match reconstruct2(&out(honest[0]), &out(honest[1])) {
            Ok(h) if h == base.hist => verdict = "unchanged",
            Ok(h) => {
                let diff: Vec<_> = (0..h.len().min(256)).filter(|i| h[*i] != base.hist[*i]).take(5).map(|i| json!({"bucket": i, "got": h[i].to_string(), "want": base.hist[i].to_string()})).collect();
                return Err(violation(
                    format!("accepted-different:{}{}", if incoming { "own-view:" } else { "" }, gate_prefix(&key.gate, 2)),
                    format!("tampering by H{} on {} -> H{} was accepted by both honest helpers and changes the result: {}", corrupt + 1, key.gate, key.dest + 1, serde_json::to_string(&diff).unwrap()),
                    cj,
                ));
            }
            Err(e) => {
                return Err(violation(
                    format!("accepted-undetermined:{}{}", if incoming { "own-view:" } else { "" }, gate_prefix(&key.gate, 2)),
                    format!("tampering by H{} on {} -> H{}: honest helpers returned Ok but their shares do not determine a result: {e}", corrupt + 1, key.gate, key.dest + 1),
                    cj,
                ));
            }
        }
    }
    labels.push(format!("verdict:{verdict}"));
    if verdict != "detected" {
        labels.push(format!("{verdict}@{}:{ename}", gate_prefix(&key.gate, 2)));
    }
    let pos_bucket = if ordinal == 0 { 0 } else if ordinal + 1 == chunks.len() { 2 } else { 1 };
    Ok(CaseOk {
        nontrivial: true,
        digest: digest(&(bi, corrupt, &key.gate, key.dest, key.shard, ename, pos_bucket)),
        labels,
        sample: json!({"case": cj, "verdict": verdict, "elapsed_ms": res.elapsed.as_millis() as u64}),
    })
}

/// The structured attack on the vectorised MAC multiplication of the pseudonym computation: the
/// corrupt helper adds an error *vector* (one lane; +d/-d on two lanes; the same d on all lanes) to
/// one 16-lane record of the product share it sends in `mult_mask_with_p_r_f_input`, and then lies
/// consistently when z is opened: the same vector on the copy it sends to its other neighbour and
/// on the two copies it receives itself (its own view).
fn tamper_prf_lanes_case(env: &Env, src: &mut Src<'_>) -> CaseResult {
    const LANES: usize = 16;
    let bi = src.idx(N_BASE);
    let base = match baseline(env.seed, bi) {
        Ok(b) => b,
        Err(e) => return Ok(CaseOk::new(false, &0u8, serde_json::Value::Null).label(format!("baseline-unusable:{}", e.chars().take(40).collect::<String>()))),
    };
    let corrupt = src.idx(3);
    let (left, right) = ((corrupt + 2) % 3, (corrupt + 1) % 3);
    // the [x*y] part of the multiplication goes to the left neighbour; its r*x twin runs in a child step
    let muls: Vec<&(ChannelKey, Vec<usize>)> = base.by_sender[corrupt].iter().filter(|(k, _)| k.gate.contains("eval_prf") && k.gate.ends_with("mult_mask_with_p_r_f_input") && k.dest == left).collect();
    if muls.is_empty() {
        return Ok(CaseOk::new(false, &0u8, serde_json::Value::Null).label("no-matching-channel"));
    }
    let (mkey, mchunks) = muls[src.idx(muls.len())];
    let rec_bytes = LANES * 32;
    if mchunks.is_empty() || mchunks[0] < rec_bytes || mchunks[0] % rec_bytes != 0 {
        return Ok(CaseOk::new(false, &0u8, serde_json::Value::Null).label("unexpected-record-layout"));
    }
    let recs = mchunks[0] / rec_bytes;
    let record = if src.bool() { 0 } else { src.idx(recs) };
    let mut d = [0u8; 32];
    d[0] = 1 + src.below(255) as u8;
    if src.bool() {
        for b in d.iter_mut().take(16).skip(1) {
            *b = src.below(256) as u8;
        }
    }
    // -d mod l via the field itself
    let neg = {
        use crate::ff::{Serializable, ec_prime_field::Fp25519};
        use crate::secret_sharing::SharedValue;
        let ga = generic_array::GenericArray::<u8, typenum::U32>::from(d);
        let v = Fp25519::ZERO - Fp25519::deserialize_infallible(&ga);
        let mut out = generic_array::GenericArray::<u8, typenum::U32>::default();
        v.serialize(&mut out);
        <[u8; 32]>::from(out)
    };
    let shape = src.pick(&["two-lanes-zero-sum", "one-lane", "all-lanes-same"]);
    let (l0, l1) = {
        let a = src.idx(LANES);
        (a, (a + 1 + src.idx(LANES - 1)) % LANES)
    };
    let errors: Vec<(usize, [u8; 32])> = match shape {
        "two-lanes-zero-sum" => vec![(l0, d), (l1, neg)],
        "one-lane" => vec![(l0, d)],
        _ => (0..LANES).map(|l| (l, d)).collect(),
    };
    let edit = Edit::Fp25519Add { record, lanes_per_record: LANES, errors };
    let lie = src.pick(&["consistent", "consistent", "message-only"]);
    let same = |k: &ChannelKey| k.shard == mkey.shard && k.gate.contains("eval_prf") && k.gate.ends_with("revealz");
    let mut tampers = vec![Tamper { key: mkey.clone(), ordinal: 0, edit: edit.clone() }];
    let mut copies = 0;
    if lie == "consistent" {
        for (k, c) in &base.by_sender[corrupt] {
            if same(k) && k.dest == right && c.first() == mchunks.first() {
                tampers.push(Tamper { key: k.clone(), ordinal: 0, edit: edit.clone() });
                copies += 1;
            }
        }
        for q in [left, right] {
            for (k, c) in &base.by_sender[q] {
                if same(k) && k.dest == corrupt && c.first() == mchunks.first() {
                    tampers.push(Tamper { key: k.clone(), ordinal: 0, edit: edit.clone() });
                    copies += 1;
                }
            }
        }
    }
    let mut cfg = base.cfg.clone();
    cfg.tamper = Some(tampers.remove(0));
    cfg.more_tampers = tampers;
    let honest = [right, left];
    cfg.stop_on_error_of = (1 << honest[0]) | (1 << honest[1]);
    cfg.timeout = (base.elapsed * 20).max(Duration::from_secs(5));
    cfg.grace_after_other_failure = Some((base.elapsed * 4).max(Duration::from_millis(1500)));
    let cj = json!({"base": bi, "base_cfg": base.cfg.json(), "corrupt": corrupt, "multiplication": {"gate": mkey.gate, "dest": mkey.dest, "shard": mkey.shard}, "record": record,
                    "error_vector": shape, "lanes": [l0, l1], "lie": lie, "opening_copies_falsified": copies});
    let res = run_hybrid(&cfg, &base.rows);
    let mut labels = vec![format!("vector:{shape}"), format!("lie:{lie}"), format!("corrupt:H{}", corrupt + 1), format!("opening-copies:{copies}")];
    if !res.tamper_fired || !res.tamper_changed {
        labels.push(if res.tamper_fired { "edit-no-change".into() } else { "edit-not-fired".into() });
        return Ok(CaseOk::new(false, &0u8, serde_json::Value::Null).labels(labels));
    }
    let honest_failed = honest.iter().any(|h| res.outcomes[*h].iter().any(|o| o.as_ref().is_some_and(|o| !o.is_ok())));
    let verdict;
    if honest_failed {
        verdict = "detected";
    } else if res.timed_out || honest.iter().any(|h| res.outcomes[*h].iter().any(Option::is_none)) {
        verdict = "no-output";
    } else {
        let out = |h: usize| match &res.outcomes[h][0] {
            Some(HelperOutcome::Ok(v)) => v.clone(),
            _ => unreachable!(),
        };
        match reconstruct2(&out(honest[0]), &out(honest[1])) {
            Ok(h) if h == base.hist => verdict = "unchanged",
            Ok(h) => {
                let diff: Vec<_> = (0..h.len().min(256)).filter(|i| h[*i] != base.hist[*i]).take(5).map(|i| json!({"bucket": i, "got": h[i].to_string(), "want": base.hist[i].to_string()})).collect();
                return Err(violation(
                    format!("accepted-different:prf-lanes:{shape}"),
                    format!("H{} added a {shape} error vector to record {record} of its product share in {} ({lie}) and both honest helpers accepted a different result: {}", corrupt + 1, mkey.gate, serde_json::to_string(&diff).unwrap()),
                    cj,
                ));
            }
            Err(e) => {
                return Err(violation(format!("accepted-undetermined:prf-lanes:{shape}"), format!("H{} added a {shape} error vector in {}: honest helpers returned Ok but their shares do not determine a result: {e}", corrupt + 1, mkey.gate), cj));
            }
        }
    }
    labels.push(format!("verdict:{verdict}"));
    Ok(CaseOk { nontrivial: true, digest: digest(&(bi, corrupt, &mkey.gate, mkey.shard, shape, lie, record, l0, l1)), labels, sample: json!({"case": cj, "verdict": verdict, "elapsed_ms": res.elapsed.as_millis() as u64}) })
}

/// any single message the corrupt helper receives is falsified (its honest code then computes on
/// the falsified value): a deviation that single edits of *sent* messages cannot express
fn tamper_incoming_case(env: &Env, src: &mut Src<'_>) -> CaseResult {
    tamper_with_dir(env, src, None, 0..N_BASE, true)
}

/// A deviating helper that lies *consistently* about one opening: the same edit is applied to the
/// copies it sends for that opening and to the copies it receives (its own view of the opened
/// value), so that the helper's own honest code carries on with the falsified value instead of
/// tripping over its own lie in a later check. Editing what the corrupt helper receives changes
/// nothing for the honest helpers - it is the corrupt helper's internal state - so this is still
/// a deviation of a single helper, and the oracle is the same as in `tamper_with`.
fn tamper_view_case(env: &Env, src: &mut Src<'_>) -> CaseResult {
    let bi = src.idx(N_BASE);
    let base = match baseline(env.seed, bi) {
        Ok(b) => b,
        Err(e) => return Ok(CaseOk::new(false, &0u8, serde_json::Value::Null).label(format!("baseline-unusable:{}", e.chars().take(40).collect::<String>()))),
    };
    let corrupt = src.idx(3);
    let mut cand: Vec<usize> = (0..base.by_sender[corrupt].len()).filter(|c| base.by_sender[corrupt][*c].0.gate.contains("reveal")).collect();
    if cand.is_empty() {
        return Ok(CaseOk::new(false, &0u8, serde_json::Value::Null).label("no-matching-channel"));
    }
    for depth in 2..7 {
        let mut m: BTreeMap<&str, Vec<usize>> = BTreeMap::new();
        for &c in &cand {
            let comp = base.by_sender[corrupt][c].0.gate.split('/').nth(depth).unwrap_or("");
            m.entry(comp).or_default().push(c);
        }
        if m.len() > 1 {
            let keys: Vec<&str> = m.keys().copied().collect();
            let k = keys[src.idx(keys.len())];
            cand = m.remove(k).unwrap();
        }
    }
    let ch = cand[src.idx(cand.len())];
    let (key, chunks) = &base.by_sender[corrupt][ch];
    let ordinal = match src.below(3) {
        0 => 0,
        1 => chunks.len() - 1,
        _ => src.idx(chunks.len()),
    };
    let len = chunks[ordinal];
    if len == 0 {
        return Ok(CaseOk::new(false, &0u8, serde_json::Value::Null).label("empty-chunk"));
    }
    // position: early bytes are the lanes / rows that carry real records
    let byte = match src.below(4) {
        0 => 0,
        1 => src.idx(len.min(4)),
        2 => len - 1,
        _ => src.idx(len),
    };
    let (edit, ename) = match src.below(3) {
        0 | 1 => (Edit::BitFlip { byte, bit: src.below(8) as u8 }, "bitflip"),
        _ => (Edit::AddLe { elem: byte / 32, stride: 32.min(len), width: 16.min(len), delta: 1 + src.below(1 << 16) as u128, modulus: None }, "add"),
    };
    // which copies are falsified
    let mode = src.pick(&["one-out+in", "all-out+in", "in-only"]);
    let same_step = |k: &ChannelKey| k.gate == key.gate && k.shard == key.shard;
    let mut tampers: Vec<Tamper> = vec![];
    if mode != "in-only" {
        tampers.push(Tamper { key: key.clone(), ordinal, edit: edit.clone() });
    }
    if mode == "all-out+in" {
        for (k, c) in &base.by_sender[corrupt] {
            if same_step(k) && k != key && c.len() > ordinal {
                tampers.push(Tamper { key: k.clone(), ordinal, edit: edit.clone() });
            }
        }
    }
    let mut incoming = 0;
    for q in 0..3 {
        if q == corrupt {
            continue;
        }
        for (k, c) in &base.by_sender[q] {
            if same_step(k) && k.dest == corrupt && c.len() > ordinal {
                tampers.push(Tamper { key: k.clone(), ordinal, edit: edit.clone() });
                incoming += 1;
            }
        }
    }
    if tampers.is_empty() {
        return Ok(CaseOk::new(false, &0u8, serde_json::Value::Null).label("no-copy-to-falsify"));
    }
    let mut cfg = base.cfg.clone();
    let n_edits = tampers.len();
    cfg.tamper = Some(tampers.remove(0));
    cfg.more_tampers = tampers;
    let honest = [(corrupt + 1) % 3, (corrupt + 2) % 3];
    cfg.stop_on_error_of = (1 << honest[0]) | (1 << honest[1]);
    cfg.timeout = (base.elapsed * 20).max(Duration::from_secs(5));
    cfg.grace_after_other_failure = Some((base.elapsed * 4).max(Duration::from_millis(1500)));
    let cj = json!({"base": bi, "base_cfg": base.cfg.json(), "corrupt": corrupt, "opening": {"gate": key.gate, "shard": key.shard}, "mode": mode,
                    "falsified_copies": n_edits, "of_which_received_by_the_corrupt_helper": incoming, "ordinal": ordinal, "len": len, "edit": format!("{edit:?}")});
    let res = run_hybrid(&cfg, &base.rows);
    let mut labels = vec![format!("edit:{ename}"), format!("mode:{mode}"), format!("corrupt:H{}", corrupt + 1), format!("step:{}", gate_prefix(&key.gate, 3).trim_end_matches(|c: char| c.is_ascii_digit())), format!("incoming-copies:{incoming}")];
    if !res.tamper_fired || !res.tamper_changed {
        labels.push(if res.tamper_fired { "edit-no-change".into() } else { "edit-not-fired".into() });
        return Ok(CaseOk::new(false, &0u8, serde_json::Value::Null).labels(labels));
    }
    let honest_failed = honest.iter().any(|h| res.outcomes[*h].iter().any(|o| o.as_ref().is_some_and(|o| !o.is_ok())));
    let verdict;
    if honest_failed {
        verdict = "detected";
    } else if res.timed_out || honest.iter().any(|h| res.outcomes[*h].iter().any(Option::is_none)) {
        verdict = "no-output";
    } else {
        let out = |h: usize| match &res.outcomes[h][0] {
            Some(HelperOutcome::Ok(v)) => v.clone(),
            _ => unreachable!(),
        };
        match reconstruct2(&out(honest[0]), &out(honest[1])) {
            Ok(h) if h == base.hist => verdict = "unchanged",
            Ok(h) => {
                let diff: Vec<_> = (0..h.len().min(256)).filter(|i| h[*i] != base.hist[*i]).take(5).map(|i| json!({"bucket": i, "got": h[i].to_string(), "want": base.hist[i].to_string()})).collect();
                return Err(violation(
                    format!("accepted-different:consistent-lie:{}", gate_prefix(&key.gate, 2)),
                    format!("H{} falsified {n_edits} copies ({mode}) of the opening {} and both honest helpers accepted a different result: {}", corrupt + 1, key.gate, serde_json::to_string(&diff).unwrap()),
                    cj,
                ));
            }
            Err(e) => {
                return Err(violation(
                    format!("accepted-undetermined:consistent-lie:{}", gate_prefix(&key.gate, 2)),
                    format!("H{} falsified {n_edits} copies ({mode}) of the opening {}: honest helpers returned Ok but their shares do not determine a result: {e}", corrupt + 1, key.gate),
                    cj,
                ));
            }
        }
    }
    labels.push(format!("verdict:{verdict}"));
    Ok(CaseOk {
        nontrivial: true,
        digest: digest(&(bi, corrupt, &key.gate, key.shard, ename, mode, ordinal, byte)),
        labels,
        sample: json!({"case": cj, "verdict": verdict, "elapsed_ms": res.elapsed.as_millis() as u64}),
    })
}

/// The catalogue itself: one case per base input; reports its size (channels per sender, distinct
/// steps) so the evidence shows what the fault space was.
fn catalogue_case(env: &Env, src: &mut Src<'_>) -> CaseResult {
    let i = (src.raw() as usize) % N_BASE;
    match baseline(env.seed, i) {
        Ok(b) => {
            let steps: std::collections::BTreeSet<String> = b.by_sender.iter().flatten().map(|(k, _)| gate_prefix(&k.gate, 3)).collect();
            Ok(CaseOk::new(
                true,
                &i,
                json!({"base": i, "cfg": b.cfg.json(), "rows": b.rows.len(), "channels": b.total_channels,
                       "channels_per_sender": b.by_sender.iter().map(Vec::len).collect::<Vec<_>>(),
                       "strata_per_sender": b.groups.iter().map(Vec::len).collect::<Vec<_>>(),
                       "bytes": b.by_sender.iter().flatten().map(|(_, c)| c.iter().sum::<usize>()).sum::<usize>(),
                       "steps": steps.iter().take(80).collect::<Vec<_>>(), "elapsed_ms": b.elapsed.as_millis() as u64}),
            )
            .label(format!("shards:{}", b.cfg.shards)))
        }
        Err(e) => Err(violation("baseline-failed", e, json!({"base": i}))),
    }
}

pub fn subs(_env: &Env) -> Vec<Sub> {
    vec![
        Sub::exhaustive("catalogue", N_BASE as u64, N_BASE as u64, catalogue_case,
            "honest record run of the whole malicious hybrid query for each of the base inputs (1 and 2 shards, with and without padding, three output widths): must complete and equal the plaintext reference; yields the channel catalogue that the fault cases index"),
        Sub::random("tamper", 40, 1200, 20_000, tamper_case,
            "case = (base input, corrupt helper, channel of that helper chosen by hierarchical stratification over gate components (uniform choice among distinct next components at depths 1..5, then uniform), chunk ordinal first/last/random, edit: bit flip first/last/random byte, xor-all, replace, additive on 1/4/8/32-byte elements incl. modular for Fp32/Fp61); tampered run uses the same seeds as the baseline; accept iff an honest helper errs, or no output within max(5 s, 20x baseline), or the two honest helpers' shares alone reconstruct the baseline histogram; non-trivial = edit fired and changed bytes; distinct by (base, corrupt, gate, dest, shard, edit class, first/middle/last chunk)")
        .shrink_iters(16),
        Sub::random("tamper_sparse", 40, 1200, 10_000, tamper_sparse_case,
            "same as `tamper`, on the sparse base inputs only (one shard, no padding, 3-6 attributed pairs with pairwise distinct buckets, so the aggregation tree has no additions): an alteration of shuffle or reveal traffic late in the query is not re-proved by a later multiplication and must be caught by the step's own check")
        .shrink_iters(16),
        Sub::random("tamper_shuffle_rows", 40, 500, 6_000, tamper_shuffle_rows_case,
            "sparse base inputs, only the shuffle transfer channels (x/y and c tables of the input shuffle and of the attribution-output shuffle), edit = one of the three lowest bits of one row for a plausible row size: the value bits of a row in flight")
        .shrink_iters(16),
        Sub::random("tamper_reveal", 40, 400, 6_000, tamper_reveal_case,
            "same as `tamper`, restricted to channels of steps whose gate contains `reveal` (openings of pseudonyms, breakdown keys, share-conversion masks, MAC keys): the receiver gets two copies of the missing share and must refuse to open when they differ")
        .shrink_iters(16),
        Sub::random("tamper_prf_lanes", 40, 200, 4_000, tamper_prf_lanes_case,
            "structured attack on the 16-lane MAC multiplication of the pseudonym computation inside the whole query: an error vector (one lane; +d/-d on two lanes; the same d on all lanes) on one record of the corrupt helper's product share in mult_mask_with_p_r_f_input, alone or repeated consistently in the opening of z (the copy sent to the other neighbour and the two copies the corrupt helper receives); same oracle as `tamper`")
        .shrink_iters(16),
        Sub::random("tamper_incoming", 40, 400, 8_000, tamper_incoming_case,
            "same generator and oracle as `tamper`, but the edited message is one the corrupt helper *receives* (any step): the helper's own honest code computes on a falsified view, so everything it sends afterwards deviates consistently with it - an adaptive deviation confined to one helper")
        .shrink_iters(16),
        Sub::random("tamper_view", 40, 400, 6_000, tamper_view_case,
            "a helper that lies consistently about one opening: one edit (bit flip or small addition at a generated position, biased to the first lanes) applied to the copy it sends to one peer / to all peers AND to every copy it receives for the same opening (its own view, so that its honest code continues with the falsified value), or to the received copies only; same oracle as `tamper`. Reaches what single-message edits cannot: an opening check that is missing on one receiver is otherwise masked by the corrupt helper's own later inconsistency")
        .shrink_iters(16),
    ]
}
