// C03 - multiplication proofs accept honest batches and reject any altered one.
//
// (a) table identity, exhaustive over the 64 intermediate combinations;
// (b) block -> table-index conversion against a per-bit reference, all 256 positions, and the
//     three-party consistency of prover / left verifier / right verifier indices;
// (c) end to end under TestWorld: honest batches validate, one flipped transmitted or recorded bit
//     makes a helper reject.

use std::time::Duration;

use bitvec::prelude::*;
use futures::{StreamExt, TryStreamExt, future::try_join_all, stream};
use serde_json::json;

use super::{common::*, mpc::*};
use crate::{
    error::Error,
    ff::{Field, Fp61BitPrime, U128Conversions, boolean::Boolean},
    helpers::{Direction, TotalRecords},
    protocol::{
        RecordId,
        context::{
            Context, DZKPUpgradedMaliciousContext, MaliciousContext, TEST_DZKP_STEPS, UpgradableContext,
            dzkp_field::{DZKPBaseField, DZKPCompatibleField, TABLE_U, TABLE_V},
            dzkp_validator::{DZKPValidator, MultiplicationInputsBlock, Segment, validated_seq_join},
        },
        prss::SharedRandomness,
    },
    secret_sharing::{FieldSimd, SharedValueArray, Vectorizable, replicated::semi_honest::AdditiveShare as Replicated},
    sharding::NotSharded,
    test_fixture::{TestWorld, TestWorldConfig},
};

pub const LEVEL: &str = "fault_enumeration";

type UV = [Fp61BitPrime; 4];

fn dotv(u: &UV, v: &UV) -> Fp61BitPrime {
    (0..4).fold(<Fp61BitPrime as crate::secret_sharing::SharedValue>::ZERO, |acc, i| acc + u[i] * v[i])
}

type A256 = BitArr!(for 256, in u8, Lsb0);

fn arr_from(f: impl Fn(usize) -> bool) -> A256 {
    let mut a = A256::ZERO;
    for i in 0..256 {
        a.set(i, f(i));
    }
    a
}

fn zero_block() -> MultiplicationInputsBlock {
    MultiplicationInputsBlock { x_left: A256::ZERO, x_right: A256::ZERO, y_left: A256::ZERO, y_right: A256::ZERO, prss_left: A256::ZERO, prss_right: A256::ZERO, z_right: A256::ZERO }
}

/// The u-vector (g1..g4) the code assigns to the intermediates (a, c, e) and the v-vector
/// (h1..h4) it assigns to (b, d, f): obtained through the code's own conversion of a block with
/// one populated position, followed by its own table lookup. How the three bits are encoded as
/// a table index (and in which order the table rows are stored) is NOT part of the oracle - only
/// the field elements that reach the proof are.
fn u_of(a: bool, c: bool, e: bool) -> UV {
    // verifier view of the prover on its right: (a, c, e) = (x_right, y_right, x_right*y_right ^ z_right ^ prss_right)
    let mut b = zero_block();
    b.x_right.set(0, a);
    b.y_right.set(0, c);
    b.z_right.set(0, (a & c) ^ e);
    TABLE_U[b.table_indices_from_right_prover()[0]]
}
fn v_of(b_: bool, d: bool, f: bool) -> UV {
    // verifier view of the prover on its left: (b, d, f) = (y_left, x_left, prss_left)
    let mut b = zero_block();
    b.y_left.set(0, b_);
    b.x_left.set(0, d);
    b.prss_left.set(0, f);
    TABLE_V[b.table_indices_from_left_prover()[0]]
}

// (a) ---------------------------------------------------------------------------------------

fn table_identity(_env: &Env, src: &mut Src<'_>) -> CaseResult {
    let i = src.raw();
    let bit = |k: u32| (i >> k) & 1 == 1;
    let (a, b, c, d, e, f) = (bit(0), bit(1), bit(2), bit(3), bit(4), bit(5));
    let consistent = e == ((a & b) ^ (c & d) ^ f);
    let s = dotv(&u_of(a, c, e), &v_of(b, d, f));
    let half = Fp61BitPrime::MINUS_ONE_HALF;
    let cj = json!({"a": a, "b": b, "c": c, "d": d, "e": e, "f": f});
    if consistent && s != half {
        return Err(violation("table-identity", format!("consistent multiplication gives sum u.v = {s:?}, expected -1/2"), cj));
    }
    if !consistent && s == half {
        return Err(violation("table-identity", "inconsistent multiplication still gives sum u.v = -1/2".to_string(), cj));
    }
    if !consistent && s != -half {
        return Err(violation("table-identity", format!("inconsistent multiplication gives {s:?}, expected +1/2"), cj));
    }
    Ok(CaseOk::new(true, &i, cj).label(if consistent { "consistent" } else { "inconsistent" }))
}

// (b) ---------------------------------------------------------------------------------------

/// per-bit reference of the three conversion functions, as table VALUES
fn ref_values(b: &MultiplicationInputsBlock) -> (Vec<(UV, UV)>, Vec<UV>, Vec<UV>) {
    let mut prover = vec![];
    let mut from_right = vec![];
    let mut from_left = vec![];
    for i in 0..256 {
        let (xl, xr, yl, yr, pl, pr, zr) = (b.x_left[i], b.x_right[i], b.y_left[i], b.y_right[i], b.prss_left[i], b.prss_right[i], b.z_right[i]);
        // prover: (a,b,c,d,f) = (x_left, y_right, y_left, x_right, prss_right), e = ab ^ cd ^ f
        let e = (xl & yr) ^ (yl & xr) ^ pr;
        prover.push((u_of(xl, yl, e), v_of(yr, xr, pr)));
        // verifier for the prover on its right: (a,c,e) = (x_right, y_right, x_right*y_right ^ z_right ^ prss_right)
        from_right.push(u_of(xr, yr, (xr & yr) ^ zr ^ pr));
        // verifier for the prover on its left: (b,d,f) = (y_left, x_left, prss_left)
        from_left.push(v_of(yl, xl, pl));
    }
    (prover, from_right, from_left)
}

/// the table values the code looks up for a block: (prover u, prover v), u from the right prover, v from the left prover
fn code_values(b: &MultiplicationInputsBlock) -> (Vec<(UV, UV)>, Vec<UV>, Vec<UV>) {
    (
        b.table_indices_prover().into_iter().map(|(iu, iv)| (TABLE_U[iu], TABLE_V[iv])).collect(),
        b.table_indices_from_right_prover().into_iter().map(|iu| TABLE_U[iu]).collect(),
        b.table_indices_from_left_prover().into_iter().map(|iv| TABLE_V[iv]).collect(),
    )
}

fn check_block(b: &MultiplicationInputsBlock, cj: serde_json::Value) -> Result<(), CaseErr> {
    let (p, r, l) = ref_values(b);
    let (cp, cr, cl) = code_values(b);
    if cp != p {
        return Err(violation("block-indices:prover", "the table values selected by table_indices_prover differ from the per-bit reference", cj));
    }
    if cr != r {
        return Err(violation("block-indices:from-right", "the table values selected by table_indices_from_right_prover differ from the per-bit reference", cj));
    }
    if cl != l {
        return Err(violation("block-indices:from-left", "the table values selected by table_indices_from_left_prover differ from the per-bit reference", cj));
    }
    Ok(())
}

/// one position populated, all 128 values of the seven intermediates at that position
fn block_positions(_env: &Env, src: &mut Src<'_>) -> CaseResult {
    let pos = (src.raw() % 256) as usize;
    for combo in 0u32..128 {
        let bit = |k: u32| (combo >> k) & 1 == 1;
        let one = |on: bool| arr_from(|i| on && i == pos);
        let b = MultiplicationInputsBlock {
            x_left: one(bit(0)),
            x_right: one(bit(1)),
            y_left: one(bit(2)),
            y_right: one(bit(3)),
            prss_left: one(bit(4)),
            prss_right: one(bit(5)),
            z_right: one(bit(6)),
        };
        check_block(&b, json!({"position": pos, "combo": combo}))?;
    }
    Ok(CaseOk::new(true, &pos, json!({"position": pos, "combos": 128})))
}

struct Party {
    x: (A256, A256),
    y: (A256, A256),
    prss: (A256, A256),
    z_left: A256,
    z_right: A256,
}

/// consistent three-party view of 256 bit multiplications, from generated shares and masks
fn three_parties(src: &mut Src<'_>) -> [Party; 3] {
    let rnd = |src: &mut Src<'_>| {
        let bytes = src.bytes(32);
        let mode = bytes[0] % 8;
        arr_from(|i| match mode {
            0 => false,
            1 => true,
            _ => (bytes[i / 8] >> (i % 8)) & 1 == 1,
        })
    };
    let xs: [A256; 3] = std::array::from_fn(|_| rnd(src));
    let ys: [A256; 3] = std::array::from_fn(|_| rnd(src));
    let ps: [A256; 3] = std::array::from_fn(|_| rnd(src)); // prss between i and i+1 is ps[i]: right of i, left of i+1
    // helper i holds (x_i, x_{i+1}); prss_left = ps[i-1], prss_right = ps[i]
    let mut zl: Vec<A256> = vec![];
    for i in 0..3 {
        let (xl, xr, yl, yr) = (xs[i], xs[(i + 1) % 3], ys[i], ys[(i + 1) % 3]);
        let (pl, pr) = (ps[(i + 2) % 3], ps[i]);
        zl.push((xl & yl) ^ (xl & yr) ^ (xr & yl) ^ pl ^ pr);
    }
    std::array::from_fn(|i| Party {
        x: (xs[i], xs[(i + 1) % 3]),
        y: (ys[i], ys[(i + 1) % 3]),
        prss: (ps[(i + 2) % 3], ps[i]),
        z_left: zl[i],
        z_right: zl[(i + 1) % 3],
    })
}

fn block_of(p: &Party) -> MultiplicationInputsBlock {
    MultiplicationInputsBlock { x_left: p.x.0, x_right: p.x.1, y_left: p.y.0, y_right: p.y.1, prss_left: p.prss.0, prss_right: p.prss.1, z_right: p.z_right }
}

const ENTRY_NAMES: [&str; 7] = ["x_left", "x_right", "y_left", "y_right", "prss_left", "prss_right", "z_right"];

fn flip(b: &mut MultiplicationInputsBlock, entry: usize, pos: usize) {
    let a = match entry {
        0 => &mut b.x_left,
        1 => &mut b.x_right,
        2 => &mut b.y_left,
        3 => &mut b.y_right,
        4 => &mut b.prss_left,
        5 => &mut b.prss_right,
        _ => &mut b.z_right,
    };
    let v = a[pos];
    a.set(pos, !v);
}

/// Model-level "iff": for every prover P, u-indices of P equal those of its left verifier,
/// v-indices equal those of its right verifier, and every position sums to -1/2; after flipping
/// one recorded bit on one helper, some (prover, position) no longer does.
fn three_party_consistency(_env: &Env, src: &mut Src<'_>) -> CaseResult {
    let parties = three_parties(src);
    let mut blocks: Vec<MultiplicationInputsBlock> = parties.iter().map(block_of).collect();
    // the product is a sharing of x*y
    let x = parties[0].x.0 ^ parties[1].x.0 ^ parties[2].x.0;
    let y = parties[0].y.0 ^ parties[1].y.0 ^ parties[2].y.0;
    let z = parties[0].z_left ^ parties[1].z_left ^ parties[2].z_left;
    if z != (x & y) {
        return Err(violation("harness-model", "reference multiplication is wrong", json!({})));
    }
    let half = Fp61BitPrime::MINUS_ONE_HALF;
    let verdict = |blocks: &[MultiplicationInputsBlock]| -> Option<(usize, usize)> {
        for p in 0..3 {
            let (l, r) = ((p + 2) % 3, (p + 1) % 3);
            let (pv, _, _) = code_values(&blocks[p]);
            let (_, lv, _) = code_values(&blocks[l]);
            let (_, _, rv) = code_values(&blocks[r]);
            for i in 0..256 {
                // the proof shows sum over positions of u(P or L) . v(P or R) = -m/2; a position
                // where verifier views differ from the prover's, or where the sum is not -1/2, fails
                if pv[i].0 != lv[i] || pv[i].1 != rv[i] || dotv(&lv[i], &rv[i]) != half {
                    return Some((p, i));
                }
            }
        }
        None
    };
    for b in &blocks {
        check_block(b, json!({"dense": true}))?;
    }
    if let Some((p, i)) = verdict(&blocks) {
        return Err(violation("honest-inconsistent", format!("honest three-party multiplication is not accepted by the table relation (prover {p}, position {i})"), json!({})));
    }
    let (h, entry, pos) = (src.idx(3), src.idx(7), src.idx(256));
    flip(&mut blocks[h], entry, pos);
    let cj = json!({"helper": h, "entry": ENTRY_NAMES[entry], "position": pos});
    match verdict(&blocks) {
        None => Err(violation(format!("flip-accepted:{}", ENTRY_NAMES[entry]), format!("flipping bit {pos} of {} on helper {h} leaves every table relation satisfied", ENTRY_NAMES[entry]), cj)),
        Some((_, i)) if i != pos => Err(violation("flip-wrong-position", format!("flip at {pos} detected at position {i}"), cj)),
        Some(_) => Ok(CaseOk::new(true, &(h, entry, pos, src.raw()), cj).label(format!("entry:{}", ENTRY_NAMES[entry]))),
    }
}

// (c) ---------------------------------------------------------------------------------------

#[derive(Clone, Debug)]
enum Mode {
    /// `validate()` once, all multiplications in one proof
    Single,
    /// `validate_record` through `validated_seq_join`, records per batch (power of two)
    Batched(usize),
}

#[derive(Clone, Debug)]
struct Plan {
    n: usize, // segment width
    m: usize, // records
    steps: usize,
    mode: Mode,
    seed: u64,
}

#[derive(Clone, Debug)]
struct RecFault {
    helper: usize,
    record: usize,
    step: usize,
    entry: usize,
    bit: usize,
}

type Arr<const N: usize> = <Boolean as Vectorizable<N>>::Array;

fn flip_arr<const N: usize>(a: &Arr<N>, bit: usize) -> Arr<N>
where
    Boolean: Vectorizable<N>,
{
    let v: Vec<Boolean> = a.clone().into_iter().collect();
    Arr::<N>::from_fn(|i| if i == bit { !v[i] } else { v[i] })
}

/// same as `zkp_multiply` (PRSS masks, cross terms, exchange, push), optionally recording one
/// flipped bit
async fn multiply_rec<const N: usize>(
    ctx: DZKPUpgradedMaliciousContext<'_, NotSharded>,
    record_id: RecordId,
    a: &Replicated<Boolean, N>,
    b: &Replicated<Boolean, N>,
    fault: Option<(usize, usize)>,
) -> Result<Replicated<Boolean, N>, Error>
where
    Boolean: FieldSimd<N> + DZKPCompatibleField<N>,
{
    let (prss_left, prss_right) = ctx.prss().generate::<(Arr<N>, Arr<N>), _>(record_id);
    let role = ctx.role();
    let z_left = a.left_arr().clone() * b.left_arr() + a.left_arr().clone() * b.right_arr() + a.right_arr().clone() * b.left_arr() + &prss_left - &prss_right;
    ctx.send_channel::<Arr<N>>(role.peer(Direction::Left)).send(record_id, &z_left).await?;
    let z_right: Arr<N> = ctx.recv_channel(role.peer(Direction::Right)).receive(record_id).await?;
    let mut e = [a.left_arr().clone(), a.right_arr().clone(), b.left_arr().clone(), b.right_arr().clone(), prss_left, prss_right, z_right.clone()];
    if let Some((entry, bit)) = fault {
        e[entry] = flip_arr::<N>(&e[entry], bit);
    }
    let seg = Segment::from_entries(
        Boolean::as_segment_entry(&e[0]),
        Boolean::as_segment_entry(&e[1]),
        Boolean::as_segment_entry(&e[2]),
        Boolean::as_segment_entry(&e[3]),
        Boolean::as_segment_entry(&e[4]),
        Boolean::as_segment_entry(&e[5]),
        Boolean::as_segment_entry(&e[6]),
    );
    ctx.push(record_id, seg);
    Ok(Replicated::new_arr(z_left, z_right))
}

async fn helper<const N: usize>(
    ctx: MaliciousContext<'_>,
    h: usize,
    inputs: Vec<(Replicated<Boolean, N>, Replicated<Boolean, N>)>,
    plan: &Plan,
    fault: &Option<RecFault>,
) -> Result<Vec<Vec<Replicated<Boolean, N>>>, Error>
where
    Boolean: FieldSimd<N> + DZKPCompatibleField<N>,
{
    let m = inputs.len();
    let fault_for = |rec: usize, step: usize| fault.as_ref().filter(|f| f.helper == h && f.record == rec && f.step == step).map(|f| (f.entry, f.bit));
    let step_names: Vec<String> = (0..plan.steps).map(|s| format!("mulstep{s}")).collect();
    match plan.mode {
        Mode::Single => {
            let v = ctx.set_total_records(TotalRecords::specified(m)?).dzkp_validator(TEST_DZKP_STEPS, m.next_power_of_two()); // callers pass a power of two (or usize::MAX): active_work is derived from it
            let mctx = v.context();
            let futs = inputs.iter().enumerate().map(|(i, (a, b))| {
                let mctx = mctx.clone();
                let step_names = &step_names;
                async move {
                    let mut outs = vec![];
                    for s in 0..plan.steps {
                        outs.push(multiply_rec::<N>(mctx.narrow(step_names[s].as_str()), RecordId::from(i), a, b, fault_for(i, s)).await?);
                    }
                    Ok::<_, Error>(outs)
                }
            });
            let r = try_join_all(futs).await?;
            v.validate().await?;
            Ok(r)
        }
        Mode::Batched(rpb) => {
            let v = ctx.set_total_records(TotalRecords::specified(m)?).dzkp_validator(TEST_DZKP_STEPS, rpb);
            let mctx = v.context();
            let work = stream::iter(inputs.iter().enumerate()).map(|(i, (a, b))| {
                let mctx = mctx.clone();
                let step_names = &step_names;
                async move {
                    let mut outs = vec![];
                    for s in 0..plan.steps {
                        outs.push(multiply_rec::<N>(mctx.narrow(step_names[s].as_str()), RecordId::from(i), a, b, fault_for(i, s)).await?);
                    }
                    Ok::<_, Error>(outs)
                }
            });
            validated_seq_join(v, work).try_collect().await
        }
    }
}

struct E2eOut {
    results: [Result<(), String>; 3],
    product_ok: bool,
    catalogue: std::collections::BTreeMap<ChannelKey, Vec<usize>>,
    fired: bool,
    timed_out: bool,
}

fn bits_of(seed: u64, m: usize, n: usize, which: u64) -> Vec<Vec<bool>> {
    use rand::{Rng, SeedableRng, rngs::StdRng};
    let mut rng = StdRng::seed_from_u64(seed ^ (which.wrapping_mul(0x9E37_79B9_7F4A_7C15)));
    let mode = rng.gen_range(0..6);
    (0..m)
        .map(|_| {
            (0..n)
                .map(|_| match mode {
                    0 => false,
                    1 => true,
                    _ => rng.r#gen(),
                })
                .collect()
        })
        .collect()
}

async fn run_e2e<const N: usize>(plan: &Plan, fault: &Option<RecFault>, tamper: Option<Tamper>) -> E2eOut
where
    Boolean: FieldSimd<N> + DZKPCompatibleField<N>,
{
    use rand::{Rng, SeedableRng, rngs::StdRng};
    let icpt = Interceptor::new(tamper);
    let mut wc = TestWorldConfig::default();
    wc.seed = plan.seed;
    wc.stream_interceptor = icpt.dynamic();
    wc.timeout = None;
    let world = TestWorld::new_with(&wc);
    let xs = bits_of(plan.seed, plan.m, N, 1);
    let ys = bits_of(plan.seed, plan.m, N, 2);
    let mut rng = StdRng::seed_from_u64(plan.seed ^ 0x55);
    // share every bit vector
    let mut inputs: [Vec<(Replicated<Boolean, N>, Replicated<Boolean, N>)>; 3] = [vec![], vec![], vec![]];
    for r in 0..plan.m {
        let share = |v: &Vec<bool>, rng: &mut StdRng| -> [Replicated<Boolean, N>; 3] {
            let s1: Vec<bool> = (0..N).map(|_| rng.r#gen()).collect();
            let s2: Vec<bool> = (0..N).map(|_| rng.r#gen()).collect();
            let s3: Vec<bool> = (0..N).map(|i| v[i] ^ s1[i] ^ s2[i]).collect();
            let arr = |s: &Vec<bool>| Arr::<N>::from_fn(|i| Boolean::from(s[i]));
            [Replicated::new_arr(arr(&s1), arr(&s2)), Replicated::new_arr(arr(&s2), arr(&s3)), Replicated::new_arr(arr(&s3), arr(&s1))]
        };
        let xa = share(&xs[r], &mut rng);
        let ya = share(&ys[r], &mut rng);
        for (h, (x, y)) in xa.into_iter().zip(ya).enumerate() {
            inputs[h].push((x, y));
        }
    }
    let ctxs = world.malicious_contexts();
    let mut futs = futures::stream::FuturesUnordered::new();
    for (h, (ctx, inp)) in ctxs.into_iter().zip(inputs).enumerate() {
        futs.push(async move {
            let _ = take_last_panic();
            let r = std::panic::AssertUnwindSafe(helper::<N>(ctx, h, inp, plan, fault));
            let r = futures::FutureExt::catch_unwind(r).await;
            (h, r)
        });
    }
    let mut results: [Option<Result<Vec<Vec<Replicated<Boolean, N>>>, String>>; 3] = [None, None, None];
    let big = plan.m * N * plan.steps > 1_000_000;
    let deadline = tokio::time::Instant::now() + Duration::from_secs(if big { 1800 } else if fault.is_some() || icpt.tamper.is_some() { 20 } else { 180 });
    let mut timed_out = false;
    loop {
        match tokio::time::timeout_at(deadline, futs.next()).await {
            Ok(Some((h, r))) => {
                let failed = !matches!(r, Ok(Ok(_)));
                results[h] = Some(match r {
                    Ok(Ok(v)) => Ok(v),
                    Ok(Err(e)) => Err(format!("{e:?}")),
                    Err(p) => Err(format!("panic: {}", panic_message(&p))),
                });
                // after the first failure the remaining helpers may wait for the failed one forever
                if failed {
                    break;
                }
            }
            Ok(None) => break,
            Err(_) => {
                timed_out = true;
                break;
            }
        }
    }
    let _ = catch(move || drop(futs));
    // product check (only meaningful when all three returned Ok)
    let mut product_ok = true;
    if results.iter().all(|r| matches!(r, Some(Ok(_)))) {
        let outs: Vec<&Vec<Vec<Replicated<Boolean, N>>>> = results.iter().map(|r| r.as_ref().unwrap().as_ref().unwrap()).collect();
        'o: for r in 0..plan.m {
            for s in 0..plan.steps {
                let l: Vec<Vec<Boolean>> = (0..3).map(|h| outs[h][r][s].left_arr().clone().into_iter().collect()).collect();
                let rr: Vec<Vec<Boolean>> = (0..3).map(|h| outs[h][r][s].right_arr().clone().into_iter().collect()).collect();
                for i in 0..N {
                    let z = bool::from(l[0][i]) ^ bool::from(l[1][i]) ^ bool::from(l[2][i]);
                    let consistent = rr[0][i] == l[1][i] && rr[1][i] == l[2][i] && rr[2][i] == l[0][i];
                    if z != (xs[r][i] & ys[r][i]) || !consistent {
                        product_ok = false;
                        break 'o;
                    }
                }
            }
        }
    }
    let st = icpt.state.lock().unwrap();
    let res = E2eOut {
        results: std::array::from_fn(|h| match &results[h] {
            Some(Ok(_)) => Ok(()),
            Some(Err(e)) => Err(e.clone()),
            None => Err("pending".into()),
        }),
        product_ok,
        catalogue: st.catalogue.clone(),
        fired: st.fired && st.changed,
        timed_out,
    };
    drop(st);
    let _ = catch(move || drop(world));
    res
}

fn run_plan(plan: &Plan, fault: &Option<RecFault>, tamper: Option<Tamper>) -> E2eOut {
    macro_rules! go {
        ($n:literal) => {
            block_on(run_e2e::<$n>(plan, fault, tamper))
        };
    }
    match plan.n {
        1 => go!(1),
        3 => go!(3),
        5 => go!(5),
        8 => go!(8),
        16 => go!(16),
        20 => go!(20),
        32 => go!(32),
        64 => go!(64),
        _ => go!(256),
    }
}

fn gen_plan(env: &Env, src: &mut Src<'_>) -> (Plan, &'static str) {
    let mut n = src.pick(&[1usize, 3, 5, 8, 16, 20, 32, 64, 256]);
    let steps = src.urange(1, 3);
    // number of records chosen so that the number of bit multiplications per proof batch hits the
    // block (256) and recursion boundaries. Recursion: every proof (first and compressed) has
    // recursion factor 4 and the last level must leave room for the masks, so a batch of M
    // multiplications (padded to a multiple of 256) needs one more proof whenever M exceeds
    // 3*4^k; TARGET_PROOF_SIZE = 8192 in test builds bounds the batch in validate_record mode.
    let sel = src.below(14);
    if sel >= 12 {
        n = src.pick(&[64usize, 256]);
    }
    let per_rec = n * steps;
    let target_bits = match sel {
        12 => 3 * 4usize.pow(src.range(4, 7) as u32),
        13 => 3 * 4usize.pow(src.range(4, 7) as u32) + src.pick(&[1usize, 256, 257]),
        0 => 1,
        1 => 255,
        2 => 256,
        3 => 257,
        4 => 1 << src.range(1, 13),
        5 => (1usize << src.range(2, 13)) + 1,
        6 => (1usize << src.range(2, 13)) - 1,
        7 => 32 * 8usize.pow(src.range(1, 3) as u32),
        8 => 32 * 8usize.pow(src.range(1, 3) as u32) + 1,
        9 => 8192 + src.urange(0, 8192),
        _ => src.urange(1, if env.thorough() { 16384 } else { 6000 }),
    };
    let mut m = (target_bits / per_rec).max(1);
    if src.bool() && target_bits % per_rec != 0 {
        m += 1;
    }
    // individually scheduled bit multiplications are slow; bound the record count
    let m = m.min(if env.thorough() { 4096 } else { 1200 });
    let (mode, ml) = if src.bool() {
        (Mode::Single, "single-shot")
    } else {
        (Mode::Batched(1 << src.range(0, 7)), "validate-record")
    };
    (Plan { n, m, steps, mode, seed: src.seed() }, ml)
}

fn is_dzkp_rejection(e: &str) -> bool {
    e.contains("DZKPValidationFailed") || e.contains("ParallelDZKPValidationFailed")
}

pub fn e2e(env: &Env, src: &mut Src<'_>) -> CaseResult {
    let (plan, ml) = gen_plan(env, src);
    let pj = json!({"n": plan.n, "m": plan.m, "steps": plan.steps, "mode": format!("{:?}", plan.mode), "seed": plan.seed.to_string()});
    let mut labels = vec![format!("width:{}", plan.n), format!("steps:{}", plan.steps), ml.to_string()];
    let bits = plan.n * plan.m * plan.steps;
    labels.push(format!("bits:{}", match bits { 0..=255 => "<256", 256 => "=256", 257..=8191 => "257..8191", 8192 => "=8192", _ => ">8192" }));
    // honest run
    let honest = run_plan(&plan, &None, None);
    if honest.timed_out {
        return Ok(CaseOk::new(false, &0u8, serde_json::Value::Null).label("inconclusive:timeout"));
    }
    for (h, r) in honest.results.iter().enumerate() {
        if let Err(e) = r {
            return Err(violation("honest-rejected", format!("helper {h} did not accept an honest batch: {e}"), pj));
        }
    }
    if !honest.product_ok {
        return Err(violation("honest-wrong-product", "honest batch accepted but the product is wrong or inconsistently shared".to_string(), pj));
    }
    // one fault
    let transmitted = src.bool();
    let (fj, out, deviating) = if transmitted {
        // a `z` message of one multiply step sent by helper P
        let p = src.idx(3);
        let chans: Vec<(&ChannelKey, &Vec<usize>)> = honest.catalogue.iter().filter(|(k, _)| k.source == p && k.gate.contains("/mulstep")).collect();
        if chans.is_empty() {
            return Err(violation("harness-no-channel", "no multiply channel recorded".to_string(), pj));
        }
        let (key, chunks) = chans[src.idx(chans.len())];
        let ordinal = src.idx(chunks.len());
        let len = chunks[ordinal];
        // flip a bit that lies inside a populated element: elements are ceil(n/8) bytes each
        let elem_bytes = plan.n.div_ceil(8);
        let elems = len / elem_bytes;
        let el = src.idx(elems.max(1));
        let bit_in = src.idx(plan.n);
        let byte = el * elem_bytes + bit_in / 8;
        let t = Tamper { key: key.clone(), ordinal, edit: Edit::BitFlip { byte, bit: (bit_in % 8) as u8 } };
        // a prover that lies consistently: it also records one of its own PRSS masks with the
        // same bit flipped, so that its own view explains the product share it sent (the
        // verifiers derive that mask themselves and must still reject)
        let consistent = src.below(3) == 0;
        let own = if consistent {
            let record = chunks[..ordinal].iter().sum::<usize>() / elem_bytes + el;
            let step = key.gate.rsplit("mulstep").next().and_then(|d| d.parse::<usize>().ok()).unwrap_or(0);
            Some(RecFault { helper: p, record: record.min(plan.m - 1), step: step.min(plan.steps - 1), entry: 4 + src.idx(2), bit: bit_in })
        } else {
            None
        };
        let fj = json!({"kind": if consistent { "transmitted+own-record" } else { "transmitted" }, "from": p, "gate": key.gate, "ordinal": ordinal, "byte": byte, "bit": bit_in % 8,
                        "own_record": own.as_ref().map(|f| json!({"record": f.record, "step": f.step, "entry": ENTRY_NAMES[f.entry], "bit": f.bit}))});
        labels.push(if consistent { "fault:transmitted+own-record".into() } else { "fault:transmitted".into() });
        (fj, run_plan(&plan, &own, Some(t)), p)
    } else {
        let f = RecFault { helper: src.idx(3), record: src.idx(plan.m), step: src.idx(plan.steps), entry: src.idx(7), bit: src.idx(plan.n) };
        let fj = json!({"kind": "recorded", "helper": f.helper, "record": f.record, "step": f.step, "entry": ENTRY_NAMES[f.entry], "bit": f.bit});
        labels.push(format!("fault:recorded:{}", ENTRY_NAMES[f.entry]));
        let h = f.helper;
        (fj, run_plan(&plan, &Some(f), None), h)
    };
    let cj = json!({"plan": pj, "fault": fj});
    if transmitted && !out.fired {
        return Ok(CaseOk::new(false, &0u8, serde_json::Value::Null).label("edit-not-fired"));
    }
    let rejected: Vec<usize> = (0..3).filter(|h| out.results[*h].as_ref().err().is_some_and(|e| is_dzkp_rejection(e))).collect();
    if rejected.is_empty() {
        let all_ok = out.results.iter().all(Result::is_ok);
        let what = if all_ok { "accepted by all three helpers".to_string() } else { format!("not rejected by the proof check: {:?}", out.results) };
        let kind = if transmitted { fj["kind"].as_str().unwrap_or("transmitted").to_string() } else { format!("recorded:{}", fj["entry"].as_str().unwrap_or("")) };
        if all_ok || !out.timed_out {
            return Err(violation(format!("altered-batch-accepted:{kind}"), format!("batch with one flipped {kind} bit was {what}"), cj));
        }
        return Ok(CaseOk::new(false, &0u8, serde_json::Value::Null).label("inconclusive:timeout-after-fault"));
    }
    for h in &rejected {
        labels.push(format!("rejected-by:{}", match (*h + 3 - deviating) % 3 { 0 => "deviating-party", 1 => "right-of-deviating", _ => "left-of-deviating" }));
    }
    Ok(CaseOk { nontrivial: true, digest: digest(&(plan.n, plan.m, plan.steps, format!("{:?}", plan.mode), fj.to_string())), labels, sample: cj })
}

// ---------------------------------------------------------------------------------------------
// (d) synthetic batches: every three-party assignment of the intermediates, filled uniformly
// ---------------------------------------------------------------------------------------------

/// helper h's seven recorded bits for the three-party assignment `a` (bits 0..2 = x shares,
/// 3..5 = y shares, 6..8 = PRSS masks; helper h holds share h as its left and share h+1 as its
/// right value; its left mask is mask h, its right mask is mask h+1)
fn synth_entries(a: u16, h: usize) -> [bool; 7] {
    let bit = |k: usize| (a >> k) & 1 == 1;
    let (x, y, p) = (|i: usize| bit(i % 3), |i: usize| bit(3 + i % 3), |i: usize| bit(6 + i % 3));
    let z_left = |i: usize| (x(i) & y(i)) ^ (x(i) & y(i + 1)) ^ (x(i + 1) & y(i)) ^ p(i) ^ p(i + 1);
    [x(h), x(h + 1), y(h), y(h + 1), p(h), p(h + 1), z_left(h + 1)]
}

async fn synth_helper<const N: usize>(ctx: MaliciousContext<'_>, h: usize, m: usize, assign: &(dyn Fn(usize) -> u16 + Sync), fault: Option<(usize, usize, usize, usize)>) -> Result<(), Error>
where
    Boolean: FieldSimd<N> + DZKPCompatibleField<N>,
{
    let v = ctx.set_total_records(TotalRecords::specified(m)?).dzkp_validator(TEST_DZKP_STEPS, m.next_power_of_two());
    let mctx = v.context().narrow("synth");
    for i in 0..m {
        let bits = synth_entries(assign(i), h);
        let mut e: Vec<Arr<N>> = bits.iter().map(|b| Arr::<N>::from_fn(|_| Boolean::from(*b))).collect();
        if let Some((fh, fr, fe, fb)) = fault {
            if fh == h && fr == i {
                e[fe] = flip_arr::<N>(&e[fe], fb % N);
            }
        }
        let seg = Segment::from_entries(
            Boolean::as_segment_entry(&e[0]),
            Boolean::as_segment_entry(&e[1]),
            Boolean::as_segment_entry(&e[2]),
            Boolean::as_segment_entry(&e[3]),
            Boolean::as_segment_entry(&e[4]),
            Boolean::as_segment_entry(&e[5]),
            Boolean::as_segment_entry(&e[6]),
        );
        mctx.push(RecordId::from(i), seg);
    }
    v.validate().await
}

fn run_synth<const N: usize>(seed: u64, m: usize, assign: &(dyn Fn(usize) -> u16 + Sync), fault: Option<(usize, usize, usize, usize)>) -> [Result<(), String>; 3]
where
    Boolean: FieldSimd<N> + DZKPCompatibleField<N>,
{
    block_on(async {
        let mut wc = TestWorldConfig::default();
        wc.seed = seed;
        wc.timeout = None;
        let world = TestWorld::new_with(&wc);
        let ctxs = world.malicious_contexts();
        let mut futs = futures::stream::FuturesUnordered::new();
        for (h, ctx) in ctxs.into_iter().enumerate() {
            futs.push(async move {
                let _ = take_last_panic();
                let r = futures::FutureExt::catch_unwind(std::panic::AssertUnwindSafe(synth_helper::<N>(ctx, h, m, assign, fault))).await;
                (h, r)
            });
        }
        let mut res: [Result<(), String>; 3] = [Err("pending".into()), Err("pending".into()), Err("pending".into())];
        let deadline = tokio::time::Instant::now() + Duration::from_secs(60);
        loop {
            match tokio::time::timeout_at(deadline, futs.next()).await {
                Ok(Some((h, r))) => {
                    let failed = !matches!(r, Ok(Ok(())));
                    res[h] = match r {
                        Ok(Ok(())) => Ok(()),
                        Ok(Err(e)) => Err(format!("{e:?}")),
                        Err(p) => {
                            let msg = panic_message(&p);
                            let at = take_last_panic().map(|(l, _)| strip_repo_prefix(&l)).unwrap_or_default();
                            Err(format!("panic at {at}: {msg}"))
                        }
                    };
                    if failed {
                        break;
                    }
                }
                Ok(None) => break,
                Err(_) => break,
            }
        }
        let _ = catch(move || drop(futs));
        let _ = catch(move || drop(world));
        res
    })
}

/// case i: three-party assignment i % 512 of (x shares, y shares, masks); the batch is filled with
/// it uniformly (shape 0), or in runs that alternate with a second assignment (shapes 1, 2);
/// width and record count rotate with the index. Honest batch must validate; with one flipped
/// recorded bit it must be rejected.
pub fn synthetic(_env: &Env, src: &mut Src<'_>) -> CaseResult {
    let i = src.raw() as usize;
    let a = (i % 512) as u16;
    let shape = (i / 512) % 3;
    let b = ((i * 167 + 91) % 512) as u16;
    let (n, m) = [(256usize, 1usize), (256, 2), (256, 3), (256, 9), (64, 5), (64, 130), (8, 70), (256, 33)][(i / 3) % 8];
    let run = [0usize, 65, 7][shape];
    let assign = move |r: usize| if run == 0 || (r * n / run) % 2 == 0 { a } else { b };
    let pj = json!({"assignment": format!("{a:09b}"), "second_assignment": if run == 0 { None } else { Some(format!("{b:09b}")) }, "run_length_in_multiplications": run, "width": n, "records": m});
    macro_rules! go {
        ($f:expr) => {
            match n {
                8 => run_synth::<8>(i as u64, m, &assign, $f),
                64 => run_synth::<64>(i as u64, m, &assign, $f),
                _ => run_synth::<256>(i as u64, m, &assign, $f),
            }
        };
    }
    let honest = go!(None);
    // the run stops at the first failing helper: report that one, not the helpers still pending
    let mut failing: Vec<(usize, &Result<(), String>)> = honest.iter().enumerate().filter(|(_, r)| r.as_ref().err().is_some_and(|e| e != "pending")).collect();
    if failing.is_empty() {
        failing = honest.iter().enumerate().filter(|(_, r)| r.is_err()).collect();
    }
    for (h, r) in failing {
        if let Err(e) = r {
            let sig = if e.starts_with("panic") { format!("honest-synthetic-panic:{}", e.split(':').next().unwrap_or("").replace("panic at ", "")) } else { "honest-synthetic-rejected".to_string() };
            return Err(violation(sig, format!("helper {h} did not accept a consistent batch filled with one assignment: {e}").chars().take(400).collect::<String>(), pj));
        }
    }
    // one flipped recorded bit
    let f = ((i / 7) % 3, (i / 5) % m, (i / 11) % 7, (i * 37) % n);
    let fj = json!({"helper": f.0, "record": f.1, "entry": ENTRY_NAMES[f.2], "bit": f.3});
    let out = go!(Some(f));
    let rejected = out.iter().any(|r| r.as_ref().err().is_some_and(|e| is_dzkp_rejection(e)));
    if !rejected {
        return Err(violation(format!("altered-batch-accepted:synthetic:{}", ENTRY_NAMES[f.2]), format!("synthetic batch with one flipped recorded bit was not rejected by the proof check: {out:?}").chars().take(400).collect::<String>(), json!({"plan": pj, "fault": fj})));
    }
    Ok(CaseOk { nontrivial: true, digest: digest(&(i, "synthetic")), labels: vec![format!("shape:{}", ["uniform", "runs-of-65", "runs-of-7"][shape]), format!("width:{n}"), format!("records:{m}")], sample: json!({"plan": pj, "fault": fj}) })
}

/// Batch sizes (bit multiplications in ONE proof, width-256 vectors, single-shot validation) at
/// and just above the last five recursion thresholds 3*4^k, k = 7..11. The last entry is the
/// smallest batch whose proof uses all MAX_PROOF_RECURSION = 14 levels; production batches
/// (TARGET_PROOF_SIZE = 50M) sit in that range, test builds (8192) never get there by themselves.
const DEEP_TARGETS: [usize; 10] = [49_152, 49_408, 196_608, 196_864, 786_432, 786_688, 3_145_728, 3_145_984, 12_582_912, 12_583_168];

fn proofs_for(mults: usize) -> usize {
    // proofs in a batch of `mults` multiplications (multiple of 256): first proof, compressed
    // proofs while more than 3 values are left, final masked proof (16,384 -> 9, 12,583,168 -> 14)
    let mut len = mults;
    let mut proofs = 1;
    while len > 3 {
        len = len.div_ceil(4);
        proofs += 1;
    }
    proofs + 1
}

/// case i: target = DEEP_TARGETS[(i / 2) % 10]; even i = honest batch (must be accepted with the
/// right product), odd i = one recorded intermediate with one flipped bit (must be rejected);
/// i / 20 varies the location of the fault.
pub fn deep(_env: &Env, src: &mut Src<'_>) -> CaseResult {
    let i = src.raw() as usize;
    let target = DEEP_TARGETS[(i / 2) % DEEP_TARGETS.len()];
    let faulty = i % 2 == 1;
    let var = i / (2 * DEEP_TARGETS.len());
    let m = target / 256;
    let plan = Plan { n: 256, m, steps: 1, mode: Mode::Single, seed: 0xD33F_0000 + i as u64 };
    let depth = proofs_for(target);
    let pj = json!({"n": 256, "m": m, "steps": 1, "mode": "Single", "bit_multiplications": target, "proofs": depth});
    let labels = vec![format!("proofs:{depth}"), if faulty { "deep:fault".to_string() } else { "deep:honest".to_string() }];
    if !faulty {
        let honest = run_plan(&plan, &None, None);
        if honest.timed_out {
            return Ok(CaseOk::new(false, &0u8, serde_json::Value::Null).label("inconclusive:timeout"));
        }
        for (h, r) in honest.results.iter().enumerate() {
            if let Err(e) = r {
                return Err(violation("honest-rejected", format!("helper {h} did not accept an honest batch: {e}"), pj));
            }
        }
        if !honest.product_ok {
            return Err(violation("honest-wrong-product", "honest batch accepted but the product is wrong or inconsistently shared".to_string(), pj));
        }
        return Ok(CaseOk { nontrivial: true, digest: digest(&(i, "deep")), labels, sample: pj });
    }
    // location of the fault: a splitmix of the case index; the first variations pin the first
    // and the last record (= last block of the batch)
    let mut z = (i as u64).wrapping_add(0x9E37_79B9_7F4A_7C15).wrapping_mul(0xBF58_476D_1CE4_E5B9);
    z ^= z >> 29;
    z = z.wrapping_mul(0x94D0_49BB_1331_11EB);
    z ^= z >> 32;
    let record = match var {
        0 => m - 1,
        1 => 0,
        _ => (z >> 20) as usize % m,
    };
    let f = RecFault { helper: (z % 3) as usize, record, step: 0, entry: ((z >> 4) % 7) as usize, bit: ((z >> 8) % 256) as usize };
    let fj = json!({"kind": "recorded", "helper": f.helper, "record": f.record, "step": 0, "entry": ENTRY_NAMES[f.entry], "bit": f.bit});
    let kind = format!("recorded:{}", ENTRY_NAMES[f.entry]);
    let out = run_plan(&plan, &Some(f), None);
    let cj = json!({"plan": pj, "fault": fj});
    let rejected = (0..3).any(|h| out.results[h].as_ref().err().is_some_and(|e| is_dzkp_rejection(e)));
    if !rejected {
        let all_ok = out.results.iter().all(Result::is_ok);
        if all_ok || !out.timed_out {
            let what = if all_ok { "accepted by all three helpers".to_string() } else { format!("not rejected by the proof check: {:?}", out.results) };
            return Err(violation(format!("altered-batch-accepted:deep:{kind}"), format!("batch of {target} multiplications ({depth} proofs) with one flipped {kind} bit was {what}"), cj));
        }
        return Ok(CaseOk::new(false, &0u8, serde_json::Value::Null).label("inconclusive:timeout-after-fault"));
    }
    Ok(CaseOk { nontrivial: true, digest: digest(&(i, "deep")), labels, sample: cj })
}

pub fn subs(_env: &Env) -> Vec<Sub> {
    vec![
        Sub::exhaustive("table_identity", 64, 64, table_identity,
            "all 64 values of (a,b,c,d,e,f): the u-vector the code selects for (a,c,e) and the v-vector it selects for (b,d,f) (through its own conversion of a one-position block and its own table lookup - the index encoding is not part of the oracle) satisfy sum_i u_i*v_i = -1/2 iff e = ab^cd^f, and +1/2 otherwise"),
        Sub::exhaustive("block_positions", 256, 256, block_positions,
            "every position of a 256-bit storage block populated alone with all 128 values of the seven intermediates: the table values selected by the three bulk conversions equal the per-bit reference"),
        Sub::random("three_party_consistency", 300, 3000, 100_000, three_party_consistency,
            "dense generated three-party views of 256 multiplications (all-zero / all-one / random shares and masks): conversions select the per-bit reference values; the prover's u / v values equal the left verifier's u and the right verifier's v and every position sums to -1/2; after flipping one generated (helper, entry, position) bit some table relation fails at exactly that position; distinct by the flipped (helper, entry, position)"),
        Sub::random("e2e", 40, 3000, 60_000, e2e,
            "TestWorld malicious contexts, Boolean vectors of width {1,3,5,8,16,20,32,64,256}, 1-3 steps per batch, record counts chosen so the bit-multiplication count hits 1, 255/256/257, 2^k, 2^k+-1, 32*8^j(+1), the recursion thresholds 3*4^k (+1, +256, +257) for k=4..6, >8192 (TARGET_PROOF_SIZE=8192 in test builds) or random; single-shot validate() or validate_record via validated_seq_join with 2^0..2^7 records per batch. Honest run must be accepted by all helpers with the right product; then one fault - a flipped bit of one transmitted z message (interceptor), optionally together with the same bit of the sender's own recorded PRSS mask (a prover whose own view explains its lie), or a flipped bit of one recorded intermediate (x/y/prss/z entry pushed with a flipped bit) - must make at least one helper return DZKPValidationFailed/ParallelDZKPValidationFailed; non-trivial = fault applied inside the populated part")
        .shrink_iters(12),
        Sub::exhaustive("synthetic", 1536, 1536, synthetic,
            "batches assembled directly from recorded intermediates (no communication): each of the 512 three-party assignments of (x shares, y shares, PRSS masks) with the product shares they imply, filled uniformly over the batch, or in runs of 65 / 7 multiplications alternating with a second assignment; widths {8,64,256} x 1..130 records; the consistent batch must validate on all helpers (extreme, non-random table inputs to the proof arithmetic), and with one flipped recorded bit some helper must reject"),
        Sub::exhaustive("deep", 20, 100, deep,
            "single-shot batches of width-256 multiplications at and one block above the recursion thresholds 3*4^k, k=7..11 (49,152 .. 12,583,168 bit multiplications; 10..14 proofs, 14 = MAX_PROOF_RECURSION, the depth production batches use): even cases are honest (accepted, right product), odd cases record one intermediate with one flipped bit (last record, first record, or a derived position) and must be rejected by some helper")
        .block(1)
        .streams(6),
    ]
}
