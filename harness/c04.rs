// C04 - MAC-checked arithmetic and openings detect any additive deviation.
//
// upgrade -> multiply -> validate_record -> reveal under the MAC validator, n records over
// several MAC batches (batch = active work), one additive error injected by the interceptor into
// one message of one helper.

use std::{
    num::NonZeroUsize,
    sync::atomic::{AtomicU64, Ordering},
    time::Duration,
};

use futures::StreamExt;
use generic_array::GenericArray;
use rand::{Rng, RngCore, SeedableRng, rngs::StdRng};
use serde_json::json;

use super::{common::*, mpc::*};
use crate::{
    error::Error,
    ff::{Field, Fp31, Fp32BitPrime, Serializable, U128Conversions, ec_prime_field::Fp25519},
    helpers::TotalRecords,
    protocol::{
        RecordId,
        basics::{SecureMul, reveal},
        context::{Context, MaliciousContext, UpgradableContext, UpgradedContext, Validator, upgrade::Upgradable},
    },
    secret_sharing::{
        IntoShares,
        replicated::{malicious::ExtendableField, semi_honest::AdditiveShare as Replicated},
    },
    seq_join::SeqJoin,
    test_fixture::{TestWorld, TestWorldConfig},
};

pub const LEVEL: &str = "fault_enumeration";

static FP31_ATTACKED: AtomicU64 = AtomicU64::new(0);
static FP31_UNDETECTED: AtomicU64 = AtomicU64::new(0);

pub trait MacField: ExtendableField<ExtendedField = Self> + Serializable + IntoShares<Replicated<Self>> {
    const TNAME: &'static str;
    const ELEM: usize;
    const MODULUS: Option<u128>;
    fn genv(rng: &mut StdRng, class: u64) -> Self;
}
impl MacField for Fp31 {
    const TNAME: &'static str = "Fp31";
    const ELEM: usize = 1;
    const MODULUS: Option<u128> = Some(31);
    fn genv(rng: &mut StdRng, class: u64) -> Self {
        match class {
            0 => Fp31::truncate_from(0u128),
            1 => Fp31::truncate_from(1u128),
            2 => Fp31::truncate_from(30u128),
            _ => Fp31::truncate_from(rng.r#gen::<u128>()),
        }
    }
}
impl MacField for Fp32BitPrime {
    const TNAME: &'static str = "Fp32BitPrime";
    const ELEM: usize = 4;
    const MODULUS: Option<u128> = Some(4_294_967_291);
    fn genv(rng: &mut StdRng, class: u64) -> Self {
        match class {
            0 => Fp32BitPrime::truncate_from(0u128),
            1 => Fp32BitPrime::truncate_from(1u128),
            2 => Fp32BitPrime::truncate_from(4_294_967_290u128),
            _ => Fp32BitPrime::truncate_from(rng.r#gen::<u128>()),
        }
    }
}
impl MacField for Fp25519 {
    const TNAME: &'static str = "Fp25519";
    const ELEM: usize = 32;
    const MODULUS: Option<u128> = None;
    fn genv(rng: &mut StdRng, class: u64) -> Self {
        let mut b = [0u8; 32];
        match class {
            0 => {}
            1 => b[0] = 1,
            _ => rng.fill_bytes(&mut b),
        }
        Fp25519::deserialize_infallible(&GenericArray::from(b))
    }
}

async fn helper<F: MacField>(ctx: MaliciousContext<'_>, inputs: Vec<(Replicated<F>, Replicated<F>)>) -> Result<Vec<F>, Error>
where
    Replicated<F>: crate::protocol::prss::FromPrss,
{
    let n = inputs.len();
    let ctx = ctx.set_total_records(TotalRecords::specified(n)?);
    let v = ctx.validator::<F>();
    let m = v.context();
    let futs = inputs.into_iter().enumerate().map(|(i, (a, b))| {
        let m = m.clone();
        async move {
            let rid = RecordId::from(i);
            let (a, b) = (a, b).upgrade(m.clone(), rid).await?;
            let c = a.multiply(&b, m.narrow("c04mult"), rid).await?;
            m.validate_record(rid).await?;
            let opened = reveal(m.narrow("c04open"), rid, &c).await?;
            Ok::<_, Error>(F::from_array(&opened))
        }
    });
    let r = m.try_join(futs).await;
    drop(v);
    r
}

struct Out<F> {
    res: [Option<Result<Vec<F>, String>>; 3],
    catalogue: std::collections::BTreeMap<ChannelKey, Vec<usize>>,
    fired: bool,
    timed_out: bool,
}

fn run_world<F: MacField>(seed: u64, active: usize, vals: &[(F, F)], tamper: Option<Tamper>, honest_mask: u8) -> Out<F>
where
    Replicated<F>: crate::protocol::prss::FromPrss,
{
    block_on(async {
        let icpt = Interceptor::new(tamper);
        let mut wc = TestWorldConfig::default();
        wc.seed = seed;
        wc.stream_interceptor = icpt.dynamic();
        wc.timeout = None;
        wc.gateway_config.active = active.try_into().unwrap();
        let world = TestWorld::new_with(&wc);
        let mut rng = StdRng::seed_from_u64(seed ^ 0xabcd);
        let mut inputs: [Vec<(Replicated<F>, Replicated<F>)>; 3] = [vec![], vec![], vec![]];
        for (a, b) in vals {
            let sa: [Replicated<F>; 3] = (*a).share_with(&mut rng);
            let sb: [Replicated<F>; 3] = (*b).share_with(&mut rng);
            for (h, (x, y)) in sa.into_iter().zip(sb).enumerate() {
                inputs[h].push((x, y));
            }
        }
        let ctxs = world.malicious_contexts();
        let mut futs = futures::stream::FuturesUnordered::new();
        for (h, (ctx, inp)) in ctxs.into_iter().zip(inputs).enumerate() {
            futs.push(async move {
                let r = futures::FutureExt::catch_unwind(std::panic::AssertUnwindSafe(helper::<F>(ctx, inp))).await;
                (h, r)
            });
        }
        let mut res: [Option<Result<Vec<F>, String>>; 3] = [None, None, None];
        let deadline = tokio::time::Instant::now() + Duration::from_secs(if icpt.tamper.is_some() { 6 } else { 120 });
        let mut timed_out = false;
        loop {
            match tokio::time::timeout_at(deadline, futs.next()).await {
                Ok(Some((h, r))) => {
                    let failed = !matches!(r, Ok(Ok(_)));
                    res[h] = Some(match r {
                        Ok(Ok(v)) => Ok(v),
                        Ok(Err(e)) => Err(format!("{e:?}")),
                        Err(p) => Err(format!("panic: {}", panic_message(&p))),
                    });
                    if failed && (honest_mask >> h) & 1 == 1 {
                        break;
                    }
                }
                Ok(None) => break,
                Err(_) => {
                    timed_out = true;
                    break;
                }
            }
        }
        let _ = catch(move || drop(futs));
        let st = icpt.state.lock().unwrap();
        let out = Out { res, catalogue: st.catalogue.clone(), fired: st.fired && st.changed, timed_out };
        drop(st);
        let _ = catch(move || drop(world));
        out
    })
}

fn classify_gate(g: &str) -> &'static str {
    if g.contains("c04open") {
        "final-reveal"
    } else if g.contains("c04mult") {
        if g.contains("randomness_for_validation") || g.contains("duplicate") { "multiply-rx-twin" } else { "multiply" }
    } else if g.contains("upgrade") {
        "upgrade"
    } else if g.contains("propagate") {
        "propagate-u-w"
    } else if g.contains("reveal_r") {
        "reveal-r"
    } else if g.contains("check_zero") {
        "check-zero"
    } else {
        "other"
    }
}

fn case_for<F: MacField>(env: &Env, src: &mut Src<'_>) -> CaseResult
where
    Replicated<F>: crate::protocol::prss::FromPrss,
{
    let n = src.urange(1, 40);
    let active = src.pick(&[2usize, 4, 8, 16]);
    let seed = src.seed();
    let mut rng = StdRng::seed_from_u64(seed);
    let vals: Vec<(F, F)> = (0..n).map(|_| (F::genv(&mut rng, src.below(6)), F::genv(&mut rng, src.below(6)))).collect();
    let pj = json!({"field": F::TNAME, "n": n, "active": active, "seed": seed.to_string()});
    let mut labels = vec![format!("field:{}", F::TNAME), format!("active:{active}"), format!("batches:{}", match n.div_ceil(active) { 1 => "1", 2 => "2", _ => "3+" }), if n % active == 0 { "n-multiple-of-batch".to_string() } else { "partial-last-batch".to_string() }];
    // honest execution always validates and opens the products
    let honest = run_world::<F>(seed, active, &vals, None, 0b111);
    if honest.timed_out {
        return Ok(CaseOk::new(false, &0u8, serde_json::Value::Null).label("inconclusive:timeout"));
    }
    for h in 0..3 {
        match &honest.res[h] {
            Some(Ok(v)) => {
                for (i, (a, b)) in vals.iter().enumerate() {
                    if v[i] != *a * *b {
                        return Err(violation("honest-wrong-opening", format!("helper {h} opened record {i} to a value different from a*b"), pj));
                    }
                }
            }
            other => return Err(violation("honest-rejected", format!("helper {h} failed an honest execution: {other:?}").chars().take(300).collect::<String>(), pj)),
        }
    }
    // one additive error on one message of the corrupt helper
    let corrupt = src.idx(3);
    let honest_mask = 0b111 & !(1u8 << corrupt);
    let chans: Vec<(&ChannelKey, &Vec<usize>)> = honest.catalogue.iter().filter(|(k, _)| k.source == corrupt).collect();
    // stratify by message class
    let mut classes: Vec<&'static str> = chans.iter().map(|(k, _)| classify_gate(&k.gate)).collect();
    classes.sort_unstable();
    classes.dedup();
    let class = classes[src.idx(classes.len())];
    let of_class: Vec<(&ChannelKey, &Vec<usize>)> = chans.iter().filter(|(k, _)| classify_gate(&k.gate) == class).copied().collect();
    let (key, chunks): (&ChannelKey, &Vec<usize>) = of_class[src.idx(of_class.len())];
    let ordinal = src.idx(chunks.len());
    let len = chunks[ordinal];
    let elems = (len / F::ELEM).max(1);
    // target element: first, last (partial batch) or any
    let elem = match src.below(3) {
        0 => 0,
        1 => elems - 1,
        _ => src.idx(elems),
    };
    let delta = match (F::MODULUS, src.below(3)) {
        (Some(p), 0) => 1,
        (Some(p), 1) => p - 1,
        (Some(p), _) => 1 + src.below((p - 1) as u64) as u128,
        (None, 0) => 1,
        (None, _) => 1 + src.u64() as u128,
    };
    let edit = Edit::AddLe { elem, stride: F::ELEM, width: F::ELEM.min(16), delta, modulus: F::MODULUS };
    let t = Tamper { key: key.clone(), ordinal, edit };
    let cj = json!({"plan": pj, "corrupt": corrupt, "gate": key.gate, "dest": key.dest, "ordinal": ordinal, "elem": elem, "delta": delta.to_string(), "class": class});
    labels.push(format!("msg:{class}"));
    let out = run_world::<F>(seed, active, &vals, Some(t), honest_mask);
    if !out.fired {
        return Ok(CaseOk::new(false, &0u8, serde_json::Value::Null).label("edit-not-fired").labels(labels));
    }
    let honest_ids: Vec<usize> = (0..3).filter(|h| *h != corrupt).collect();
    let detected = honest_ids.iter().any(|h| matches!(out.res[*h], Some(Err(_))));
    let all_honest_ok = honest_ids.iter().all(|h| matches!(out.res[*h], Some(Ok(_))));
    if detected {
        labels.push("detected".into());
    } else if all_honest_ok {
        let deterministic = class == "final-reveal" || class == "reveal-r";
        if F::TNAME == "Fp31" && !deterministic {
            // a MAC over a 31-element field misses an additive attack with probability about 1/31;
            // judged by the run-level bound below
            FP31_UNDETECTED.fetch_add(1, Ordering::SeqCst);
            labels.push("fp31-undetected".into());
        } else {
            return Err(violation(
                format!("additive-attack-undetected:{class}:{}", F::TNAME),
                format!("H{} added {delta} to element {elem} of a {class} message ({} -> H{}); both honest helpers validated and opened", corrupt + 1, key.gate, key.dest + 1),
                cj,
            ));
        }
    } else {
        labels.push("inconclusive:no-honest-verdict".into());
        return Ok(CaseOk::new(false, &0u8, serde_json::Value::Null).labels(labels));
    }
    if F::TNAME == "Fp31" {
        FP31_ATTACKED.fetch_add(1, Ordering::SeqCst);
    }
    Ok(CaseOk { nontrivial: true, digest: digest(&(F::TNAME, n, active, corrupt, &key.gate, key.dest, elem == 0, delta == 1)), labels, sample: cj })
}

pub fn attack(env: &Env, src: &mut Src<'_>) -> CaseResult {
    match src.below(3) {
        0 => case_for::<Fp31>(env, src),
        1 => case_for::<Fp32BitPrime>(env, src),
        _ => case_for::<Fp25519>(env, src),
    }
}

/// one-sided binomial bound on the number of undetected Fp31 attacks in this run
fn fp31_bound(_env: &Env, _src: &mut Src<'_>) -> CaseResult {
    let n = FP31_ATTACKED.load(Ordering::SeqCst);
    let k = FP31_UNDETECTED.load(Ordering::SeqCst);
    // P[X >= k] for X ~ Bin(n, p0) with a generous p0 = 3/31 (forgery probability of the MAC
    // check is about 1/31 per attack; validation batches share one check)
    let p0: f64 = 3.0 / 31.0;
    // Chernoff-Hoeffding bound, computed in log space (the direct binomial sum underflows for
    // large n): for k/n > p0, P[X >= k] <= exp(-n * KL(k/n || p0)); for k/n <= p0 there is
    // nothing to explain.
    let tail = if n == 0 || (k as f64) <= p0 * n as f64 {
        1.0
    } else {
        let q = k as f64 / n as f64;
        let kl = q * (q / p0).ln() + if q < 1.0 { (1.0 - q) * ((1.0 - q) / (1.0 - p0)).ln() } else { 0.0 };
        (-(n as f64) * kl).exp()
    };
    let cj = json!({"fp31_attacked": n, "fp31_undetected": k, "tail_probability": tail});
    if n > 0 && tail < 1e-9 {
        return Err(violation("fp31-undetected-rate", format!("{k} of {n} additive attacks on MAC-protected Fp31 traffic went undetected; probability under a 3/31 forgery bound is {tail:e}"), cj));
    }
    Ok(CaseOk::new(true, &(n, k), cj))
}

// ------------------------------------------------------------------------------------------
// vectorised MAC shares (the pseudonym path: Fp25519 x PRF_CHUNK lanes) and consistent lies
// ------------------------------------------------------------------------------------------

const LANES: usize = crate::protocol::ipa_prf::PRF_CHUNK;
type VShare = Replicated<Fp25519, LANES>;

async fn helper_vec(ctx: MaliciousContext<'_>, inputs: Vec<(VShare, VShare)>) -> Result<Vec<Vec<Fp25519>>, Error> {
    let n = inputs.len();
    let ctx = ctx.set_total_records(TotalRecords::specified(n)?);
    let v = ctx.validator::<Fp25519>();
    let m = v.context();
    let futs = inputs.into_iter().enumerate().map(|(i, (a, b))| {
        let m = m.clone();
        async move {
            let rid = RecordId::from(i);
            let (a, b) = (a, b).upgrade(m.clone(), rid).await?;
            let c = a.multiply(&b, m.narrow("c04mult"), rid).await?;
            m.validate_record(rid).await?;
            let opened = reveal(m.narrow("c04open"), rid, &c).await?;
            Ok::<_, Error>(opened.into_iter().collect::<Vec<Fp25519>>())
        }
    });
    let r = m.try_join(futs).await;
    drop(v);
    r
}

struct VOut {
    res: [Option<Result<Vec<Vec<Fp25519>>, String>>; 3],
    catalogue: std::collections::BTreeMap<ChannelKey, Vec<usize>>,
    fired: bool,
    more_fired: usize,
    timed_out: bool,
}

fn run_world_vec(seed: u64, active: usize, vals: &[([Fp25519; LANES], [Fp25519; LANES])], tampers: Vec<Tamper>, honest_mask: u8) -> VOut {
    use crate::secret_sharing::{SharedValueArray, Vectorizable};
    block_on(async {
        let attacked = !tampers.is_empty();
        let icpt = Interceptor::new_multi(tampers);
        let mut wc = TestWorldConfig::default();
        wc.seed = seed;
        wc.stream_interceptor = icpt.dynamic();
        wc.timeout = None;
        wc.gateway_config.active = active.try_into().unwrap();
        let world = TestWorld::new_with(&wc);
        let mut rng = StdRng::seed_from_u64(seed ^ 0x5eed);
        let mut inputs: [Vec<(VShare, VShare)>; 3] = [vec![], vec![], vec![]];
        type Arr = <Fp25519 as Vectorizable<LANES>>::Array;
        let share = |v: &[Fp25519; LANES], rng: &mut StdRng| -> [VShare; 3] {
            let s1: [Fp25519; LANES] = std::array::from_fn(|_| Fp25519::genv(rng, 9));
            let s2: [Fp25519; LANES] = std::array::from_fn(|_| Fp25519::genv(rng, 9));
            let s3: [Fp25519; LANES] = std::array::from_fn(|i| v[i] - s1[i] - s2[i]);
            let arr = |s: &[Fp25519; LANES]| Arr::from_fn(|i| s[i]);
            [VShare::new_arr(arr(&s1), arr(&s2)), VShare::new_arr(arr(&s2), arr(&s3)), VShare::new_arr(arr(&s3), arr(&s1))]
        };
        for (a, b) in vals {
            let sa = share(a, &mut rng);
            let sb = share(b, &mut rng);
            for (h, (x, y)) in sa.into_iter().zip(sb).enumerate() {
                inputs[h].push((x, y));
            }
        }
        let ctxs = world.malicious_contexts();
        let mut futs = futures::stream::FuturesUnordered::new();
        for (h, (ctx, inp)) in ctxs.into_iter().zip(inputs).enumerate() {
            futs.push(async move {
                let r = futures::FutureExt::catch_unwind(std::panic::AssertUnwindSafe(helper_vec(ctx, inp))).await;
                (h, r)
            });
        }
        let mut res: [Option<Result<Vec<Vec<Fp25519>>, String>>; 3] = [None, None, None];
        let deadline = tokio::time::Instant::now() + Duration::from_secs(if attacked { 8 } else { 120 });
        let mut timed_out = false;
        loop {
            match tokio::time::timeout_at(deadline, futs.next()).await {
                Ok(Some((h, r))) => {
                    let failed = !matches!(r, Ok(Ok(_)));
                    res[h] = Some(match r {
                        Ok(Ok(v)) => Ok(v),
                        Ok(Err(e)) => Err(format!("{e:?}")),
                        Err(p) => Err(format!("panic: {}", panic_message(&p))),
                    });
                    if failed && (honest_mask >> h) & 1 == 1 {
                        break;
                    }
                }
                Ok(None) => break,
                Err(_) => {
                    timed_out = true;
                    break;
                }
            }
        }
        let _ = catch(move || drop(futs));
        let st = icpt.state.lock().unwrap();
        let out = VOut { res, catalogue: st.catalogue.clone(), fired: st.fired && st.changed, more_fired: st.more_fired, timed_out };
        drop(st);
        let _ = catch(move || drop(world));
        out
    })
}

fn fp_bytes(x: Fp25519) -> [u8; 32] {
    let mut b = GenericArray::default();
    x.serialize(&mut b);
    b.into()
}

/// Vectorised records (16 lanes of Fp25519, as in the pseudonym computation), error *vectors*
/// over the lanes of one message, optionally repeated consistently in the opening.
fn vector_attack(env: &Env, src: &mut Src<'_>) -> CaseResult {
    let n = src.urange(1, 6);
    let active = src.pick(&[2usize, 4, 8]);
    let seed = src.seed();
    let mut rng = StdRng::seed_from_u64(seed);
    let vals: Vec<([Fp25519; LANES], [Fp25519; LANES])> =
        (0..n).map(|_| (std::array::from_fn(|_| Fp25519::genv(&mut rng, src.below(6))), std::array::from_fn(|_| Fp25519::genv(&mut rng, src.below(6))))).collect();
    let pj = json!({"field": "Fp25519", "lanes": LANES, "n": n, "active": active, "seed": seed.to_string()});
    let honest = run_world_vec(seed, active, &vals, vec![], 0b111);
    if honest.timed_out {
        return Ok(CaseOk::new(false, &0u8, serde_json::Value::Null).label("inconclusive:timeout"));
    }
    for h in 0..3 {
        match &honest.res[h] {
            Some(Ok(v)) => {
                for (i, (a, b)) in vals.iter().enumerate() {
                    for l in 0..LANES {
                        if v[i][l] != a[l] * b[l] {
                            return Err(violation("honest-wrong-opening", format!("helper {h} opened record {i} lane {l} to a value different from a*b"), pj));
                        }
                    }
                }
            }
            other => return Err(violation("honest-rejected", format!("helper {h} failed an honest vectorised execution: {other:?}").chars().take(300).collect::<String>(), pj)),
        }
    }
    let corrupt = src.idx(3);
    let honest_mask = 0b111 & !(1u8 << corrupt);
    let left = (corrupt + 2) % 3;
    let right = (corrupt + 1) % 3;
    // the message that carries the corrupt helper's product share: multiply step, x component
    // (gate ends with the step name; the r*x twin runs in a child step), sent to the left
    let class = src.pick(&["multiply", "multiply-rx-twin", "upgrade"]);
    let chans: Vec<(&ChannelKey, &Vec<usize>)> = honest.catalogue.iter().filter(|(k, _)| k.source == corrupt && classify_gate(&k.gate) == class && (class != "multiply" || k.gate.ends_with("c04mult"))).collect();
    if chans.is_empty() {
        return Err(violation("harness-no-channel", format!("no {class} channel recorded"), pj));
    }
    let (key, chunks) = chans[src.idx(chans.len())];
    let record = src.idx(n);
    // locate the chunk holding `record`: chunks are whole records of LANES*32 bytes
    let rec_bytes = LANES * 32;
    let mut ordinal = 0;
    let mut first = 0;
    for (o, len) in chunks.iter().enumerate() {
        let recs = len / rec_bytes;
        if record < first + recs {
            ordinal = o;
            break;
        }
        first += recs;
    }
    let d = Fp25519::genv(&mut rng, 9);
    let (errors, shape): (Vec<(usize, [u8; 32])>, &str) = match src.below(4) {
        0 => (vec![(src.idx(LANES), fp_bytes(d))], "single-lane"),
        1 => {
            let i = src.idx(LANES);
            let j = (i + 1 + src.idx(LANES - 1)) % LANES;
            (vec![(i, fp_bytes(d)), (j, fp_bytes(-d))], "two-lanes-zero-sum")
        }
        2 => ((0..LANES).map(|l| (l, fp_bytes(d))).collect(), "all-lanes-same"),
        _ => ((0..LANES).map(|l| (l, fp_bytes(Fp25519::genv(&mut rng, 9)))).collect(), "all-lanes-random"),
    };
    let edit = Edit::Fp25519Add { record: record - first, lanes_per_record: LANES, errors: errors.clone() };
    let mut tampers = vec![Tamper { key: key.clone(), ordinal, edit }];
    // a consistent lie: the same error on the copy of that share sent in the opening. The share
    // sent to the left in the multiplication is the helper's left share; in the opening the left
    // share goes to the right neighbour.
    let consistent = class == "multiply" && src.bool();
    if consistent {
        if let Some((ok, oc)) = honest.catalogue.iter().find(|(k, _)| k.source == corrupt && k.dest == right && k.gate.ends_with("c04open")) {
            let mut first = 0;
            let mut ord = 0;
            for (o, len) in oc.iter().enumerate() {
                let recs = len / rec_bytes;
                if record < first + recs {
                    ord = o;
                    break;
                }
                first += recs;
            }
            tampers.push(Tamper { key: ok.clone(), ordinal: ord, edit: Edit::Fp25519Add { record: record - first, lanes_per_record: LANES, errors } });
        }
    }
    let _ = left;
    let cj = json!({"plan": pj, "corrupt": corrupt, "gate": key.gate, "dest": key.dest, "record": record, "shape": shape, "class": class, "consistent_lie_in_opening": consistent});
    let nt = tampers.len();
    let out = run_world_vec(seed, active, &vals, tampers, honest_mask);
    let mut labels = vec!["field:Fp25519x16".to_string(), format!("msg:{class}"), format!("shape:{shape}"), format!("consistent-lie:{consistent}")];
    let _ = nt;
    if !out.fired {
        return Ok(CaseOk::new(false, &0u8, serde_json::Value::Null).label("edit-not-fired").labels(labels));
    }
    let honest_ids: Vec<usize> = (0..3).filter(|h| *h != corrupt).collect();
    let detected = honest_ids.iter().any(|h| matches!(out.res[*h], Some(Err(_))));
    let all_honest_ok = honest_ids.iter().all(|h| matches!(out.res[*h], Some(Ok(_))));
    if detected {
        labels.push("detected".into());
    } else if all_honest_ok {
        return Err(violation(
            format!("additive-attack-undetected:{class}:Fp25519x{LANES}:{shape}"),
            format!("H{} added a {shape} error vector to record {record} of a {class} message ({} -> H{}){}; both honest helpers validated and opened", corrupt + 1, key.gate, key.dest + 1, if consistent { " and repeated it in the opening" } else { "" }),
            cj,
        ));
    } else {
        labels.push("inconclusive:no-honest-verdict".into());
        return Ok(CaseOk::new(false, &0u8, serde_json::Value::Null).labels(labels));
    }
    Ok(CaseOk { nontrivial: true, digest: digest(&(n, active, corrupt, &key.gate, key.dest, record, shape, consistent)), labels, sample: cj })
}

// ---------------------------------------------------------------------------------------------
// (d) the pseudonym computation itself (`eval_dy_prf`) in the MAC context, one additive error
// ---------------------------------------------------------------------------------------------

struct POut {
    res: [Option<Result<Vec<Vec<u64>>, String>>; 3],
    catalogue: std::collections::BTreeMap<ChannelKey, Vec<usize>>,
    fired: bool,
    timed_out: bool,
}

macro_rules! prf_world {
    ($name:ident, $n:expr) => {
        fn $name(seed: u64, key: Fp25519, xs: &[Vec<Fp25519>], tamper: Option<Tamper>, honest_mask: u8) -> POut {
            use crate::{protocol::ipa_prf::prf_eval::eval_dy_prf, secret_sharing::{SharedValueArray, Vectorizable, replicated::ReplicatedSecretSharing}};
            const N: usize = $n;
            type XS = Replicated<Fp25519, N>;
            block_on(async {
                let icpt = Interceptor::new(tamper);
                let mut wc = TestWorldConfig::default();
                wc.seed = seed;
                wc.stream_interceptor = icpt.dynamic();
                wc.timeout = None;
                let world = TestWorld::new_with(&wc);
                let mut rng = StdRng::seed_from_u64(seed ^ 0x9f);
                let ks: [Replicated<Fp25519>; 3] = key.share_with(&mut rng);
                let mut inputs: [Vec<XS>; 3] = [vec![], vec![], vec![]];
                for x in xs {
                    let lanes: Vec<[Replicated<Fp25519>; 3]> = x.iter().map(|v| (*v).share_with(&mut rng)).collect();
                    for h in 0..3 {
                        let l = <Fp25519 as Vectorizable<N>>::Array::from_fn(|i| lanes[i][h].left());
                        let r = <Fp25519 as Vectorizable<N>>::Array::from_fn(|i| lanes[i][h].right());
                        inputs[h].push(Replicated::new_arr(l, r));
                    }
                }
                let ctxs = world.malicious_contexts();
                let mut futs = futures::stream::FuturesUnordered::new();
                for (h, ((ctx, inp), k)) in ctxs.into_iter().zip(inputs).zip(ks).enumerate() {
                    futs.push(async move {
                        let body = async move {
                            let n = inp.len();
                            let ctx = ctx.set_total_records(TotalRecords::specified(n)?);
                            let v = ctx.validator::<Fp25519>();
                            let m = v.context();
                            let futs = inp.into_iter().enumerate().map(|(i, x)| {
                                let m = m.clone();
                                let k = k.clone();
                                async move { eval_dy_prf::<_, N>(m, RecordId::from(i), &k, x).await.map(|a| a.to_vec()) }
                            });
                            let r = m.try_join(futs).await;
                            drop(v);
                            r
                        };
                        let r = futures::FutureExt::catch_unwind(std::panic::AssertUnwindSafe(body)).await;
                        (h, r)
                    });
                }
                let mut res: [Option<Result<Vec<Vec<u64>>, String>>; 3] = [None, None, None];
                let deadline = tokio::time::Instant::now() + Duration::from_secs(if icpt.tamper.is_some() { 6 } else { 120 });
                let mut timed_out = false;
                loop {
                    match tokio::time::timeout_at(deadline, futs.next()).await {
                        Ok(Some((h, r))) => {
                            let failed = !matches!(r, Ok(Ok(_)));
                            res[h] = Some(match r {
                                Ok(Ok(v)) => Ok(v),
                                Ok(Err(e)) => Err(format!("{e:?}")),
                                Err(p) => Err(format!("panic: {}", panic_message(&p))),
                            });
                            if failed && (honest_mask >> h) & 1 == 1 {
                                break;
                            }
                        }
                        Ok(None) => break,
                        Err(_) => {
                            timed_out = true;
                            break;
                        }
                    }
                }
                let _ = catch(move || drop(futs));
                let st = icpt.state.lock().unwrap();
                let out = POut { res, catalogue: st.catalogue.clone(), fired: st.fired && st.changed, timed_out };
                drop(st);
                let _ = catch(move || drop(world));
                out
            })
        }
    };
}
prf_world!(prf_world_1, 1);
prf_world!(prf_world_16, 16);

fn classify_prf_gate(g: &str) -> &'static str {
    // openings made by the protocol itself (plain sharing of g^r; MAC-ed sharing of z) live under
    // the protocol step, the validator's own opening of r under its validate step
    if g.contains("validate") {
        if g.contains("propagate") {
            "propagate-u-w"
        } else if g.contains("reveal_r") {
            "validator-reveal-r"
        } else if g.contains("check_zero") {
            "check-zero"
        } else {
            "other"
        }
    } else if g.ends_with("reveal_r") {
        "open-plain-g^r"
    } else if g.ends_with("revealz") {
        "open-z"
    } else if g.contains("upgrade_y") {
        "upgrade-y"
    } else if g.contains("upgrade_mask") {
        "upgrade-mask"
    } else if g.contains("mult_mask_with_p_r_f_input") {
        if g.contains("duplicate") { "multiply-rx-twin" } else { "multiply" }
    } else {
        "other"
    }
}

fn prf_attack(_env: &Env, src: &mut Src<'_>) -> CaseResult {
    use crate::{ff::curve_points::RP25519, secret_sharing::SharedValue};
    let wide = src.bool();
    let lanes = if wide { 16 } else { 1 };
    let n = src.urange(1, if wide { 3 } else { 6 });
    let seed = src.seed();
    let mut rng = StdRng::seed_from_u64(seed);
    let key = Fp25519::genv(&mut rng, 5);
    let xs: Vec<Vec<Fp25519>> = (0..n).map(|_| (0..lanes).map(|_| Fp25519::genv(&mut rng, src.below(6))).collect()).collect();
    let run = |t: Option<Tamper>, mask: u8| if wide { prf_world_16(seed, key, &xs, t, mask) } else { prf_world_1(seed, key, &xs, t, mask) };
    let pj = json!({"lanes": lanes, "records": n, "seed": seed.to_string()});
    let mut labels = vec![format!("lanes:{lanes}")];
    let expected: Vec<Vec<u64>> = xs.iter().map(|x| x.iter().map(|v| u64::from(RP25519::from((*v + key).invert()))).collect()).collect();
    let honest = run(None, 0b111);
    if honest.timed_out {
        return Ok(CaseOk::new(false, &0u8, serde_json::Value::Null).label("inconclusive:timeout"));
    }
    for h in 0..3 {
        match &honest.res[h] {
            Some(Ok(v)) if *v == expected => {}
            Some(Ok(_)) => return Err(violation("honest-wrong-pseudonym", format!("helper {h} computed a pseudonym different from g^(1/(x+k))"), pj)),
            other => return Err(violation("honest-rejected", format!("helper {h} failed an honest pseudonym computation: {other:?}").chars().take(300).collect::<String>(), pj)),
        }
    }
    let corrupt = src.idx(3);
    let honest_mask = 0b111 & !(1u8 << corrupt);
    let chans: Vec<(&ChannelKey, &Vec<usize>)> = honest.catalogue.iter().filter(|(k, _)| k.source == corrupt).collect();
    let mut classes: Vec<&'static str> = chans.iter().map(|(k, _)| classify_prf_gate(&k.gate)).collect();
    classes.sort_unstable();
    classes.dedup();
    let class = classes[src.idx(classes.len())];
    let of_class: Vec<(&ChannelKey, &Vec<usize>)> = chans.iter().filter(|(k, _)| classify_prf_gate(&k.gate) == class).copied().collect();
    let (key_ch, chunks): (&ChannelKey, &Vec<usize>) = of_class[src.idx(of_class.len())];
    let ordinal = src.idx(chunks.len());
    let elems = (chunks[ordinal] / 32).max(1);
    let elem = match src.below(3) {
        0 => 0,
        1 => elems - 1,
        _ => src.idx(elems),
    };
    let mut err = [0u8; 32];
    match src.below(3) {
        0 => err[0] = 1,
        1 => err = fp_bytes(Fp25519::ZERO - Fp25519::ONE),
        _ => err = fp_bytes(Fp25519::genv(&mut rng, 5) + Fp25519::ONE),
    }
    if err == [0u8; 32] {
        err[0] = 2;
    }
    let edit = if class == "open-plain-g^r" { Edit::RistrettoAdd { elem, scalar: err } } else { Edit::Fp25519Add { record: elem, lanes_per_record: 1, errors: vec![(0, err)] } };
    let t = Tamper { key: key_ch.clone(), ordinal, edit };
    let cj = json!({"plan": pj, "corrupt": corrupt, "gate": key_ch.gate, "dest": key_ch.dest, "ordinal": ordinal, "elem": elem, "class": class, "error": err.iter().map(|b| format!("{b:02x}")).collect::<String>()});
    labels.push(format!("msg:{class}"));
    let out = run(Some(t), honest_mask);
    if !out.fired {
        return Ok(CaseOk::new(false, &0u8, serde_json::Value::Null).label("edit-not-fired").labels(labels));
    }
    let honest_ids: Vec<usize> = (0..3).filter(|h| *h != corrupt).collect();
    let detected = honest_ids.iter().any(|h| matches!(out.res[*h], Some(Err(_))));
    let all_honest_ok = honest_ids.iter().all(|h| matches!(out.res[*h], Some(Ok(_))));
    if detected {
        labels.push("detected".into());
    } else if all_honest_ok {
        let wrong: Vec<usize> = honest_ids.iter().copied().filter(|h| out.res[*h].as_ref().unwrap().as_ref().unwrap() != &expected).collect();
        return Err(violation(
            format!("additive-attack-undetected:prf:{class}"),
            format!("H{} added an error to element {elem} of a {class} message ({} -> H{}); both honest helpers finished the pseudonym computation (wrong pseudonyms on helpers {wrong:?})", corrupt + 1, key_ch.gate, key_ch.dest + 1),
            cj,
        ));
    } else {
        labels.push("inconclusive:no-honest-verdict".into());
        return Ok(CaseOk::new(false, &0u8, serde_json::Value::Null).labels(labels));
    }
    Ok(CaseOk { nontrivial: true, digest: digest(&(lanes, n, corrupt, &key_ch.gate, key_ch.dest, ordinal, elem, err[0])), labels, sample: cj })
}

pub fn subs(_env: &Env) -> Vec<Sub> {
    vec![
        Sub::random("attack", 260, 8000, 300_000, attack,
            "fields {Fp31, Fp32BitPrime, Fp25519}; 1..40 records, active work (= MAC batch size) {2,4,8,16} so totals span non-multiples and several batches; honest run must validate and open a*b on all helpers; then one helper adds e (1, p-1, random) to one element (first / last / random) of one chunk of one of its channels, the channel chosen by message class {upgrade, multiply, multiply r*x twin, propagate u/w, reveal r, check zero, final reveal} first; oracle: some honest helper returns an error from validation or the opening (Fp31 MAC traffic: run-level binomial bound); distinct by (field, n, active, corrupt, gate, dest, first-element?, e=1?)")
        .shrink_iters(20),
        Sub::random("vector_attack", 300, 6000, 100_000, vector_attack,
            "vectorised MAC shares as in the pseudonym computation (Fp25519 x 16 lanes), 1..6 records, active work {2,4,8}: honest run validates and opens a*b lane by lane; then one helper adds an error *vector* (one lane; +d/-d on two lanes; the same d on all lanes; random on all lanes) to one record of its upgrade, multiply or r*x-twin message - optionally repeating it on the copy of that share it sends in the opening (a consistent lie) - and some honest helper must fail validation or the opening")
        .shrink_iters(20),
        Sub::random("prf_attack", 64, 3000, 60_000, prf_attack,
            "the pseudonym computation itself (eval_dy_prf, 1 or 16 lanes, 1..5 records) in the non-sharded MAC context: honest run yields g^(1/(x+k)) on all helpers; then one helper adds an error to one element of one of its messages, the message class chosen first among {upgrade y, upgrade mask, multiply (+ r*x twin), opening of the plain sharing of g^r (error = a group element, encoding stays valid), opening of z, propagate u/w, the validator's opening of r, check zero}; some honest helper must fail (no 1/|F| allowance: Fp25519 / ristretto255)")
        .shrink_iters(20),
        Sub::exhaustive("fp31_bound", 1, 1, fp31_bound,
            "run-level check: undetected additive attacks on MAC-protected Fp31 traffic stay within a one-sided binomial bound (p0 = 3/31, alpha = 1e-9)"),
    ]
}
