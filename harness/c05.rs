// C05 - the sharded shuffle outputs a re-shared permutation of its input; tampering is detected.

use std::{collections::BTreeMap, time::Duration};

use rand::{Rng, SeedableRng, rngs::StdRng};
use serde_json::json;

use super::{common::*, mpc::*};
use crate::{
    error::Error,
    ff::{
        U128Conversions,
        boolean_array::{BA3, BA8, BA16, BA32, BA64, BA112, BooleanArray},
    },
    protocol::ipa_prf::shuffle::{ShardedShuffle, Shuffleable},
    report::hybrid::{AggregateableHybridReport, IndistinguishableHybridReport},
    secret_sharing::replicated::{ReplicatedSecretSharing, semi_honest::AdditiveShare as Replicated},
    test_fixture::{TestWorld, TestWorldConfig, WithShards},
};

pub const LEVEL: &str = "fault_enumeration";

#[derive(Clone, Copy, Debug, PartialEq, Eq, Hash)]
pub enum RowType {
    Ba32,
    Ba64,
    Ba112,
    /// IndistinguishableHybridReport<BA8,BA3>: 64+3+8 = 75 significant bits packed into BA112
    Report,
    /// AggregateableHybridReport<BA8,BA3>: 3+8 = 11 significant bits packed into BA32
    AggReport,
    /// IndistinguishableHybridReport<BA8,BA16>: value wider than the breakdown key (64+16+8 = 88 bits)
    ReportWide,
}

impl RowType {
    fn bits(self) -> u32 {
        match self {
            RowType::Ba32 => 32,
            RowType::Ba64 => 64,
            RowType::Ba112 => 112,
            RowType::Report => 75,
            RowType::AggReport => 11,
            RowType::ReportWide => 88,
        }
    }
}

#[derive(Clone, Debug)]
pub struct ShufCfg {
    pub inner: HybridCfg, // shards, malicious, workers, seeds, assign, timeout, tamper, stop mask
    pub row: RowType,
}

/// A row type of the shuffle with a *layout independent* plain form: rows are built from and read
/// back as fields (plain bits: match key, then value, then breakdown key - a convention of this
/// harness only), never through the packed `Shuffleable::Share`. How the code packs the fields
/// into that share is its own business (covered, as a lossless round trip, by C09).
pub trait Row: Shuffleable {
    fn from_plain(l: u128, r: u128) -> Self;
    fn plain(&self) -> (u128, u128);
}
macro_rules! plain_row {
    ($t:ty) => {
        impl Row for Replicated<$t> {
            fn from_plain(l: u128, r: u128) -> Self {
                ReplicatedSecretSharing::new(<$t>::truncate_from(l), <$t>::truncate_from(r))
            }
            fn plain(&self) -> (u128, u128) {
                (ReplicatedSecretSharing::left(self).as_u128(), ReplicatedSecretSharing::right(self).as_u128())
            }
        }
    };
}
plain_row!(BA32);
plain_row!(BA64);
plain_row!(BA112);
impl<BK: BooleanArray + U128Conversions, V: BooleanArray + U128Conversions> Row for IndistinguishableHybridReport<BK, V> {
    fn from_plain(l: u128, r: u128) -> Self {
        let f = |x: u128| (BA64::truncate_from(x & u128::from(u64::MAX)), V::truncate_from((x >> 64) & ((1u128 << V::BITS) - 1)), BK::truncate_from((x >> (64 + V::BITS)) & ((1u128 << BK::BITS) - 1)));
        let (a, b) = (f(l), f(r));
        Self { match_key: ReplicatedSecretSharing::new(a.0, b.0), value: ReplicatedSecretSharing::new(a.1, b.1), breakdown_key: ReplicatedSecretSharing::new(a.2, b.2) }
    }
    fn plain(&self) -> (u128, u128) {
        let g = |mk: BA64, v: V, bk: BK| mk.as_u128() | (v.as_u128() << 64) | (bk.as_u128() << (64 + V::BITS));
        (
            g(ReplicatedSecretSharing::left(&self.match_key), ReplicatedSecretSharing::left(&self.value), ReplicatedSecretSharing::left(&self.breakdown_key)),
            g(ReplicatedSecretSharing::right(&self.match_key), ReplicatedSecretSharing::right(&self.value), ReplicatedSecretSharing::right(&self.breakdown_key)),
        )
    }
}
impl<BK: BooleanArray + U128Conversions, V: BooleanArray + U128Conversions> Row for AggregateableHybridReport<BK, V> {
    fn from_plain(l: u128, r: u128) -> Self {
        let f = |x: u128| (V::truncate_from(x & ((1u128 << V::BITS) - 1)), BK::truncate_from((x >> V::BITS) & ((1u128 << BK::BITS) - 1)));
        let (a, b) = (f(l), f(r));
        Self { match_key: (), value: ReplicatedSecretSharing::new(a.0, b.0), breakdown_key: ReplicatedSecretSharing::new(a.1, b.1) }
    }
    fn plain(&self) -> (u128, u128) {
        let g = |v: V, bk: BK| v.as_u128() | (bk.as_u128() << V::BITS);
        (
            g(ReplicatedSecretSharing::left(&self.value), ReplicatedSecretSharing::left(&self.breakdown_key)),
            g(ReplicatedSecretSharing::right(&self.value), ReplicatedSecretSharing::right(&self.breakdown_key)),
        )
    }
}

fn build<S: Row>(vals: &[u128], seed: u64, mk: impl Fn(u128) -> u128) -> [Vec<S>; 3] {
    let mut rng = StdRng::seed_from_u64(seed);
    let mut out: [Vec<S>; 3] = [vec![], vec![], vec![]];
    for v in vals {
        let s1: u128 = rng.r#gen();
        let s2: u128 = rng.r#gen();
        let s3 = v ^ s1 ^ s2;
        let sh = [s1, s2, s3];
        for h in 0..3 {
            out[h].push(S::from_plain(mk(sh[h]), mk(sh[(h + 1) % 3])));
        }
    }
    out
}

async fn run_in<const N: usize>(cfg: &ShufCfg, vals: &[u128]) -> RunResult {
    let icpt = Interceptor::new(cfg.inner.tamper.clone());
    let mut wc = TestWorldConfig::default();
    wc.seed = cfg.inner.world_seed;
    wc.stream_interceptor = icpt.dynamic();
    wc.timeout = None;
    let t0 = std::time::Instant::now();
    let world = TestWorld::<WithShards<N>>::with_shards(&wc);
    let mask = |bits: u32| if bits >= 128 { u128::MAX } else { (1u128 << bits) - 1 };
    macro_rules! go {
        ($ctxs:expr, $ty:ty, $mk:expr) => {{
            let shares = build::<$ty>(vals, cfg.inner.share_seed, $mk);
            let mut per: Vec<Vec<Vec<$ty>>> = (0..3).map(|_| (0..N).map(|_| vec![]).collect()).collect();
            for (h, hs) in shares.into_iter().enumerate() {
                for (i, r) in hs.into_iter().enumerate() {
                    per[h][cfg.inner.assign[i] % N].push(r);
                }
            }
            let mut futs = vec![];
            for (h, (hc, hrows)) in $ctxs.into_iter().zip(per.into_iter()).enumerate() {
                for (s, (ctx, rows)) in hc.into_iter().zip(hrows.into_iter()).enumerate() {
                    futs.push((h, s, async move {
                        let r = ctx.sharded_shuffle(rows).await?;
                        Ok::<_, Error>(r.iter().map(Row::plain).collect::<Vec<(u128, u128)>>())
                    }));
                }
            }
            drive(futs, N, &cfg.inner).await
        }};
    }
    macro_rules! by_row {
        ($ctxs:expr) => {
            match cfg.row {
                RowType::Ba32 => go!($ctxs, Replicated<BA32>, |v| v & mask(32)),
                RowType::Ba64 => go!($ctxs, Replicated<BA64>, |v| v & mask(64)),
                RowType::Ba112 => go!($ctxs, Replicated<BA112>, |v| v & mask(112)),
                RowType::Report => go!($ctxs, IndistinguishableHybridReport<BA8, BA3>, |v| v & mask(75)),
                RowType::ReportWide => go!($ctxs, IndistinguishableHybridReport<BA8, BA16>, |v| v & mask(88)),
                RowType::AggReport => go!($ctxs, AggregateableHybridReport<BA8, BA3>, |v| v & mask(11)),
            }
        };
    }
    let (outcomes, timed_out) = if cfg.inner.malicious { by_row!(world.malicious_contexts()) } else { by_row!(world.contexts()) };
    let elapsed = t0.elapsed();
    let _ = catch(move || drop(world));
    let st = icpt.state.lock().unwrap();
    RunResult { outcomes, timed_out, elapsed, catalogue: st.catalogue.clone(), tamper_fired: st.fired, tamper_changed: st.changed }
}

pub fn run_shuffle(cfg: &ShufCfg, vals: &[u128]) -> RunResult {
    macro_rules! with_s {
        ($s:literal) => {{
            let fut = run_in::<$s>(cfg, vals);
            if cfg.inner.workers == 0 { block_on(fut) } else { block_on_mt(cfg.inner.workers, fut) }
        }};
    }
    match cfg.inner.shards {
        1 => with_s!(1),
        2 => with_s!(2),
        3 => with_s!(3),
        _ => with_s!(5),
    }
}

fn multiset(v: impl IntoIterator<Item = u128>) -> BTreeMap<u128, usize> {
    let mut m = BTreeMap::new();
    for x in v {
        *m.entry(x).or_default() += 1;
    }
    m
}

fn gen_cfg(env: &Env, src: &mut Src<'_>, malicious: Option<bool>) -> (ShufCfg, Vec<u128>, Vec<String>) {
    let row = src.pick(&[RowType::Ba32, RowType::Ba64, RowType::Ba112, RowType::Report, RowType::AggReport, RowType::ReportWide]);
    let shards = src.pick(&[1usize, 2, 3, 5]);
    let malicious = malicious.unwrap_or_else(|| src.bool());
    let max = if env.thorough() { 2000 } else { 60 };
    let n = match src.below(8) {
        0 => 0,
        1 => 1,
        2 => src.urange(0, shards), // fewer rows than shards
        _ => src.urange(2, max),
    };
    let bits = row.bits();
    let mask = if bits >= 128 { u128::MAX } else { (1u128 << bits) - 1 };
    let dup = src.chance(1, 4);
    let mut vals: Vec<u128> = vec![];
    for i in 0..n {
        let v = if dup && i > 0 && src.chance(1, 3) { vals[src.idx(i)] } else { src.bits_val(bits) & mask };
        vals.push(v);
    }
    let mode = src.below(4);
    let assign: Vec<usize> = (0..n)
        .map(|i| match mode {
            0 => i % shards,
            1 => src.idx(shards),
            2 => 0, // all rows on one shard, the others empty
            _ => (i * shards) / n.max(1),
        })
        .collect();
    let nonempty = (0..shards).filter(|s| assign.iter().any(|a| a == s)).count();
    let mut labels = vec![format!("row:{row:?}"), format!("shards:{shards}"), if malicious { "malicious".into() } else { "semi-honest".to_string() }];
    if nonempty < shards {
        labels.push("has-empty-shard".into());
    }
    if n < shards {
        labels.push("fewer-rows-than-shards".into());
    }
    labels.push(format!("rows:{}", match n { 0 => "0", 1 => "1", 2..=9 => "2-9", 10..=99 => "10-99", _ => "100+" }));
    let workers = src.pick(&[0usize, 0, 2, 4]);
    labels.push(format!("workers:{workers}"));
    let inner = HybridCfg {
        shards,
        malicious,
        pad: Pad::None,
        hv_bits: 0,
        workers,
        world_seed: src.seed(),
        share_seed: src.seed(),
        assign,
        // an honest shuffle of this size takes well under a second; once two cases of this run
        // have hit the limit (a hang, not slowness) the remaining ones get a short limit, so that
        // the run still reaches the cases that can give a verdict instead of the watchdog
        timeout: if HONEST_TIMEOUTS.load(std::sync::atomic::Ordering::SeqCst) >= 2 { Duration::from_secs(4) } else { Duration::from_secs(if env.thorough() { 120 } else { 40 }) },
        tamper: None,
        more_tampers: vec![],
        grace_after_other_failure: None,
        stop_on_error_of: 0b111,
    };
    (ShufCfg { inner, row }, vals, labels)
}

fn cfg_json(cfg: &ShufCfg, vals: &[u128]) -> serde_json::Value {
    json!({"row": format!("{:?}", cfg.row), "cfg": cfg.inner.json(), "values": vals.iter().take(40).map(|v| format!("{v:#x}")).collect::<Vec<_>>(), "n": vals.len()})
}

static HONEST_TIMEOUTS: std::sync::atomic::AtomicU32 = std::sync::atomic::AtomicU32::new(0);

/// all three helpers: same row count per shard, consistent sharing, multiset preserved
fn check_output(res: &RunResult, vals: &[u128], shards: usize) -> Result<Vec<u128>, String> {
    let mut all = vec![];
    for s in 0..shards {
        let get = |h: usize| match &res.outcomes[h][s] {
            Some(HelperOutcome::Ok(v)) => Ok(v),
            other => Err(format!("helper {h} shard {s}: {}", other.as_ref().map_or("no output".into(), HelperOutcome::describe))),
        };
        let (a, b, c) = (get(0)?, get(1)?, get(2)?);
        let r = reconstruct3(a, b, c, u128::MAX).map_err(|e| format!("shard {s}: {e}"))?;
        all.extend(r);
    }
    if multiset(all.iter().copied()) != multiset(vals.iter().copied()) {
        return Err(format!("output multiset ({} rows) differs from the input multiset ({} rows)", all.len(), vals.len()));
    }
    Ok(all)
}

pub fn honest(env: &Env, src: &mut Src<'_>) -> CaseResult {
    let (cfg, vals, mut labels) = gen_cfg(env, src, None);
    let cj = cfg_json(&cfg, &vals);
    let res = run_shuffle(&cfg, &vals);
    if let Some((h, s, o)) = res.first_failure() {
        return Err(match o {
            HelperOutcome::Panic { loc, msg } => violation(format!("panic:{}", loc_file(loc)), format!("helper {h} shard {s} panicked at {loc}: {msg}"), cj),
            other => violation("honest-error", format!("helper {h} shard {s} failed an honest shuffle: {}", other.describe()), cj),
        });
    }
    if res.timed_out {
        HONEST_TIMEOUTS.fetch_add(1, std::sync::atomic::Ordering::SeqCst);
        return Ok(CaseOk::new(false, &0u8, serde_json::Value::Null).label("inconclusive:timeout").labels(labels));
    }
    let out = match check_output(&res, &vals, cfg.inner.shards) {
        Ok(o) => o,
        Err(e) => return Err(violation("not-a-permutation", e, cj)),
    };
    // sanity (reported, not enforced): with >= 8 distinct rows the order changes
    let distinct = multiset(vals.iter().copied()).len();
    if distinct >= 8 {
        labels.push(if out == vals { "order-unchanged".into() } else { "order-changed".to_string() });
    }
    let nonempty = (0..cfg.inner.shards).filter(|s| cfg.inner.assign.iter().any(|a| a == s)).count();
    Ok(CaseOk {
        nontrivial: distinct >= 2 && (nonempty >= 2 || cfg.inner.shards == 1),
        digest: digest(&(format!("{:?}", cfg.row), cfg.inner.shards, cfg.inner.malicious, &vals, &cfg.inner.assign)),
        labels,
        sample: json!({"case": cj, "elapsed_ms": res.elapsed.as_millis() as u64}),
    })
}

fn tampered(env: &Env, src: &mut Src<'_>) -> CaseResult {
    let (mut cfg, mut vals, mut labels) = gen_cfg(env, src, Some(true));
    cfg.inner.workers = 0;
    if vals.len() < 2 {
        // a shuffle of 0/1 rows has hardly any traffic to tamper with; give it a few rows
        let bits = cfg.row.bits();
        for _ in 0..4 {
            vals.push(src.bits_val(bits));
            cfg.inner.assign.push(src.idx(cfg.inner.shards));
        }
    }
    let cj0 = cfg_json(&cfg, &vals);
    let base = run_shuffle(&cfg, &vals);
    if base.timed_out {
        // a wall-clock limit on the honest baseline is no verdict
        HONEST_TIMEOUTS.fetch_add(1, std::sync::atomic::Ordering::SeqCst);
        return Ok(CaseOk::new(false, &0u8, serde_json::Value::Null).label("inconclusive:baseline-timeout").labels(labels));
    }
    if !base.all_ok() || check_output(&base, &vals, cfg.inner.shards).is_err() {
        return Err(violation("honest-error", format!("baseline shuffle failed: {}", base.summary()), cj0));
    }
    let corrupt = src.idx(3);
    let chans: Vec<(&ChannelKey, &Vec<usize>)> = base.catalogue.iter().filter(|(k, v)| k.source == corrupt && v.iter().any(|l| *l > 0)).collect();
    if chans.is_empty() {
        return Ok(CaseOk::new(false, &0u8, serde_json::Value::Null).label("no-channel"));
    }
    // stratify by the shuffle step (last gate component)
    let step_of = |k: &ChannelKey| k.gate.rsplit('/').next().unwrap_or("").to_string();
    let mut steps: Vec<String> = chans.iter().map(|(k, _)| step_of(k)).collect();
    steps.sort();
    steps.dedup();
    let step = steps[src.idx(steps.len())].clone();
    let cands: Vec<(&ChannelKey, &Vec<usize>)> = chans.iter().filter(|(k, _)| step_of(k) == step).copied().collect();
    let (key, chunks) = cands[src.idx(cands.len())];
    let ordinal = src.idx(chunks.len());
    let len = chunks[ordinal];
    if len == 0 {
        return Ok(CaseOk::new(false, &0u8, serde_json::Value::Null).label("empty-chunk"));
    }
    let (edit, ename) = if key.gate.contains("cardinality") && len <= 16 {
        (Edit::AddLe { elem: 0, stride: len, width: len, delta: 1 + src.below(8) as u128, modulus: None }, "add-small-cardinality")
    } else {
        super::c02::gen_edit(src, len)
    };
    cfg.inner.tamper = Some(Tamper { key: key.clone(), ordinal, edit: edit.clone() });
    let honest_ids = [(corrupt + 1) % 3, (corrupt + 2) % 3];
    cfg.inner.stop_on_error_of = (1 << honest_ids[0]) | (1 << honest_ids[1]);
    cfg.inner.timeout = (base.elapsed * 20).max(Duration::from_secs(4));
    let cj = json!({"base": cj0, "corrupt": corrupt, "gate": key.gate, "dest": key.dest, "shard": key.shard, "ordinal": ordinal, "edit": format!("{edit:?}")});
    let res = run_shuffle(&cfg, &vals);
    labels.push(format!("step:{step}"));
    labels.push(format!("edit:{ename}"));
    if !res.tamper_fired || !res.tamper_changed {
        return Ok(CaseOk::new(false, &0u8, serde_json::Value::Null).label("edit-not-effective").labels(labels));
    }
    let failed = honest_ids.iter().any(|h| res.outcomes[*h].iter().any(|o| o.as_ref().is_some_and(|o| !o.is_ok())));
    let verdict = if failed {
        "detected"
    } else if res.timed_out || honest_ids.iter().any(|h| res.outcomes[*h].iter().any(Option::is_none)) {
        "no-output"
    } else {
        // both honest helpers returned rows on every shard: their shares must still determine
        // exactly the input multiset
        let mut all = vec![];
        for s in 0..cfg.inner.shards {
            let get = |h: usize| match &res.outcomes[h][s] {
                Some(HelperOutcome::Ok(v)) => v.clone(),
                _ => unreachable!(),
            };
            match reconstruct2(&get(honest_ids[0]), &get(honest_ids[1])) {
                Ok(r) => all.extend(r),
                Err(e) => return Err(violation(format!("tampered-accepted:{step}"), format!("H{} tampered {} -> H{}; honest helpers returned rows that are not a consistent sharing: {e}", corrupt + 1, key.gate, key.dest + 1), cj)),
            }
        }
        if multiset(all.iter().copied()) != multiset(vals.iter().copied()) {
            return Err(violation(format!("tampered-accepted:{step}"), format!("H{} tampered {} -> H{}; honest helpers returned rows whose multiset differs from the input", corrupt + 1, key.gate, key.dest + 1), cj));
        }
        "unchanged"
    };
    labels.push(format!("verdict:{verdict}"));
    if verdict != "detected" {
        labels.push(format!("{verdict}@{step}"));
    }
    Ok(CaseOk { nontrivial: true, digest: digest(&(format!("{:?}", cfg.row), cfg.inner.shards, corrupt, &key.gate, key.dest, key.shard, ename)), labels, sample: json!({"case": cj, "verdict": verdict}) })
}

pub fn subs(_env: &Env) -> Vec<Sub> {
    vec![
        Sub::random("honest", 2200, 6000, 150_000, honest,
            "row types {BA32, BA64, BA112, IndistinguishableHybridReport<BA8,BA3> and <BA8,BA16>, AggregateableHybridReport<BA8,BA3>} (report rows are built from and read back as fields, independent of how the code packs them into the shuffle share) x shards {1,2,3,5} x total rows 0..60 (thorough 0..2000) incl. 0, 1, fewer rows than shards, duplicates x assignment {round-robin, random, all-on-one-shard, blocks} x {semi-honest, malicious} x runtime; oracle: on every shard the three helpers hold the same number of consistently shared rows and the multiset over all shards equals the input multiset; non-trivial = >= 2 distinct rows and >= 2 non-empty input shards (or a single shard)")
        .shrink_iters(40),
        Sub::random("tampered", 2200, 3000, 100_000, tampered,
            "malicious shuffle; honest baseline gives the channel catalogue; one length-preserving edit (bit flip, xor, replace, additive) on one chunk of one channel of the corrupt helper, chosen by shuffle step first (transfer x/y, transfer c, cardinality, tag generation multiplies, verification hashes, ...); accept iff an honest helper errs, or no output, or the honest helpers' rows still reconstruct to the input multiset")
        .shrink_iters(16),
    ]
}
