// C06 - shared randomness is pairwise identical, step-separated and never reused.

use std::collections::HashMap;

use aes::{Aes256, cipher::{BlockEncrypt, KeyInit}};
use generic_array::GenericArray;
use hkdf::Hkdf;
use rand::{SeedableRng, rngs::StdRng};
use serde_json::json;
use sha2::Sha256;
use typenum::{U1, U8};

use super::{common::*, mpc::*};
use crate::{
    ff::{Fp31, Fp32BitPrime, Fp61BitPrime, Gf32Bit, Serializable, U128Conversions, boolean_array::{BA3, BA8, BA20, BA64, BA112, BA256}},
    protocol::{
        Gate, RecordId,
        context::{Context, ShardedContext},
        prss::{Endpoint, Seed, SeededEndpointSetup, SharedRandomness},
    },
    test_fixture::{TestWorld, TestWorldConfig, WithShards, make_participants},
};

pub const LEVEL: &str = "exploration";

const STEP_POOL: [&str; 12] = ["a", "a/b", "ab", "a/b/c", "a/bc", "A", "a ", "protocol/x", "protocol/x/y", "protocol/xy", "b", "protocol"];

fn gen_index(src: &mut Src<'_>) -> u32 {
    match src.below(8) {
        0 => 0,
        1 => 1,
        2 => 1 << 31,
        3 => u32::MAX - 1,
        4 => u32::MAX,
        5 => 1 << src.below(32),
        _ => src.raw(),
    }
}

/// reference model of the generator: HKDF-SHA256(seed) expanded with the step string as AES-256
/// key, value = AES(i) xor i with i = (index << 32) + offset as little-endian u128
fn ref_block(seed: &[u8; 32], step: &str, index: u32, offset: u32) -> u128 {
    let hk = Hkdf::<Sha256>::new(None, seed);
    let mut key = [0u8; 32];
    hk.expand(step.as_bytes(), &mut key).unwrap();
    let cipher = Aes256::new(aes::cipher::generic_array::GenericArray::from_slice(&key));
    let i = u128::from((u64::from(index) << 32) + u64::from(offset));
    let mut buf = i.to_le_bytes();
    cipher.encrypt_block(aes::cipher::generic_array::GenericArray::from_mut_slice(&mut buf));
    u128::from_le_bytes(buf) ^ i
}

fn seeded_endpoints(seeds: &[[u8; 32]; 3]) -> [Endpoint; 3] {
    // seeds[i] is shared between helper i (right) and helper i+1 (left)
    let sd = |b: &[u8; 32]| Seed::deserialize(&GenericArray::from(*b)).unwrap();
    std::array::from_fn(|h| SeededEndpointSetup::from_seeds(sd(&seeds[(h + 2) % 3]), sd(&seeds[h])).setup())
}

/// (a)+(b): agreement between neighbours, separation across (pair, step, index, offset) - no
/// repeated and no related values; the reference model only feeds a label
fn draws(_env: &Env, src: &mut Src<'_>) -> CaseResult {
    let seeds: [[u8; 32]; 3] = std::array::from_fn(|_| {
        let b = src.bytes(32);
        <[u8; 32]>::try_from(b.as_slice()).unwrap()
    });
    let eps = seeded_endpoints(&seeds);
    let nsteps = src.urange(2, 6);
    let mut steps: Vec<&str> = vec![];
    for _ in 0..nsteps {
        let s = STEP_POOL[src.idx(STEP_POOL.len())];
        if !steps.contains(&s) {
            steps.push(s);
        }
    }
    let mut seen: HashMap<u128, (usize, String, u32, u32)> = HashMap::new();
    // differences of consecutive blocks of one draw: a derivation whose outputs are related
    // (counter-like, xor-linear in the offset) repeats them
    let mut seen_rel: HashMap<(u8, u128), (usize, String, u32, u32)> = HashMap::new();
    let mut ref_differs = false;
    let mut n_draws = 0usize;
    let mut kinds: Vec<String> = vec![];
    for step in &steps {
        let gate = Gate::from(*step);
        let prss: Vec<_> = eps.iter().map(|e| e.indexed(&gate)).collect();
        let mut used_idx: Vec<u32> = vec![];
        // (index, forced kind): a draw of the full 2049 blocks is followed by a single-block draw
        // for the next index, so that an encoding of (index, offset) that lets the last offset of
        // one index collide with the first offset of the next one shows up as a repeated value
        let mut todo: Vec<(u32, Option<u64>)> = (0..src.urange(1, 5)).map(|_| (gen_index(src), None)).collect();
        while !todo.is_empty() {
            let (index, forced) = todo.remove(0);
            if used_idx.contains(&index) {
                continue; // drawing one (step, index) twice is the misuse checked in `api_misuse`
            }
            used_idx.push(index);
            let kind = forced.unwrap_or_else(|| src.below(10));
            if kind == 8 && index < u32::MAX {
                todo.insert(0, (index + 1, Some(0)));
            }
            let cj = json!({"step": step, "index": index, "kind": kind});
            // number of 128-bit blocks this draw consumes and the raw values per helper
            let blocks: usize = match kind {
                0..=5 => 1,
                6 => 2,
                7 => 32,
                8 => 2049, // offsets 0..=2048: the cap is inclusive
                _ => 8,
            };
            kinds.push(format!("blocks:{blocks}"));
            let mut raw: Vec<Vec<(u128, u128)>> = vec![];
            for p in &prss {
                let v: Vec<(u128, u128)> = match kind {
                    0..=5 => {
                        let x = p.generate_values(index);
                        vec![x]
                    }
                    _ => {
                        // chunks of 8 blocks (or fewer for the small sizes)
                        if blocks >= 8 && blocks % 8 == 0 {
                            p.generate_chunks_iter::<_, U8>(index).take(blocks / 8).flat_map(|(l, r)| l.into_iter().zip(r).collect::<Vec<_>>()).collect()
                        } else {
                            p.generate_chunks_iter::<_, U1>(index).take(blocks).map(|(l, r)| (l[0], r[0])).collect()
                        }
                    }
                };
                raw.push(v);
            }
            for h in 0..3 {
                let nxt = (h + 1) % 3;
                for off in 0..blocks {
                    if raw[h][off].1 != raw[nxt][off].0 {
                        return Err(violation("neighbours-disagree", format!("step {step:?} index {index} offset {off}: H{}.right != H{}.left", h + 1, nxt + 1), cj));
                    }
                    // The derivation itself (HKDF-SHA256 -> AES-256 MMO over (index << 32) + offset) is
                    // not part of the property: a different but sound derivation must not alarm.
                    // Agreement with the reference model is reported as a label only.
                    if raw[h][off].1 != ref_block(&seeds[h], step, index, off as u32) {
                        ref_differs = true;
                    }
                    n_draws += 1;
                    if let Some(prev) = seen.insert(raw[h][off].1, (h, (*step).to_string(), index, off as u32)) {
                        return Err(violation("values-repeat", format!("the same 128-bit value for (pair {h}, {step:?}, {index}, {off}) and {prev:?}"), cj));
                    }
                    if off + 1 < blocks {
                        let (a, b) = (raw[h][off].1, raw[h][off + 1].1);
                        for (tag, d) in [(0u8, a ^ b), (1u8, b.wrapping_sub(a))] {
                            if let Some(prev) = seen_rel.insert((tag, d), (h, (*step).to_string(), index, off as u32)) {
                                return Err(violation("values-related", format!("consecutive blocks at (pair {h}, {step:?}, {index}, {off}) and at {prev:?} differ by the same {} 0x{d:032x}", if tag == 0 { "xor" } else { "difference" }), cj));
                            }
                        }
                    }
                }
            }
        }
    }
    // typed draws are functions of the raw block (checked on fresh indices of a separate step)
    let gate = Gate::from("typed");
    let prss: Vec<_> = eps.iter().map(|e| e.indexed(&gate)).collect();
    let base = src.raw() >> 4;
    macro_rules! typed {
        ($k:expr, $t:ty, $conv:expr) => {{
            let idx = base + $k;
            let vals: Vec<($t, $t)> = prss.iter().map(|p| p.generate::<($t, $t), _>(idx)).collect();
            for h in 0..3 {
                if vals[h].1 != vals[(h + 1) % 3].0 {
                    return Err(violation("neighbours-disagree", format!("typed draw {} at index {idx}", stringify!($t)), json!({"type": stringify!($t), "index": idx})));
                }
                let want: $t = $conv(ref_block(&seeds[h], "typed", idx, 0));
                if vals[h].1 != want {
                    ref_differs = true;
                }
            }
        }};
    }
    typed!(0, Fp31, |b: u128| Fp31::truncate_from(b));
    typed!(1, Fp32BitPrime, |b: u128| Fp32BitPrime::truncate_from(b));
    typed!(2, Fp61BitPrime, |b: u128| Fp61BitPrime::truncate_from(b));
    typed!(3, BA3, |b: u128| BA3::truncate_from(b));
    typed!(4, BA8, |b: u128| BA8::truncate_from(b));
    typed!(5, BA20, |b: u128| BA20::truncate_from(b));
    typed!(6, BA64, |b: u128| BA64::truncate_from(b));
    typed!(7, BA112, |b: u128| BA112::truncate_from(b));
    typed!(8, Gf32Bit, |b: u128| Gf32Bit::truncate_from(b));
    {
        // BA256 consumes two blocks: low 128 bits then high 128 bits
        let idx = base + 9;
        let vals: Vec<(BA256, BA256)> = prss.iter().map(|p| p.generate::<(BA256, BA256), _>(idx)).collect();
        for h in 0..3 {
            if vals[h].1 != vals[(h + 1) % 3].0 {
                return Err(violation("neighbours-disagree", format!("typed draw BA256 at index {idx}"), json!({"index": idx})));
            }
            let (lo, hi) = (ref_block(&seeds[h], "typed", idx, 0), ref_block(&seeds[h], "typed", idx, 1));
            let mut bytes = [0u8; 32];
            bytes[..16].copy_from_slice(&lo.to_le_bytes());
            bytes[16..].copy_from_slice(&hi.to_le_bytes());
            if vals[h].1 != BA256::deserialize_infallible(&GenericArray::from(bytes)) {
                ref_differs = true;
            }
            // the two halves of a two-block value are different blocks
            let b = {
                let mut g = GenericArray::default();
                vals[h].1.serialize(&mut g);
                g
            };
            if b[..16] == b[16..] {
                return Err(violation("values-repeat", format!("both 128-bit halves of the BA256 drawn at index {idx} are equal"), json!({"index": idx})));
            }
        }
    }
    // sequential streams: value k of the stream is the low 64 bits of block (index k, offset 0)
    {
        use rand::RngCore;
        let g = Gate::from("sequential");
        let mut rngs: Vec<_> = eps.iter().map(|e| e.sequential(&g)).collect();
        let count = 1 + (base as usize % 40);
        let mut seq_seen: std::collections::HashSet<(usize, u64)> = std::collections::HashSet::new();
        for k in 0..count {
            let vals: Vec<(u64, u64)> = rngs.iter_mut().map(|(l, r)| (l.next_u64(), r.next_u64())).collect();
            for h in 0..3 {
                if vals[h].1 != vals[(h + 1) % 3].0 {
                    return Err(violation("neighbours-disagree", format!("sequential stream, value {k}"), json!({"k": k})));
                }
                if vals[h].1 != ref_block(&seeds[h], "sequential", k as u32, 0) as u64 {
                    ref_differs = true;
                }
                if !seq_seen.insert((h, vals[h].1)) {
                    return Err(violation("values-repeat", format!("sequential stream of pair {h} repeats a 64-bit value at position {k}"), json!({"k": k})));
                }
            }
        }
    }
    kinds.push(if ref_differs { "reference-model:differs".into() } else { "reference-model:matches".into() });
    kinds.sort();
    kinds.dedup();
    Ok(CaseOk::new(n_draws > 0, &(seeds, steps.len(), n_draws, base), json!({"steps": steps, "draws_compared": n_draws})).labels(kinds))
}

/// offset cap and API misuse: beyond 2^11 blocks per index panics; a (step, index) drawn twice
/// panics (debug builds); sequential after indexed / twice panics; indexed twice is fine
fn api_misuse(_env: &Env, src: &mut Src<'_>) -> CaseResult {
    let which = src.raw() % 6;
    let mut rng = StdRng::seed_from_u64(u64::from(which) + 17);
    let eps = make_participants(&mut rng);
    let gate = Gate::from("misuse");
    let cj = json!({"scenario": which});
    let bad = |what: &str| Err(violation(format!("misuse:{what}"), format!("{what}: expected a panic / no panic but observed the opposite"), cj.clone()));
    match which {
        0 => {
            // exactly at the cap: offsets 0..=2048 are accepted (2049 blocks)
            let p = eps[0].indexed(&gate);
            if catch(|| p.generate_chunks_iter::<_, U1>(5u32).take(2049).count()).is_err() {
                return bad("offset-cap-inclusive");
            }
        }
        1 => {
            let p = eps[0].indexed(&gate);
            if catch(|| p.generate_chunks_iter::<_, U1>(5u32).take(2050).count()).is_ok() {
                return bad("offset-beyond-cap-accepted");
            }
        }
        2 => {
            let p = eps[0].indexed(&gate);
            let _ = p.generate_values(7u32);
            if catch(|| p.generate_values(7u32)).is_ok() {
                return bad("same-index-twice-accepted");
            }
        }
        3 => {
            let _ = eps[0].indexed(&gate);
            if catch(|| eps[0].sequential(&gate)).is_ok() {
                return bad("sequential-after-indexed-accepted");
            }
        }
        4 => {
            let _ = eps[0].sequential(&gate);
            if catch(|| eps[0].sequential(&gate)).is_ok() {
                return bad("sequential-twice-accepted");
            }
            if catch(|| eps[0].indexed(&gate)).is_ok() {
                return bad("indexed-after-sequential-accepted");
            }
        }
        _ => {
            let a = eps[0].indexed(&gate);
            let b = eps[0].indexed(&gate);
            let x = a.generate_values(1u32);
            if catch(|| b.generate_values(2u32)).is_err() || x == eps[1].indexed(&gate).generate_values(3u32) {
                return bad("indexed-twice-rejected");
            }
            // sequential streams of neighbours agree
            let g2 = Gate::from("misuse-seq");
            let (_, mut r0) = eps[0].sequential(&g2);
            let (mut l1, _) = eps[1].sequential(&g2);
            use rand::RngCore;
            for _ in 0..100 {
                if r0.next_u64() != l1.next_u64() {
                    return bad("sequential-neighbours-disagree");
                }
            }
        }
    }
    Ok(CaseOk::new(true, &which, cj))
}

/// (d) cross-shard randomness
fn cross_shard(_env: &Env, src: &mut Src<'_>) -> CaseResult {
    fn go<const S: usize>(seed: u64, idx: u32) -> Result<(), CaseErr> {
        let mut wc = TestWorldConfig::default();
        wc.seed = seed;
        let world = TestWorld::<WithShards<S>>::with_shards(&wc);
        let ctxs = world.contexts();
        let cj = json!({"shards": S, "seed": seed.to_string(), "index": idx});
        let mut cross: Vec<Vec<(u128, u128)>> = vec![];
        let mut own: Vec<Vec<(u128, u128)>> = vec![];
        for h in 0..3 {
            cross.push(ctxs[h].iter().map(|c| c.cross_shard_prss().generate_values(idx)).collect());
            own.push(ctxs[h].iter().map(|c| c.prss().generate_values(idx)).collect());
        }
        for h in 0..3 {
            for s in 0..S {
                if cross[h][s] != cross[h][0] {
                    return Err(violation("cross-shard-differs", format!("helper {h}: shard {s} derives different cross-shard randomness than shard 0"), cj));
                }
                if cross[h][s].1 != cross[(h + 1) % 3][s].0 {
                    return Err(violation("cross-shard-neighbours-disagree", format!("helper {h} shard {s}"), cj));
                }
                if own[h][s].1 != own[(h + 1) % 3][s].0 {
                    return Err(violation("neighbours-disagree", format!("per-shard PRSS, helper {h} shard {s}"), cj));
                }
                if own[h][s] == cross[h][s] {
                    return Err(violation("cross-shard-equals-per-shard", format!("helper {h} shard {s}"), cj));
                }
                for s2 in 0..s {
                    if own[h][s] == own[h][s2] {
                        return Err(violation("per-shard-prss-repeats", format!("helper {h}: shards {s2} and {s} share per-shard randomness"), cj));
                    }
                }
            }
        }
        Ok(())
    }
    let shards = src.pick(&[1usize, 2, 3, 5]);
    let seed = src.seed();
    let idx = gen_index(src);
    block_on(async {
        match shards {
            1 => go::<1>(seed, idx),
            2 => go::<2>(seed, idx),
            3 => go::<3>(seed, idx),
            _ => go::<5>(seed, idx),
        }
    })?;
    Ok(CaseOk::new(true, &(shards, seed, idx), json!({"shards": shards, "index": idx})).label(format!("shards:{shards}")))
}

/// (c) no protocol execution draws a (step, index) twice: run the generators of the other
/// properties under the debug-build reuse detector and look for its panic
fn sweep(env: &Env, src: &mut Src<'_>) -> CaseResult {
    let which = src.below(4);
    let name = ["hybrid(C01)", "dzkp-batches(C03)", "mac-batches(C04)", "shuffle(C05)"][which as usize];
    let r = match which {
        0 => super::c01::honest(env, src),
        1 => super::c03::e2e(env, src),
        2 => super::c04::attack(env, src),
        _ => super::c05::honest(env, src),
    };
    const MARK: &str = "Generated randomness for index";
    let reuse = |s: &str| s.contains(MARK);
    let mut hit: Option<String> = None;
    if let Err(CaseErr::Violation(v)) = &r {
        if reuse(&v.message) || reuse(&v.signature) {
            hit = Some(v.message.clone());
        }
    }
    if let Some(m) = hit {
        // key of the generator that was reused = step; keep it out of the signature tail
        let step = m.split("key '").nth(1).and_then(|s| s.split('\'').next()).unwrap_or("?").to_string();
        let short: String = step.split('/').skip(2).take(3).collect::<Vec<_>>().join("/");
        return Err(violation(format!("prss-reuse:{short}"), format!("{name}: {m}"), json!({"execution": name})));
    }
    let (nontrivial, dig) = match &r {
        Ok(ok) => (ok.nontrivial, ok.digest),
        _ => (false, 0),
    };
    Ok(CaseOk { nontrivial, digest: dig ^ which, labels: vec![format!("execution:{name}"), if r.is_ok() { "completed".into() } else { "other-property-verdict".to_string() }], sample: json!({"execution": name}) })
}

pub fn subs(_env: &Env) -> Vec<Sub> {
    vec![
        Sub::random("draws", 400, 3000, 100_000, draws,
            "three endpoints built from generated 32-byte seeds; 2-6 steps from a pool with near-duplicates and prefixes; indices {0,1,2^31,u32::MAX-1,u32::MAX,2^k,random}; draws of 1, 2, 8, 32 and 2049 blocks (offsets 0..=2^11, the inclusive cap); a 2049-block draw is followed by a draw for the next index; every block: H_i.right = H_{i+1}.left; all blocks of the case are pairwise distinct and so are the xor / arithmetic differences of consecutive blocks (no repeated or related values across steps, indices, offsets); typed draws (three prime fields, BA3..BA256, Gf32Bit) and sequential streams agree between neighbours and do not repeat. Agreement with an independent HKDF-SHA256 -> AES-256 (AES(i) xor i) model of the current derivation is recorded as a label only: the derivation is not part of the property; non-trivial = at least one block compared")
        .shrink_iters(100),
        Sub::exhaustive("api_misuse", 6, 6, api_misuse,
            "offset cap inclusive / beyond; the same (step, index) twice panics; sequential after indexed and sequential twice panic; indexed twice works; sequential streams of neighbours agree"),
        Sub::random("cross_shard", 16, 300, 10_000, cross_shard,
            "TestWorld with 1, 2, 3, 5 shards (a single shard per helper included): cross-shard randomness identical on all shards of a helper, matches the neighbour helper's shards, differs from per-shard PRSS, per-shard PRSS differs between shards and still matches neighbours"),
        Sub::random("sweep", 4100, 400, 12_000, sweep,
            "executions from the generators of C01 (whole hybrid query, all configurations), C03 (DZKP batches of many sizes, validate_record batching), C04 (MAC validation batches, totals 1..40 x active 2..16), C05 (shuffles): the debug-build detector must never report `Generated randomness for index ... twice`; non-trivial as in the source property")
        .shrink_iters(10),
    ]
}
