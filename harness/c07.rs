// C07 - secure arithmetic and Boolean circuits compute the stated plaintext functions.
//
// Every interactive building block is run under TestWorld with inputs shared by the harness
// (masks from a seeded StdRng), in semi-honest mode and - where the block is defined for it - in
// the proof-carrying mode (DZKP-malicious with validation, MAC-malicious for the prime-field
// blocks). The three output shares are reconstructed by the harness, which also checks that they
// form a consistent replicated sharing (H_i.right == H_{i+1}.left), and compared with an
// independent plaintext reference (limb arithmetic on 512-bit integers, u128 modular / carry-less
// products, curve25519-dalek + HKDF computed directly).

use std::{cmp::Ordering, future::Future, pin::Pin, time::Duration};

use curve25519_dalek::{Scalar, ristretto::RistrettoPoint};
use futures::{StreamExt, future::try_join_all, stream, stream::FuturesUnordered};
use generic_array::GenericArray;
use rand::{Rng, RngCore, SeedableRng, rngs::StdRng};
use serde_json::{Value, json};

use super::common::*;
use crate::{
    error::Error,
    ff::{
        Field, Fp31, Fp32BitPrime, Fp61BitPrime, GaloisField, Gf2, Gf8Bit, Gf32Bit, PrimeField, Serializable,
        U128Conversions,
        boolean::Boolean,
        boolean_array::{BA3, BA5, BA8, BA16, BA20, BA32, BA64, BA256, BooleanArray},
        curve_points::RP25519,
        ec_prime_field::Fp25519,
    },
    helpers::{Role, TotalRecords},
    protocol::{
        RecordId,
        basics::{
            BooleanArrayMul, BooleanProtocols, Reshare, Reveal, SecureMul, ShareKnownValue, select,
            share_validation::validate_replicated_shares,
        },
        boolean::{
            or::{bool_or, or},
            step::DefaultBitStep,
        },
        context::{
            Context, DZKPUpgraded, MacUpgraded, MaliciousContext, SemiHonestContext, TEST_DZKP_STEPS, UpgradableContext,
            UpgradedContext, Validator, dzkp_validator::DZKPValidator, upgrade::Upgradable,
        },
        ipa_prf::{
            aggregation::aggregate_values,
            boolean_ops::{
                addition_sequential::{integer_add, integer_sat_add},
                comparison_and_subtraction_sequential::{compare_geq, compare_gt, integer_sat_sub, integer_sub},
                convert_to_fp25519, ipa_verif_h7_integer_mul as integer_mul,
            },
            prf_eval::{PrfSharing, eval_dy_prf},
        },
        prss::FromPrss,
    },
    secret_sharing::{
        BitDecomposed, FieldSimd, SharedValue, SharedValueArray, Vectorizable,
        replicated::{
            ReplicatedSecretSharing,
            malicious::{ExtendableField, ThisCodeIsAuthorizedToDowngradeFromMalicious},
            semi_honest::AdditiveShare as Rep,
        },
    },
    test_fixture::{TestWorld, TestWorldConfig},
};

pub const LEVEL: &str = "exploration";

// ------------------------------------------------------------------------------------------
// 512-bit unsigned integers (little-endian u64 limbs): the plaintext reference arithmetic
// ------------------------------------------------------------------------------------------

#[derive(Clone, Copy, PartialEq, Eq, Hash, Debug)]
pub struct Big(pub [u64; 8]);

impl Big {
    pub const ZERO: Big = Big([0; 8]);
    pub fn from_u128(v: u128) -> Big {
        let mut b = Big::ZERO;
        b.0[0] = v as u64;
        b.0[1] = (v >> 64) as u64;
        b
    }
    pub fn low_u128(&self) -> u128 {
        u128::from(self.0[0]) | (u128::from(self.0[1]) << 64)
    }
    pub fn bit(&self, i: usize) -> bool {
        i < 512 && (self.0[i / 64] >> (i % 64)) & 1 == 1
    }
    pub fn set_bit(&mut self, i: usize, v: bool) {
        if v {
            self.0[i / 64] |= 1u64 << (i % 64);
        } else {
            self.0[i / 64] &= !(1u64 << (i % 64));
        }
    }
    pub fn pow2(k: usize) -> Big {
        let mut b = Big::ZERO;
        b.set_bit(k, true);
        b
    }
    /// 2^n - 1
    pub fn ones(n: usize) -> Big {
        Big::pow2(n).sub(&Big::from_u128(1))
    }
    /// low n bits
    pub fn mask(&self, n: usize) -> Big {
        let mut r = *self;
        for (i, limb) in r.0.iter_mut().enumerate() {
            let lo = i * 64;
            if n <= lo {
                *limb = 0;
            } else if n < lo + 64 {
                *limb &= (1u64 << (n - lo)) - 1;
            }
        }
        r
    }
    pub fn add(&self, o: &Big) -> Big {
        let mut r = [0u64; 8];
        let mut c = 0u128;
        for i in 0..8 {
            let s = u128::from(self.0[i]) + u128::from(o.0[i]) + c;
            r[i] = s as u64;
            c = s >> 64;
        }
        Big(r)
    }
    pub fn not(&self) -> Big {
        let mut r = self.0;
        for l in &mut r {
            *l = !*l;
        }
        Big(r)
    }
    /// wrapping at 2^512
    pub fn sub(&self, o: &Big) -> Big {
        self.add(&o.not()).add(&Big::from_u128(1))
    }
    /// low 512 bits of the product
    pub fn mul(&self, o: &Big) -> Big {
        let mut r = [0u64; 8];
        for i in 0..8 {
            let mut c = 0u128;
            for j in 0..(8 - i) {
                let t = u128::from(self.0[i]) * u128::from(o.0[j]) + u128::from(r[i + j]) + c;
                r[i + j] = t as u64;
                c = t >> 64;
            }
        }
        Big(r)
    }
    pub fn or(&self, o: &Big) -> Big {
        let mut r = self.0;
        for i in 0..8 {
            r[i] |= o.0[i];
        }
        Big(r)
    }
    pub fn cmp(&self, o: &Big) -> Ordering {
        for i in (0..8).rev() {
            match self.0[i].cmp(&o.0[i]) {
                Ordering::Equal => {}
                other => return other,
            }
        }
        Ordering::Equal
    }
    pub fn is_zero(&self) -> bool {
        self.0.iter().all(|l| *l == 0)
    }
    pub fn hex(&self) -> String {
        let mut s = String::new();
        let mut started = false;
        for i in (0..8).rev() {
            if started {
                s.push_str(&format!("{:016x}", self.0[i]));
            } else if self.0[i] != 0 {
                s.push_str(&format!("{:x}", self.0[i]));
                started = true;
            }
        }
        if started { format!("0x{s}") } else { "0x0".into() }
    }
    pub fn from_bits(bits: impl Iterator<Item = bool>) -> Big {
        let mut b = Big::ZERO;
        for (i, v) in bits.enumerate() {
            if v {
                b.set_bit(i, true);
            }
        }
        b
    }
    pub fn random(rng: &mut StdRng, bits: usize) -> Big {
        let mut b = Big::ZERO;
        for l in &mut b.0 {
            *l = rng.next_u64();
        }
        b.mask(bits)
    }
}

/// boundary-biased `bits`-wide value: 0, 1, all-ones, all-ones-1, 2^k, 2^k-1, 2^k+1, random
fn big_val(rng: &mut StdRng, bits: usize, class: u64) -> Big {
    let k = if bits == 0 { 0 } else { rng.gen_range(0..bits) };
    let one = Big::from_u128(1);
    let v = match class {
        0 => Big::ZERO,
        1 => one,
        2 => Big::ones(bits),
        3 => Big::ones(bits).sub(&one),
        4 => Big::pow2(k),
        5 => Big::pow2(k).sub(&one),
        6 => Big::pow2(k).add(&one),
        _ => Big::random(rng, bits),
    };
    v.mask(bits)
}

const PAIR_CLASSES: [&str; 12] = [
    "zero-zero", "ones-ones", "equal", "carry-chain-2^k-1+1", "carry-chain-full", "sum-at-limit", "neighbours",
    "boundary-boundary", "pow2-pow2", "random", "random-small-y", "x<y-msb",
];

/// operand pair of widths (lx, ly) of one of the PAIR_CLASSES
fn big_pair(rng: &mut StdRng, lx: usize, ly: usize, class: usize) -> (Big, Big) {
    let one = Big::from_u128(1);
    let lm = lx.min(ly);
    let (x, y) = match class {
        0 => (Big::ZERO, Big::ZERO),
        1 => (Big::ones(lx), Big::ones(ly)),
        2 => {
            let c = rng.gen_range(0..10);
            let v = big_val(rng, lm, c);
            (v, v)
        }
        3 => {
            let k = if lx == 0 { 0 } else { rng.gen_range(1..=lx) };
            (Big::ones(k), one)
        }
        4 => (Big::ones(lx), one),
        5 => {
            // x + y in {2^lx - 2, 2^lx - 1, 2^lx, 2^lx + 1}
            let y = Big::random(rng, lm);
            let d = rng.gen_range(0..4u128);
            let x = Big::ones(lx).sub(&y).add(&Big::from_u128(d)).sub(&one);
            (x, y)
        }
        6 => {
            let c = rng.gen_range(0..10);
            let v = big_val(rng, lm, c);
            if rng.r#gen() { (v, v.add(&one)) } else { (v.add(&one), v) }
        }
        7 => {
            let (c1, c2) = (rng.gen_range(0..8), rng.gen_range(0..8));
            (big_val(rng, lx, c1), big_val(rng, ly, c2))
        }
        8 => {
            let (c1, c2) = (rng.gen_range(4..7), rng.gen_range(4..7));
            (big_val(rng, lx, c1), big_val(rng, ly, c2))
        }
        10 => (Big::random(rng, lx), Big::random(rng, ly.min(8))),
        11 => {
            // differ only in the most significant bit of the common width
            let v = Big::random(rng, lm.saturating_sub(1));
            let mut w = v;
            if lm > 0 {
                w.set_bit(lm - 1, true);
            }
            (v, w)
        }
        _ => (Big::random(rng, lx), Big::random(rng, ly)),
    };
    (x.mask(lx), y.mask(ly))
}

// ------------------------------------------------------------------------------------------
// own sharing / reconstruction
// ------------------------------------------------------------------------------------------

type BD<const N: usize> = BitDecomposed<Rep<Boolean, N>>;
/// `m[bit][lane]`
type Mat = Vec<Vec<bool>>;

#[derive(Clone, Copy, Debug, PartialEq, Eq, Hash)]
pub enum MaskMode {
    Zero,
    Ones,
    Random,
}

impl MaskMode {
    fn pick(src: &mut Src<'_>) -> Self {
        match src.below(8) {
            0 => MaskMode::Zero,
            1 => MaskMode::Ones,
            _ => MaskMode::Random,
        }
    }
    fn bit(self, rng: &mut StdRng) -> bool {
        match self {
            MaskMode::Zero => false,
            MaskMode::Ones => true,
            MaskMode::Random => rng.r#gen(),
        }
    }
    fn name(self) -> &'static str {
        match self {
            MaskMode::Zero => "masks:zero",
            MaskMode::Ones => "masks:ones",
            MaskMode::Random => "masks:random",
        }
    }
}

fn share_row<const N: usize>(row: &[bool], rng: &mut StdRng, mm: MaskMode) -> [Rep<Boolean, N>; 3]
where
    Boolean: Vectorizable<N>,
{
    debug_assert_eq!(row.len(), N);
    let s1: Vec<bool> = (0..N).map(|_| mm.bit(rng)).collect();
    let s2: Vec<bool> = (0..N).map(|_| mm.bit(rng)).collect();
    let s3: Vec<bool> = (0..N).map(|i| row[i] ^ s1[i] ^ s2[i]).collect();
    let mk = |l: &Vec<bool>, r: &Vec<bool>| Rep::<Boolean, N>::from_fns(|i| Boolean::from(l[i]), |i| Boolean::from(r[i]));
    [mk(&s1, &s2), mk(&s2, &s3), mk(&s3, &s1)]
}

fn share_mat<const N: usize>(m: &Mat, rng: &mut StdRng, mm: MaskMode) -> [BD<N>; 3]
where
    Boolean: Vectorizable<N>,
{
    let mut out: [Vec<Rep<Boolean, N>>; 3] = [vec![], vec![], vec![]];
    for row in m {
        let [a, b, c] = share_row::<N>(row, rng, mm);
        out[0].push(a);
        out[1].push(b);
        out[2].push(c);
    }
    out.map(BitDecomposed::new)
}

fn lanes_of<const N: usize>(s: &Rep<Boolean, N>) -> (Vec<bool>, Vec<bool>)
where
    Boolean: Vectorizable<N>,
{
    (
        s.left_arr().clone().into_iter().map(bool::from).collect(),
        s.right_arr().clone().into_iter().map(bool::from).collect(),
    )
}

/// reconstruct one vector of bits, checking the replicated-sharing invariant
fn recon_row<const N: usize>(s: [&Rep<Boolean, N>; 3]) -> Result<Vec<bool>, String>
where
    Boolean: Vectorizable<N>,
{
    let l: Vec<(Vec<bool>, Vec<bool>)> = s.iter().map(|x| lanes_of::<N>(x)).collect();
    for h in 0..3 {
        if l[h].1 != l[(h + 1) % 3].0 {
            let lane = (0..N).find(|i| l[h].1[*i] != l[(h + 1) % 3].0[*i]).unwrap_or(0);
            return Err(format!("H{}.right != H{}.left at lane {lane}", h + 1, (h + 1) % 3 + 1));
        }
    }
    Ok((0..N).map(|i| l[0].0[i] ^ l[1].0[i] ^ l[2].0[i]).collect())
}

fn recon_mat<const N: usize>(s: [&BD<N>; 3]) -> Result<Mat, String>
where
    Boolean: Vectorizable<N>,
{
    if s[0].len() != s[1].len() || s[0].len() != s[2].len() {
        return Err(format!("helpers returned different bit lengths {} / {} / {}", s[0].len(), s[1].len(), s[2].len()));
    }
    (0..s[0].len()).map(|b| recon_row::<N>([&s[0][b], &s[1][b], &s[2][b]]).map_err(|e| format!("bit {b}: {e}"))).collect()
}

fn lane_value(m: &Mat, lane: usize) -> Big {
    Big::from_bits(m.iter().map(|row| row[lane]))
}

fn mat_of(vals: &[Big], bits: usize) -> Mat {
    (0..bits).map(|b| vals.iter().map(|v| v.bit(b)).collect()).collect()
}

// ------------------------------------------------------------------------------------------
// world driver
// ------------------------------------------------------------------------------------------

fn mk_world(seed: u64) -> TestWorld {
    let mut wc = TestWorldConfig::default();
    wc.seed = seed;
    wc.timeout = None;
    TestWorld::new_with(&wc)
}

/// run `$body` (an async expression using the world `$w`) on a fresh runtime; the world has to be
/// created inside the runtime because its transports spawn tasks
macro_rules! in_world {
    ($seed:expr, |$w:ident| $body:expr) => {
        block_on(async {
            let $w = mk_world($seed);
            let r = $body;
            let _ = catch(move || drop($w));
            r
        })
    };
}

type BoxFut<'a, T> = Pin<Box<dyn Future<Output = Result<T, Error>> + 'a>>;

/// seconds without a verdict after which a case is declared hung (a case normally takes a few
/// milliseconds; the generous bound keeps a loaded machine from producing false alarms)
const HANG_SECS: u64 = 240;

/// Drive the three helper futures; the first error ends the run (the other helpers may wait for
/// the failed one forever).
async fn drive3<'a, T>(futs: Vec<BoxFut<'a, T>>) -> Result<[T; 3], String> {
    let mut fu = FuturesUnordered::new();
    for (h, f) in futs.into_iter().enumerate() {
        fu.push(async move { (h, f.await) });
    }
    let mut out: [Option<T>; 3] = [None, None, None];
    let deadline = tokio::time::Instant::now() + Duration::from_secs(HANG_SECS);
    let mut failure = None;
    loop {
        match tokio::time::timeout_at(deadline, fu.next()).await {
            Ok(Some((h, Ok(v)))) => out[h] = Some(v),
            Ok(Some((h, Err(e)))) => {
                failure = Some(format!("helper H{} returned {e:?}", h + 1));
                break;
            }
            Ok(None) => break,
            Err(_) => {
                failure = Some(format!("no result after {HANG_SECS}s (hang)"));
                break;
            }
        }
    }
    let _ = catch(move || drop(fu));
    match failure {
        Some(f) => Err(f.chars().take(400).collect()),
        None => Ok(out.map(|o| o.expect("all three helpers completed"))),
    }
}

#[derive(Clone, Copy, Debug, PartialEq, Eq, Hash)]
pub enum Mode {
    Sh,
    Mal,
}

impl Mode {
    fn name(self) -> &'static str {
        match self {
            Mode::Sh => "semi-honest",
            Mode::Mal => "malicious",
        }
    }
}

// ------------------------------------------------------------------------------------------
// Boolean circuits: helper-side code (generic over the base context, like production code)
// ------------------------------------------------------------------------------------------

#[derive(Clone, Copy, Debug, PartialEq, Eq, Hash)]
pub enum Op {
    Add,
    SatAdd,
    Gt,
    Mul,
    Or,
    Sub,
    Geq,
    SatSub,
    Select,
}

impl Op {
    fn name(self) -> &'static str {
        match self {
            Op::Add => "integer_add",
            Op::SatAdd => "integer_sat_add",
            Op::Gt => "compare_gt",
            Op::Mul => "integer_mul",
            Op::Or => "bool_or",
            Op::Sub => "integer_sub",
            Op::Geq => "compare_geq",
            Op::SatSub => "integer_sat_sub",
            Op::Select => "select",
        }
    }
}

struct VOut<const N: usize>
where
    Boolean: Vectorizable<N>,
{
    bits: BD<N>,
    extra: Option<Rep<Boolean, N>>,
}

fn pow2_for(n: usize) -> usize {
    n.max(1).next_power_of_two()
}

/// vectorised circuits that need the full Boolean protocol suite
async fn helper_vop<B, const N: usize>(base: B, op: Op, recs: Vec<(BD<N>, BD<N>)>) -> Result<Vec<VOut<N>>, Error>
where
    B: UpgradableContext,
    Boolean: FieldSimd<N>,
    Rep<Boolean, N>: BooleanProtocols<DZKPUpgraded<B>, N>,
{
    let n = recs.len();
    let v = base.set_total_records(TotalRecords::specified(n)?).dzkp_validator(TEST_DZKP_STEPS, pow2_for(n));
    let ctx = v.context();
    let outs = try_join_all(recs.iter().enumerate().map(|(i, (x, y))| {
        let ctx = ctx.clone();
        async move {
            let rid = RecordId::from(i);
            Ok::<_, Error>(match op {
                Op::Add => {
                    let (s, c) = integer_add::<_, DefaultBitStep, N>(ctx, rid, x, y).await?;
                    VOut { bits: s, extra: Some(c) }
                }
                Op::SatAdd => VOut { bits: integer_sat_add::<_, DefaultBitStep, N>(ctx, rid, x, y).await?, extra: None },
                Op::Gt => VOut { bits: BitDecomposed::new(std::iter::empty()), extra: Some(compare_gt::<_, DefaultBitStep, N>(ctx, rid, x, y).await?) },
                Op::Mul => VOut { bits: integer_mul::<_, DefaultBitStep, N>(ctx, rid, x, y).await?, extra: None },
                other => unreachable!("{other:?} is not a vectorised full-suite circuit"),
            })
        }
    }))
    .await?;
    drop(ctx);
    v.validate().await?;
    Ok(outs)
}

/// bitwise OR only needs multiplication, so it exists for every Boolean vector width
async fn helper_or<B, const N: usize>(base: B, recs: Vec<(BD<N>, BD<N>)>) -> Result<Vec<VOut<N>>, Error>
where
    B: UpgradableContext,
    Boolean: FieldSimd<N>,
    Rep<Boolean, N>: SecureMul<DZKPUpgraded<B>>,
{
    let n = recs.len();
    let v = base.set_total_records(TotalRecords::specified(n)?).dzkp_validator(TEST_DZKP_STEPS, pow2_for(n));
    let ctx = v.context();
    let outs = try_join_all(recs.iter().enumerate().map(|(i, (x, y))| {
        let ctx = ctx.clone();
        async move {
            let bits = bool_or::<_, DefaultBitStep, _, N>(ctx, RecordId::from(i), x, y.iter()).await?;
            Ok::<_, Error>(VOut { bits, extra: None })
        }
    }))
    .await?;
    drop(ctx);
    v.validate().await?;
    Ok(outs)
}

/// circuits that exist only for width-1 vectors
async fn helper_sop<B>(base: B, op: Op, recs: Vec<(BD<1>, BD<1>)>) -> Result<Vec<VOut<1>>, Error>
where
    B: UpgradableContext,
    Rep<Boolean>: BooleanProtocols<DZKPUpgraded<B>>,
{
    let n = recs.len();
    let v = base.set_total_records(TotalRecords::specified(n)?).dzkp_validator(TEST_DZKP_STEPS, pow2_for(n));
    let ctx = v.context();
    let outs = try_join_all(recs.iter().enumerate().map(|(i, (x, y))| {
        let ctx = ctx.clone();
        async move {
            let rid = RecordId::from(i);
            Ok::<_, Error>(match op {
                Op::Sub => VOut { bits: integer_sub::<_, DefaultBitStep>(ctx, rid, x, y).await?, extra: None },
                Op::Geq => VOut { bits: BitDecomposed::new(std::iter::empty()), extra: Some(compare_geq::<_, DefaultBitStep>(ctx, rid, x, y).await?) },
                other => unreachable!("{other:?} is not a width-1 circuit"),
            })
        }
    }))
    .await?;
    drop(ctx);
    v.validate().await?;
    Ok(outs)
}

/// circuits over whole Boolean arrays (`S` = BA<N>): saturating subtraction and the multiplexer.
/// A record is (condition, x / true value, y / false value).
async fn helper_baop<B, S, const N: usize>(base: B, op: Op, recs: Vec<(Rep<Boolean>, Rep<Boolean, N>, Rep<Boolean, N>)>) -> Result<Vec<Rep<Boolean, N>>, Error>
where
    B: UpgradableContext,
    S: BooleanArray,
    Boolean: FieldSimd<N>,
    Rep<S>: BooleanArrayMul<DZKPUpgraded<B>> + From<Rep<Boolean, N>> + Clone,
    Rep<Boolean, N>: From<Rep<S>>,
    Rep<Boolean>: BooleanProtocols<DZKPUpgraded<B>>,
{
    let n = recs.len();
    let v = base.set_total_records(TotalRecords::specified(n)?).dzkp_validator(TEST_DZKP_STEPS, pow2_for(n));
    let ctx = v.context();
    let outs = try_join_all(recs.into_iter().enumerate().map(|(i, (c, x, y))| {
        let ctx = ctx.clone();
        async move {
            let rid = RecordId::from(i);
            let (x, y): (Rep<S>, Rep<S>) = (x.into(), y.into());
            let r: Rep<S> = match op {
                Op::SatSub => integer_sat_sub::<_, S, DefaultBitStep>(ctx, rid, &x, &y).await?,
                Op::Select => select::<_, Rep<S>>(ctx, rid, &c, &x, &y).await?,
                other => unreachable!("{other:?} is not a Boolean-array circuit"),
            };
            Ok::<_, Error>(Rep::<Boolean, N>::from(r))
        }
    }))
    .await?;
    drop(ctx);
    v.validate().await?;
    Ok(outs)
}

// ------------------------------------------------------------------------------------------
// Boolean circuits: one case = one world, R records x N lanes of operand pairs
// ------------------------------------------------------------------------------------------

#[derive(Clone, Debug)]
pub struct BoolCase {
    op: Op,
    mode: Mode,
    /// vector width (1 for the Boolean-array circuits, whose array width is `lx`)
    lanes: usize,
    lx: usize,
    ly: usize,
    /// per record: per lane (x, y, condition)
    recs: Vec<Vec<(Big, Big, bool)>>,
    masks: MaskMode,
    seed: u64,
}

/// plain result of one record
struct RecOut {
    bits: Mat,
    extra: Option<Vec<bool>>,
}

fn share_pairs<const N: usize>(case: &BoolCase) -> [Vec<(BD<N>, BD<N>)>; 3]
where
    Boolean: Vectorizable<N>,
{
    let mut rng = StdRng::seed_from_u64(case.seed ^ 0x5eed_c07a);
    let mut out: [Vec<(BD<N>, BD<N>)>; 3] = [vec![], vec![], vec![]];
    for rec in &case.recs {
        let xs: Vec<Big> = rec.iter().map(|r| r.0).collect();
        let ys: Vec<Big> = rec.iter().map(|r| r.1).collect();
        let x = share_mat::<N>(&mat_of(&xs, case.lx), &mut rng, case.masks);
        let y = share_mat::<N>(&mat_of(&ys, case.ly), &mut rng, case.masks);
        for (h, (x, y)) in x.into_iter().zip(y).enumerate() {
            out[h].push((x, y));
        }
    }
    out
}

fn recon_vouts<const N: usize>(outs: &[Vec<VOut<N>>; 3]) -> Result<Vec<RecOut>, String>
where
    Boolean: Vectorizable<N>,
{
    let n = outs[0].len();
    if outs[1].len() != n || outs[2].len() != n {
        return Err("helpers returned different record counts".into());
    }
    (0..n)
        .map(|r| {
            let bits = recon_mat::<N>([&outs[0][r].bits, &outs[1][r].bits, &outs[2][r].bits]).map_err(|e| format!("INCONSISTENT record {r}: {e}"))?;
            let extra = match (&outs[0][r].extra, &outs[1][r].extra, &outs[2][r].extra) {
                (Some(a), Some(b), Some(c)) => Some(recon_row::<N>([a, b, c]).map_err(|e| format!("INCONSISTENT record {r} carry/compare bit: {e}"))?),
                _ => None,
            };
            Ok(RecOut { bits, extra })
        })
        .collect()
}

async fn world_vop<'a, B, const N: usize>(ctxs: [B; 3], case: &'a BoolCase) -> Result<Vec<RecOut>, String>
where
    B: UpgradableContext + 'a,
    Boolean: FieldSimd<N>,
    Rep<Boolean, N>: BooleanProtocols<DZKPUpgraded<B>, N>,
{
    let inputs = share_pairs::<N>(case);
    let op = case.op;
    let futs: Vec<BoxFut<'a, Vec<VOut<N>>>> = ctxs.into_iter().zip(inputs).map(|(c, inp)| Box::pin(helper_vop::<B, N>(c, op, inp)) as BoxFut<'a, _>).collect();
    let outs = drive3(futs).await?;
    recon_vouts::<N>(&outs)
}

async fn world_or<'a, B, const N: usize>(ctxs: [B; 3], case: &'a BoolCase) -> Result<Vec<RecOut>, String>
where
    B: UpgradableContext + 'a,
    Boolean: FieldSimd<N>,
    Rep<Boolean, N>: SecureMul<DZKPUpgraded<B>>,
{
    let inputs = share_pairs::<N>(case);
    let futs: Vec<BoxFut<'a, Vec<VOut<N>>>> = ctxs.into_iter().zip(inputs).map(|(c, inp)| Box::pin(helper_or::<B, N>(c, inp)) as BoxFut<'a, _>).collect();
    let outs = drive3(futs).await?;
    recon_vouts::<N>(&outs)
}

async fn world_sop<'a, B>(ctxs: [B; 3], case: &'a BoolCase) -> Result<Vec<RecOut>, String>
where
    B: UpgradableContext + 'a,
    Rep<Boolean>: BooleanProtocols<DZKPUpgraded<B>>,
{
    let inputs = share_pairs::<1>(case);
    let op = case.op;
    let futs: Vec<BoxFut<'a, Vec<VOut<1>>>> = ctxs.into_iter().zip(inputs).map(|(c, inp)| Box::pin(helper_sop::<B>(c, op, inp)) as BoxFut<'a, _>).collect();
    let outs = drive3(futs).await?;
    recon_vouts::<1>(&outs)
}

async fn world_baop<'a, B, S, const N: usize>(ctxs: [B; 3], case: &'a BoolCase) -> Result<Vec<RecOut>, String>
where
    B: UpgradableContext + 'a,
    S: BooleanArray,
    Boolean: FieldSimd<N>,
    Rep<S>: BooleanArrayMul<DZKPUpgraded<B>> + From<Rep<Boolean, N>> + Clone,
    Rep<Boolean, N>: From<Rep<S>>,
    Rep<Boolean>: BooleanProtocols<DZKPUpgraded<B>>,
{
    let mut rng = StdRng::seed_from_u64(case.seed ^ 0x5eed_c07b);
    let mut inputs: [Vec<(Rep<Boolean>, Rep<Boolean, N>, Rep<Boolean, N>)>; 3] = [vec![], vec![], vec![]];
    for rec in &case.recs {
        let (x, y, c) = rec[0];
        let xs = share_row::<N>(&(0..N).map(|i| x.bit(i)).collect::<Vec<_>>(), &mut rng, case.masks);
        let ys = share_row::<N>(&(0..N).map(|i| y.bit(i)).collect::<Vec<_>>(), &mut rng, case.masks);
        let cs = share_row::<1>(&[c], &mut rng, case.masks);
        for (h, ((x, y), c)) in xs.into_iter().zip(ys).zip(cs).enumerate() {
            inputs[h].push((c, x, y));
        }
    }
    let op = case.op;
    let futs: Vec<BoxFut<'a, Vec<Rep<Boolean, N>>>> = ctxs.into_iter().zip(inputs).map(|(c, inp)| Box::pin(helper_baop::<B, S, N>(c, op, inp)) as BoxFut<'a, _>).collect();
    let outs = drive3(futs).await?;
    let n = outs[0].len();
    (0..n)
        .map(|r| {
            let row = recon_row::<N>([&outs[0][r], &outs[1][r], &outs[2][r]]).map_err(|e| format!("INCONSISTENT record {r}: {e}"))?;
            // as a bit matrix with one lane
            Ok(RecOut { bits: row.into_iter().map(|b| vec![b]).collect(), extra: None })
        })
        .collect()
}

macro_rules! by_n {
    ($n:expr; $($lit:literal),+; $f:ident $args:tt) => {
        match $n {
            $($lit => $f::<_, $lit> $args.await,)+
            other => panic!("harness: unsupported vector width {other}"),
        }
    };
}

macro_rules! by_ba {
    ($n:expr; $f:ident $args:tt) => {
        match $n {
            3 => $f::<_, BA3, 3> $args.await,
            5 => $f::<_, BA5, 5> $args.await,
            8 => $f::<_, BA8, 8> $args.await,
            16 => $f::<_, BA16, 16> $args.await,
            20 => $f::<_, BA20, 20> $args.await,
            32 => $f::<_, BA32, 32> $args.await,
            64 => $f::<_, BA64, 64> $args.await,
            256 => $f::<_, BA256, 256> $args.await,
            other => panic!("harness: unsupported Boolean array width {other}"),
        }
    };
}

/// vector widths for which the full Boolean protocol suite exists, per mode (protocol/basics/mod.rs)
const SUITE_SH: [usize; 6] = [1, 3, 8, 16, 32, 256];
const SUITE_MAL: [usize; 4] = [1, 16, 32, 256];
/// every Boolean vector width (secret_sharing/vector/impls.rs) - enough for multiply / OR
const ALL_WIDTHS: [usize; 9] = [1, 3, 5, 8, 16, 20, 32, 64, 256];
const BA_WIDTHS: [usize; 8] = [3, 5, 8, 16, 20, 32, 64, 256];

fn suite_widths(mode: Mode) -> &'static [usize] {
    match mode {
        Mode::Sh => &SUITE_SH,
        Mode::Mal => &SUITE_MAL,
    }
}

fn execute_bool(case: &BoolCase) -> Result<Vec<RecOut>, String> {
    in_world!(case.seed, |w| match (case.op, case.mode) {
        (Op::Add | Op::SatAdd | Op::Gt | Op::Mul, Mode::Sh) => by_n!(case.lanes; 1, 3, 8, 16, 32, 256; world_vop(w.contexts(), case)),
        (Op::Add | Op::SatAdd | Op::Gt | Op::Mul, Mode::Mal) => by_n!(case.lanes; 1, 16, 32, 256; world_vop(w.malicious_contexts(), case)),
        (Op::Or, Mode::Sh) => by_n!(case.lanes; 1, 3, 5, 8, 16, 20, 32, 64, 256; world_or(w.contexts(), case)),
        (Op::Or, Mode::Mal) => by_n!(case.lanes; 1, 3, 5, 8, 16, 20, 32, 64, 256; world_or(w.malicious_contexts(), case)),
        (Op::Sub | Op::Geq, Mode::Sh) => world_sop(w.contexts(), case).await,
        (Op::Sub | Op::Geq, Mode::Mal) => world_sop(w.malicious_contexts(), case).await,
        (Op::SatSub | Op::Select, Mode::Sh) => by_ba!(case.lx; world_baop(w.contexts(), case)),
        (Op::SatSub | Op::Select, Mode::Mal) => by_ba!(case.lx; world_baop(w.malicious_contexts(), case)),
    })
}

/// the stated plaintext function: (value, expected bit length, carry / comparison bit)
fn reference(op: Op, lx: usize, ly: usize, x: &Big, y: &Big, cond: bool) -> (Big, usize, Option<bool>) {
    // bits of y beyond the length of x are ignored by add / sub
    let ym = y.mask(lx);
    match op {
        Op::Add => {
            let s = x.add(&ym);
            (s.mask(lx), lx, Some(s.bit(lx)))
        }
        Op::SatAdd => {
            let s = x.add(y);
            (if s.cmp(&Big::ones(lx)) == Ordering::Greater { Big::ones(lx) } else { s }, lx, None)
        }
        Op::Gt => (Big::ZERO, 0, Some(x.cmp(y) == Ordering::Greater)),
        Op::Geq => (Big::ZERO, 0, Some(x.cmp(y) != Ordering::Less)),
        Op::Sub => (x.sub(&ym).mask(lx), lx, None),
        Op::SatSub => (if x.cmp(y) == Ordering::Less { Big::ZERO } else { x.sub(y) }, lx, None),
        Op::Mul => {
            // x unsigned, y two's complement of ly bits
            let ys = if ly > 0 && y.bit(ly - 1) { y.sub(&Big::pow2(ly)) } else { *y };
            (x.mul(&ys).mask(lx + ly), lx + ly, None)
        }
        // operands of unequal length: the OR of the two integers has the length of the longer one
        Op::Or => (x.or(y), lx.max(ly), None),
        Op::Select => (if cond { *x } else { *y }, lx, None),
    }
}

fn case_json(c: &BoolCase) -> Value {
    let first: Vec<Value> = c.recs.iter().take(2).flat_map(|r| r.iter().take(3)).map(|(x, y, k)| json!({"x": x.hex(), "y": y.hex(), "cond": k})).collect();
    json!({"block": c.op.name(), "mode": c.mode.name(), "vector_width": c.lanes, "x_bits": c.lx, "y_bits": c.ly, "records": c.recs.len(), "masks": c.masks.name(), "seed": c.seed.to_string(), "first_operands": first})
}

/// run the case and compare every lane of every record with the reference
fn check_bool(env: &Env, case: &BoolCase) -> Result<(), CaseErr> {
    let (blk, md) = (case.op.name(), case.mode.name());
    // bool_or with operands of unequal length: refusing them (panic or error, nothing returned)
    // is fine; what comes back otherwise must be the OR of the two integers
    let may_refuse = case.op == Op::Or && case.lx != case.ly;
    let run = if may_refuse {
        match catch(|| execute_bool(case)) {
            Ok(r) => r,
            Err(_) => return Ok(()),
        }
    } else {
        execute_bool(case)
    };
    let outs = match run {
        Ok(o) => o,
        Err(e) if may_refuse && !e.starts_with("INCONSISTENT") && !e.contains("(hang)") => {
            let _ = e;
            return Ok(());
        }
        // a wall-clock limit is no verdict (a loaded or suspended machine hits it too)
        Err(e) if e.contains("(hang)") => return Err(CaseErr::Reject(format!("inconclusive: {blk} ({md}): {e}"))),
        Err(e) => {
            let kind = if e.starts_with("INCONSISTENT") { "inconsistent-sharing" } else { "protocol-error" };
            return known_or_violation(env, &format!("{blk}:{md}:{kind}"), format!("{blk} ({md}, vector width {}, |x|={}, |y|={}): {e}", case.lanes, case.lx, case.ly), case_json(case));
        }
    };
    if outs.len() != case.recs.len() {
        return known_or_violation(env, &format!("{blk}:{md}:record-count"), format!("{} records in, {} out", case.recs.len(), outs.len()), case_json(case));
    }
    for (r, (rec, out)) in case.recs.iter().zip(&outs).enumerate() {
        for (lane, (x, y, cond)) in rec.iter().enumerate() {
            let (want, want_len, want_extra) = reference(case.op, case.lx, case.ly, x, y, *cond);
            if out.bits.len() != want_len {
                return known_or_violation(env, &format!("{blk}:{md}:wrong-length"), format!("{blk}: output has {} bits, stated length is {want_len} (|x|={}, |y|={})", out.bits.len(), case.lx, case.ly), case_json(case));
            }
            let got = lane_value(&out.bits, lane);
            let got_extra = out.extra.as_ref().map(|e| e[lane]);
            if got != want || got_extra != want_extra {
                let cj = json!({"case": case_json(case), "record": r, "lane": lane, "x": x.hex(), "y": y.hex(), "cond": cond, "got": got.hex(), "expected": want.hex(), "got_bit": got_extra, "expected_bit": want_extra});
                return known_or_violation(
                    env,
                    &format!("{blk}:{md}:wrong-value"),
                    format!("{blk} ({md}, vector width {}, |x|={}, |y|={}) x={} y={} cond={cond}: got {} / {:?}, expected {} / {:?} (record {r}, lane {lane})", case.lanes, case.lx, case.ly, x.hex(), y.hex(), got.hex(), got_extra, want.hex(), want_extra),
                    cj,
                );
            }
        }
    }
    Ok(())
}

fn bool_labels(c: &BoolCase) -> Vec<String> {
    let rel = match c.lx.cmp(&c.ly) {
        Ordering::Equal => "|y|=|x|",
        Ordering::Greater => "|y|<|x|",
        Ordering::Less => "|y|>|x|",
    };
    let wb = match c.lx {
        0..=4 => "x-bits:<=4",
        5..=8 => "x-bits:5..8",
        9..=15 => "x-bits:9..15",
        16..=32 => "x-bits:16..32",
        33..=64 => "x-bits:33..64",
        65..=128 => "x-bits:65..128",
        _ => "x-bits:129..256",
    };
    vec![
        format!("block:{}", c.op.name()),
        format!("mode:{}", c.mode.name()),
        format!("width:{}", c.lanes),
        if matches!(c.op, Op::SatSub | Op::Select) { format!("{}:{}:BA{}", c.op.name(), c.mode.name(), c.lx) } else { format!("{}:{}:N{}", c.op.name(), c.mode.name(), c.lanes) },
        rel.to_string(),
        wb.to_string(),
        c.masks.name().to_string(),
    ]
}

// ------------------------------------------------------------------------------------------
// exhaustive sub-checks over small widths
// ------------------------------------------------------------------------------------------

#[derive(Clone, Copy, Debug)]
struct SmallCombo {
    op: Op,
    mode: Mode,
    lanes: usize,
    lx: usize,
    ly: usize,
}

fn small_combos() -> Vec<SmallCombo> {
    let mut v = vec![];
    let all4 = [(3usize, 3usize), (3, 4), (4, 3), (4, 4)];
    for mode in [Mode::Sh, Mode::Mal] {
        for &lanes in suite_widths(mode) {
            for (lx, ly) in all4 {
                for op in [Op::Add, Op::Gt, Op::Mul] {
                    v.push(SmallCombo { op, mode, lanes, lx, ly });
                }
                // saturating addition: "we dont seem to need support for different length" - y never wider than x
                if ly <= lx {
                    v.push(SmallCombo { op: Op::SatAdd, mode, lanes, lx, ly });
                }
            }
        }
        for &lanes in &ALL_WIDTHS {
            for l in [3usize, 4] {
                v.push(SmallCombo { op: Op::Or, mode, lanes, lx: l, ly: l });
            }
        }
        for (lx, ly) in all4 {
            for op in [Op::Sub, Op::Geq] {
                v.push(SmallCombo { op, mode, lanes: 1, lx, ly });
            }
        }
        for w in [3usize, 5] {
            v.push(SmallCombo { op: Op::SatSub, mode, lanes: 1, lx: w, ly: w });
            v.push(SmallCombo { op: Op::Select, mode, lanes: 1, lx: w, ly: w });
        }
    }
    v
}

/// lay a list of operand triples out over records of `lanes` lanes (padding with zeros)
fn layout(triples: Vec<(Big, Big, bool)>, lanes: usize) -> Vec<Vec<(Big, Big, bool)>> {
    triples
        .chunks(lanes)
        .map(|c| {
            let mut r = c.to_vec();
            r.resize(lanes, (Big::ZERO, Big::ZERO, false));
            r
        })
        .collect()
}

fn exh_small(env: &Env, src: &mut Src<'_>) -> CaseResult {
    let i = src.raw() as usize;
    let combos = small_combos();
    let c = combos[i % combos.len()];
    let mut triples = vec![];
    // comparisons are stated for length(x) >= log2(y): excess bits of a wider y are zero
    let ymax = if matches!(c.op, Op::Gt | Op::Geq) { c.ly.min(c.lx) } else { c.ly };
    for x in 0..(1u128 << c.lx) {
        for y in 0..(1u128 << ymax) {
            if c.op == Op::Select {
                triples.push((Big::from_u128(x), Big::from_u128(y), false));
                triples.push((Big::from_u128(x), Big::from_u128(y), true));
            } else {
                triples.push((Big::from_u128(x), Big::from_u128(y), false));
            }
        }
    }
    let pairs = triples.len();
    let masks = [MaskMode::Random, MaskMode::Zero, MaskMode::Ones][i % 3];
    let case = BoolCase { op: c.op, mode: c.mode, lanes: c.lanes, lx: c.lx, ly: c.ly, recs: layout(triples, c.lanes), masks, seed: digest(&("c07-small", i as u64)) };
    check_bool(env, &case)?;
    let mut labels = bool_labels(&case);
    labels.push(format!("operand-tuples:{pairs}"));
    Ok(CaseOk::new(true, &(i as u64), json!({"block": c.op.name(), "mode": c.mode.name(), "vector_width": c.lanes, "x_bits": c.lx, "y_bits": c.ly, "operand_tuples_all": pairs})).labels(labels))
}

const OPS_8BIT: [Op; 6] = [Op::Add, Op::SatAdd, Op::Gt, Op::Sub, Op::Geq, Op::SatSub];

/// all 2^16 pairs of 8-bit operands: case i fixes x and runs y = 0..255, through the N = 256
/// vectorisation where the circuit has one and as 256 records of one world otherwise
fn exh_8bit(env: &Env, src: &mut Src<'_>) -> CaseResult {
    let i = src.raw() as usize;
    let x0 = (i & 255) as u128;
    let op = OPS_8BIT[(i >> 8) % 6];
    let mode = if (i >> 8) / 6 % 2 == 0 { Mode::Sh } else { Mode::Mal };
    let triples: Vec<(Big, Big, bool)> = (0..256u128).map(|y| (Big::from_u128(x0), Big::from_u128(y), false)).collect();
    let lanes = if matches!(op, Op::Add | Op::SatAdd | Op::Gt) { 256 } else { 1 };
    let masks = [MaskMode::Random, MaskMode::Random, MaskMode::Zero, MaskMode::Ones][(i >> 3) % 4];
    let case = BoolCase { op, mode, lanes, lx: 8, ly: 8, recs: layout(triples, lanes), masks, seed: digest(&("c07-8bit", i as u64)) };
    check_bool(env, &case)?;
    Ok(CaseOk::new(true, &(i as u64), json!({"block": op.name(), "mode": mode.name(), "x": x0, "y": "0..=255", "vector_width": lanes})).labels(bool_labels(&case)).label("operand-pairs:256"))
}

// ------------------------------------------------------------------------------------------
// random wide operands
// ------------------------------------------------------------------------------------------

const WIDE_BITS: [usize; 17] = [16, 17, 24, 31, 32, 33, 48, 63, 64, 65, 96, 127, 128, 129, 200, 255, 256];

fn gen_bool_case(env: &Env, src: &mut Src<'_>) -> (BoolCase, String) {
    let op = src.pick(&[
        Op::Add, Op::Add, Op::Add, Op::SatAdd, Op::SatAdd, Op::Gt, Op::Gt, Op::Mul, Op::Mul, Op::Or, Op::Sub, Op::Sub, Op::Geq, Op::Geq,
        Op::SatSub, Op::SatSub, Op::Select, Op::Select,
    ]);
    let mode = if src.bool() { Mode::Mal } else { Mode::Sh };
    let masks = MaskMode::pick(src);
    let seed = src.seed();
    let mut rng = StdRng::seed_from_u64(seed ^ 0x0b0e_7a11);
    let (lanes, lx, ly, plx, ply) = match op {
        Op::SatSub | Op::Select => {
            let w = src.pick(&BA_WIDTHS);
            (1, w, w, w, w)
        }
        Op::Mul => {
            let lanes = src.pick(suite_widths(mode));
            let sizes: &[usize] = if env.thorough() { &[1, 2, 3, 5, 8, 12, 16, 17, 24, 32, 33, 48, 64] } else { &[1, 2, 3, 5, 8, 12, 16, 17, 24, 32] };
            let lx = src.pick(sizes);
            let ly = src.pick(sizes);
            (lanes, lx, ly, lx, ly)
        }
        _ => {
            let lanes = match op {
                Op::Sub | Op::Geq => 1,
                Op::Or => src.pick(&ALL_WIDTHS),
                _ => src.pick(suite_widths(mode)),
            };
            let lx = match src.below(8) {
                0 => src.urange(1, 15),
                1 | 2 => src.urange(16, 256),
                _ => src.pick(&WIDE_BITS),
            };
            // relation of the operand lengths, within what the doc comments allow
            let rel = src.below(4);
            let narrower = |src: &mut Src<'_>| if lx > 1 { src.urange(1, lx - 1) } else { lx };
            let wider = |src: &mut Src<'_>| if lx < 256 { src.urange(lx + 1, 256) } else { lx };
            match op {
                // unequal lengths: the block may refuse them (it is documented to panic) or return
                // the OR of the two integers; see check_bool
                Op::Or => match rel {
                    0 => {
                        let ly = narrower(src);
                        (lanes, lx, ly, lx, ly)
                    }
                    1 => {
                        let ly = wider(src);
                        (lanes, lx, ly, lx, ly)
                    }
                    _ => (lanes, lx, lx, lx, lx),
                },
                Op::SatAdd => {
                    let ly = if rel == 0 { narrower(src) } else { lx };
                    (lanes, lx, ly, lx, ly)
                }
                Op::Gt | Op::Geq => match rel {
                    0 => {
                        let ly = narrower(src);
                        (lanes, lx, ly, lx, ly)
                    }
                    // y is wider but its excess bits are zero ("length(x) >= log2(y)")
                    1 => (lanes, lx, wider(src), lx, lx),
                    _ => (lanes, lx, lx, lx, lx),
                },
                // add / sub: bits of y beyond the length of x are ignored
                _ => match rel {
                    0 => {
                        let ly = narrower(src);
                        (lanes, lx, ly, lx, ly)
                    }
                    1 => {
                        let ly = wider(src);
                        (lanes, lx, ly, lx, ly)
                    }
                    _ => (lanes, lx, lx, lx, lx),
                },
            }
        }
    };
    let nrec = if lanes == 1 { src.urange(1, 6) } else if lanes >= 32 { src.urange(1, 2) } else { src.urange(1, 3) };
    let class0 = src.idx(PAIR_CLASSES.len());
    let mut recs = vec![];
    for r in 0..nrec {
        let mut rec = vec![];
        for l in 0..lanes {
            let class = if r == 0 && l == 0 { class0 } else { rng.gen_range(0..PAIR_CLASSES.len()) };
            let (x, y) = big_pair(&mut rng, plx, ply, class);
            let cond = if r == 0 && l == 0 { class0 % 2 == 1 } else { rng.r#gen() };
            rec.push((x, y, cond));
        }
        recs.push(rec);
    }
    (BoolCase { op, mode, lanes, lx, ly, recs, masks, seed }, format!("operands:{}", PAIR_CLASSES[class0]))
}

fn bool_random(env: &Env, src: &mut Src<'_>) -> CaseResult {
    let (case, class) = gen_bool_case(env, src);
    check_bool(env, &case)?;
    let nontrivial = case.recs.iter().flatten().any(|(x, y, _)| !x.is_zero() || !y.is_zero());
    let (x0, y0, c0) = case.recs[0][0];
    let d = (case.op, case.mode, case.lanes, case.lx, case.ly, x0, y0, c0, case.recs.len());
    Ok(CaseOk::new(nontrivial, &d, case_json(&case)).labels(bool_labels(&case)).label(class))
}

// ------------------------------------------------------------------------------------------
// multiplication (and the field OR built on it) over every supported field
// ------------------------------------------------------------------------------------------

pub trait TField: Field {
    const TNAME: &'static str;
    /// class 0: zero, 1: one, 2: the largest element / -1, otherwise random
    fn genv(rng: &mut StdRng, class: u64) -> Self;
    /// field product computed by reference code
    fn ref_mul(a: Self, b: Self) -> Self;
    fn show(&self) -> String;
}

macro_rules! tfield_prime {
    ($t:ty, $name:literal) => {
        impl TField for $t {
            const TNAME: &'static str = $name;
            fn genv(rng: &mut StdRng, class: u64) -> Self {
                let p: u128 = <$t as PrimeField>::PRIME.into();
                match class {
                    0 => <$t>::truncate_from(0u128),
                    1 => <$t>::truncate_from(1u128),
                    2 => <$t>::truncate_from(p - 1),
                    _ => <$t>::truncate_from(rng.r#gen::<u128>() % p),
                }
            }
            fn ref_mul(a: Self, b: Self) -> Self {
                let p: u128 = <$t as PrimeField>::PRIME.into();
                <$t>::truncate_from((a.as_u128() * b.as_u128()) % p)
            }
            fn show(&self) -> String {
                self.as_u128().to_string()
            }
        }
    };
}
tfield_prime!(Fp31, "Fp31");
tfield_prime!(Fp32BitPrime, "Fp32BitPrime");
tfield_prime!(Fp61BitPrime, "Fp61BitPrime");

macro_rules! tfield_gf {
    ($t:ty, $name:literal) => {
        impl TField for $t {
            const TNAME: &'static str = $name;
            fn genv(rng: &mut StdRng, class: u64) -> Self {
                let bits = <$t as SharedValue>::BITS;
                let m = (1u128 << bits) - 1;
                match class {
                    0 => <$t>::truncate_from(0u128),
                    1 => <$t>::truncate_from(1u128),
                    2 => <$t>::truncate_from(m),
                    _ => <$t>::truncate_from(rng.r#gen::<u128>() & m),
                }
            }
            fn ref_mul(a: Self, b: Self) -> Self {
                // schoolbook carry-less product, then long division by the reduction polynomial
                let bits = <$t as SharedValue>::BITS;
                let poly = <$t as GaloisField>::POLYNOMIAL;
                let (a, b) = (a.as_u128(), b.as_u128());
                let mut prod = 0u128;
                for i in 0..bits {
                    if (b >> i) & 1 == 1 {
                        prod ^= a << i;
                    }
                }
                for i in (bits..2 * bits).rev() {
                    if (prod >> i) & 1 == 1 {
                        prod ^= poly << (i - bits);
                    }
                }
                <$t>::truncate_from(prod)
            }
            fn show(&self) -> String {
                format!("{:#x}", self.as_u128())
            }
        }
    };
}
tfield_gf!(Gf2, "Gf2");
tfield_gf!(Gf8Bit, "Gf8Bit");
tfield_gf!(Gf32Bit, "Gf32Bit");

impl TField for Boolean {
    const TNAME: &'static str = "Boolean";
    fn genv(rng: &mut StdRng, class: u64) -> Self {
        match class {
            0 => Boolean::from(false),
            1 | 2 => Boolean::from(true),
            _ => Boolean::from(rng.r#gen::<bool>()),
        }
    }
    fn ref_mul(a: Self, b: Self) -> Self {
        Boolean::from(bool::from(a) && bool::from(b))
    }
    fn show(&self) -> String {
        u8::from(bool::from(*self)).to_string()
    }
}

fn scalar_of(f: Fp25519) -> Scalar {
    Scalar::from(f)
}

fn scalar_hex(s: &Scalar) -> String {
    let mut b = s.to_bytes();
    b.reverse();
    let h: String = b.iter().map(|x| format!("{x:02x}")).collect();
    let t = h.trim_start_matches('0');
    format!("0x{}", if t.is_empty() { "0" } else { t })
}

fn random_scalar(rng: &mut StdRng) -> Scalar {
    let mut b = [0u8; 32];
    rng.fill_bytes(&mut b);
    Scalar::from_bytes_mod_order(b)
}

impl TField for Fp25519 {
    const TNAME: &'static str = "Fp25519";
    fn genv(rng: &mut StdRng, class: u64) -> Self {
        Fp25519::from(match class {
            0 => Scalar::ZERO,
            1 => Scalar::ONE,
            2 => -Scalar::ONE,
            _ => random_scalar(rng),
        })
    }
    fn ref_mul(a: Self, b: Self) -> Self {
        // curve25519-dalek scalar arithmetic used directly
        Fp25519::from(scalar_of(a) * scalar_of(b))
    }
    fn show(&self) -> String {
        scalar_hex(&scalar_of(*self))
    }
}

fn share_vals<F: TField + FieldSimd<N>, const N: usize>(v: &[F], rng: &mut StdRng, mm: MaskMode) -> [Rep<F, N>; 3] {
    let mask = |rng: &mut StdRng| match mm {
        MaskMode::Zero => F::ZERO,
        MaskMode::Ones => F::genv(rng, 2),
        MaskMode::Random => F::genv(rng, 9),
    };
    let s1: Vec<F> = (0..N).map(|_| mask(rng)).collect();
    let s2: Vec<F> = (0..N).map(|_| mask(rng)).collect();
    let s3: Vec<F> = (0..N).map(|i| v[i] - s1[i] - s2[i]).collect();
    let mk = |l: &Vec<F>, r: &Vec<F>| Rep::<F, N>::from_fns(|i| l[i], |i| r[i]);
    [mk(&s1, &s2), mk(&s2, &s3), mk(&s3, &s1)]
}

fn recon_vals<V: SharedValue + Vectorizable<N>, const N: usize>(s: [&Rep<V, N>; 3]) -> Result<Vec<V>, String> {
    let l: Vec<Vec<V>> = s.iter().map(|x| x.left_arr().clone().into_iter().collect()).collect();
    let r: Vec<Vec<V>> = s.iter().map(|x| x.right_arr().clone().into_iter().collect()).collect();
    for h in 0..3 {
        if r[h] != l[(h + 1) % 3] {
            let lane = (0..N).find(|i| r[h][*i] != l[(h + 1) % 3][*i]).unwrap_or(0);
            return Err(format!("INCONSISTENT: H{}.right != H{}.left at lane {lane}", h + 1, (h + 1) % 3 + 1));
        }
    }
    Ok((0..N).map(|i| l[0][i] + l[1][i] + l[2][i]).collect())
}

type MulIn<F, const N: usize> = Vec<(Rep<F, N>, Rep<F, N>)>;

/// multiply (or OR) on the base semi-honest context, the way most call sites still do
async fn helper_mul_base<'a, F, const N: usize>(ctx: SemiHonestContext<'a>, is_or: bool, recs: MulIn<F, N>) -> Result<Vec<Rep<F, N>>, Error>
where
    F: Field + FieldSimd<N>,
{
    let ctx = ctx.set_total_records(TotalRecords::specified(recs.len())?);
    try_join_all(recs.iter().enumerate().map(|(i, (a, b))| {
        let ctx = ctx.clone();
        async move {
            if is_or {
                or::<F, _, Rep<F, N>>(ctx, RecordId::from(i), a, b).await
            } else {
                a.multiply(b, ctx, RecordId::from(i)).await
            }
        }
    }))
    .await
}

/// multiply (or OR) on a DZKP-upgraded context, with validation
async fn helper_mul_dzkp<B, F, const N: usize>(base: B, is_or: bool, recs: MulIn<F, N>) -> Result<Vec<Rep<F, N>>, Error>
where
    B: UpgradableContext,
    F: Field + FieldSimd<N>,
    Rep<F, N>: SecureMul<DZKPUpgraded<B>>,
{
    let n = recs.len();
    let v = base.set_total_records(TotalRecords::specified(n)?).dzkp_validator(TEST_DZKP_STEPS, pow2_for(n));
    let ctx = v.context();
    let outs = try_join_all(recs.iter().enumerate().map(|(i, (a, b))| {
        let ctx = ctx.clone();
        async move {
            if is_or {
                or::<F, _, Rep<F, N>>(ctx, RecordId::from(i), a, b).await
            } else {
                a.multiply(b, ctx, RecordId::from(i)).await
            }
        }
    }))
    .await?;
    drop(ctx);
    v.validate().await?;
    Ok(outs)
}

/// upgrade -> multiply (or OR) -> validate_record under the MAC validator; the x-shares of the
/// validated product are returned
async fn helper_mul_mac<'a, F>(ctx: MaliciousContext<'a>, is_or: bool, recs: MulIn<F, 1>) -> Result<Vec<Rep<F>>, Error>
where
    F: ExtendableField,
    Rep<F::ExtendedField>: FromPrss,
{
    let ctx = ctx.set_total_records(TotalRecords::specified(recs.len())?);
    let v = ctx.validator::<F>();
    let m = v.context();
    let r = try_join_all(recs.into_iter().enumerate().map(|(i, (a, b))| {
        let m = m.clone();
        async move {
            let rid = RecordId::from(i);
            let (a, b) = (a, b).upgrade(m.clone(), rid).await?;
            let c = if is_or { or(m.narrow("c07or"), rid, &a, &b).await? } else { a.multiply(&b, m.narrow("c07mult"), rid).await? };
            m.validate_record(rid).await?;
            Ok::<_, Error>(c.x().access_without_downgrade().clone())
        }
    }))
    .await;
    drop(m);
    drop(v);
    r
}

async fn world_mul<'a, F, const N: usize>(futs: Vec<BoxFut<'a, Vec<Rep<F, N>>>>) -> Result<[Vec<Rep<F, N>>; 3], String>
where
    F: Field + FieldSimd<N>,
{
    drive3(futs).await
}

/// generation and oracle of one multiplication case; `run` executes the three helpers
fn mul_generic<F, const N: usize>(
    env: &Env,
    src: &mut Src<'_>,
    ctx_kind: &'static str,
    is_or: bool,
    run: impl FnOnce(u64, [MulIn<F, N>; 3]) -> Result<[Vec<Rep<F, N>>; 3], String>,
) -> CaseResult
where
    F: TField + FieldSimd<N>,
{
    let masks = MaskMode::pick(src);
    let nrec = src.urange(1, if N >= 32 { 3 } else { 8 });
    let class0 = (src.below(4), src.below(4));
    let seed = src.seed();
    let mut rng = StdRng::seed_from_u64(seed ^ 0x3417);
    let mut vals: Vec<(Vec<F>, Vec<F>)> = vec![];
    for r in 0..nrec {
        let mut a = vec![];
        let mut b = vec![];
        for l in 0..N {
            let (ca, cb) = if r == 0 && l == 0 { class0 } else { (rng.gen_range(0..6), rng.gen_range(0..6)) };
            // OR is stated for a, b in {0, 1}
            let (ca, cb) = if is_or { (ca % 2, cb % 2) } else { (ca, cb) };
            a.push(F::genv(&mut rng, ca));
            b.push(F::genv(&mut rng, cb));
        }
        vals.push((a, b));
    }
    let mut inputs: [MulIn<F, N>; 3] = [vec![], vec![], vec![]];
    for (a, b) in &vals {
        let sa = share_vals::<F, N>(a, &mut rng, masks);
        let sb = share_vals::<F, N>(b, &mut rng, masks);
        for (h, (x, y)) in sa.into_iter().zip(sb).enumerate() {
            inputs[h].push((x, y));
        }
    }
    let block = if is_or { "or" } else { "multiply" };
    let cj = json!({"block": block, "field": F::TNAME, "vector_width": N, "context": ctx_kind, "records": nrec, "masks": masks.name(), "seed": seed.to_string(),
        "a0": vals[0].0[0].show(), "b0": vals[0].1[0].show()});
    let sig = |kind: &str| format!("{block}:{}:{ctx_kind}:{kind}", F::TNAME);
    let outs = match run(seed, inputs) {
        Ok(o) => o,
        Err(e) => {
            known_or_violation(env, &sig("protocol-error"), format!("{block} over {} x{N} ({ctx_kind}): {e}", F::TNAME), cj)?;
            return Ok(CaseOk::new(false, &0u8, Value::Null));
        }
    };
    for (r, (a, b)) in vals.iter().enumerate() {
        if outs.iter().any(|o| o.len() != nrec) {
            known_or_violation(env, &sig("record-count"), "a helper returned a different number of products".into(), cj.clone())?;
            break;
        }
        match recon_vals::<F, N>([&outs[0][r], &outs[1][r], &outs[2][r]]) {
            Err(e) => {
                known_or_violation(env, &sig("inconsistent-sharing"), format!("{block} over {} x{N} ({ctx_kind}) record {r}: {e}", F::TNAME), cj.clone())?;
            }
            Ok(z) => {
                for l in 0..N {
                    let want = if is_or { a[l] + b[l] - F::ref_mul(a[l], b[l]) } else { F::ref_mul(a[l], b[l]) };
                    if z[l] != want {
                        known_or_violation(
                            env,
                            &sig("wrong-value"),
                            format!("{block} over {} x{N} ({ctx_kind}): a={} b={} gives {}, expected {} (record {r}, lane {l})", F::TNAME, a[l].show(), b[l].show(), z[l].show(), want.show()),
                            json!({"case": cj, "record": r, "lane": l, "a": a[l].show(), "b": b[l].show(), "got": z[l].show(), "expected": want.show()}),
                        )?;
                    }
                }
            }
        }
    }
    let nontrivial = vals.iter().any(|(a, b)| a.iter().chain(b).any(|v| *v != F::ZERO));
    let cls = |c: u64| ["0", "1", "max", "random"][c as usize];
    Ok(CaseOk::new(nontrivial, &(F::TNAME, N, ctx_kind, is_or, vals[0].0[0].show(), vals[0].1[0].show(), nrec), cj)
        .label(format!("block:{block}"))
        .label(format!("{block}:{}x{N}:{ctx_kind}", F::TNAME))
        .label(format!("context:{ctx_kind}"))
        .label(format!("width:{N}"))
        .label(format!("operands:a={},b={}", cls(class0.0), cls(class0.1)))
        .label(masks.name()))
}

macro_rules! mul_arm {
    ($F:ty, $N:literal, base, $or:expr) => {
        (|env: &Env, src: &mut Src<'_>| {
            mul_generic::<$F, $N>(env, src, "semi-honest-base", $or, |seed, inp| {
                in_world!(seed, |w| {
                    let futs = w.contexts().into_iter().zip(inp).map(|(c, i)| Box::pin(helper_mul_base::<$F, $N>(c, $or, i)) as BoxFut<'_, _>).collect();
                    world_mul::<$F, $N>(futs).await
                })
            })
        }) as CaseFn
    };
    ($F:ty, $N:literal, dzkp_sh, $or:expr) => {
        (|env: &Env, src: &mut Src<'_>| {
            mul_generic::<$F, $N>(env, src, "semi-honest-dzkp", $or, |seed, inp| {
                in_world!(seed, |w| {
                    let futs = w.contexts().into_iter().zip(inp).map(|(c, i)| Box::pin(helper_mul_dzkp::<_, $F, $N>(c, $or, i)) as BoxFut<'_, _>).collect();
                    world_mul::<$F, $N>(futs).await
                })
            })
        }) as CaseFn
    };
    ($F:ty, $N:literal, dzkp_mal, $or:expr) => {
        (|env: &Env, src: &mut Src<'_>| {
            mul_generic::<$F, $N>(env, src, "malicious-dzkp", $or, |seed, inp| {
                in_world!(seed, |w| {
                    let futs = w.malicious_contexts().into_iter().zip(inp).map(|(c, i)| Box::pin(helper_mul_dzkp::<_, $F, $N>(c, $or, i)) as BoxFut<'_, _>).collect();
                    world_mul::<$F, $N>(futs).await
                })
            })
        }) as CaseFn
    };
    ($F:ty, $N:literal, mac, $or:expr) => {
        (|env: &Env, src: &mut Src<'_>| {
            mul_generic::<$F, 1>(env, src, "malicious-mac", $or, |seed, inp| {
                in_world!(seed, |w| {
                    let futs = w.malicious_contexts().into_iter().zip(inp).map(|(c, i)| Box::pin(helper_mul_mac::<$F>(c, $or, i)) as BoxFut<'_, _>).collect();
                    world_mul::<$F, 1>(futs).await
                })
            })
        }) as CaseFn
    };
}

fn mul_table() -> Vec<CaseFn> {
    vec![
        mul_arm!(Fp31, 1, base, false), mul_arm!(Fp31, 1, dzkp_sh, false), mul_arm!(Fp31, 1, mac, false),
        mul_arm!(Fp32BitPrime, 1, base, false), mul_arm!(Fp32BitPrime, 1, dzkp_sh, false), mul_arm!(Fp32BitPrime, 1, mac, false),
        mul_arm!(Fp32BitPrime, 32, base, false), mul_arm!(Fp32BitPrime, 32, dzkp_sh, false),
        mul_arm!(Fp61BitPrime, 1, base, false), mul_arm!(Fp61BitPrime, 1, dzkp_sh, false), mul_arm!(Fp61BitPrime, 1, mac, false),
        mul_arm!(Fp25519, 1, base, false), mul_arm!(Fp25519, 1, dzkp_sh, false), mul_arm!(Fp25519, 1, mac, false),
        mul_arm!(Fp25519, 16, base, false), mul_arm!(Fp25519, 16, dzkp_sh, false),
        mul_arm!(Gf2, 1, base, false), mul_arm!(Gf2, 1, dzkp_sh, false), mul_arm!(Gf2, 1, mac, false),
        mul_arm!(Gf8Bit, 1, base, false), mul_arm!(Gf8Bit, 1, dzkp_sh, false),
        mul_arm!(Gf32Bit, 1, base, false), mul_arm!(Gf32Bit, 1, dzkp_sh, false),
        mul_arm!(Gf32Bit, 32, base, false), mul_arm!(Gf32Bit, 32, dzkp_sh, false),
        mul_arm!(Boolean, 1, base, false), mul_arm!(Boolean, 1, dzkp_sh, false), mul_arm!(Boolean, 1, dzkp_mal, false),
        mul_arm!(Boolean, 3, base, false), mul_arm!(Boolean, 3, dzkp_sh, false), mul_arm!(Boolean, 3, dzkp_mal, false),
        mul_arm!(Boolean, 5, base, false), mul_arm!(Boolean, 5, dzkp_sh, false), mul_arm!(Boolean, 5, dzkp_mal, false),
        mul_arm!(Boolean, 8, base, false), mul_arm!(Boolean, 8, dzkp_sh, false), mul_arm!(Boolean, 8, dzkp_mal, false),
        mul_arm!(Boolean, 16, base, false), mul_arm!(Boolean, 16, dzkp_sh, false), mul_arm!(Boolean, 16, dzkp_mal, false),
        mul_arm!(Boolean, 20, base, false), mul_arm!(Boolean, 20, dzkp_sh, false), mul_arm!(Boolean, 20, dzkp_mal, false),
        mul_arm!(Boolean, 32, base, false), mul_arm!(Boolean, 32, dzkp_sh, false), mul_arm!(Boolean, 32, dzkp_mal, false),
        mul_arm!(Boolean, 64, base, false), mul_arm!(Boolean, 64, dzkp_sh, false), mul_arm!(Boolean, 64, dzkp_mal, false),
        mul_arm!(Boolean, 256, base, false), mul_arm!(Boolean, 256, dzkp_sh, false), mul_arm!(Boolean, 256, dzkp_mal, false),
        // OR = a + b - ab on shares of 0 / 1
        mul_arm!(Fp31, 1, base, true), mul_arm!(Fp31, 1, mac, true), mul_arm!(Fp32BitPrime, 1, base, true), mul_arm!(Fp32BitPrime, 1, mac, true),
        mul_arm!(Gf2, 1, base, true), mul_arm!(Gf2, 1, dzkp_sh, true),
        mul_arm!(Boolean, 1, base, true), mul_arm!(Boolean, 1, dzkp_sh, true), mul_arm!(Boolean, 1, dzkp_mal, true),
        mul_arm!(Boolean, 64, dzkp_sh, true), mul_arm!(Boolean, 64, dzkp_mal, true),
    ]
}

fn multiply_fields(env: &Env, src: &mut Src<'_>) -> CaseResult {
    let t = mul_table();
    let f = t[src.idx(t.len())];
    f(env, src)
}

// ------------------------------------------------------------------------------------------
// bit-to-field share conversion
// ------------------------------------------------------------------------------------------

const CONV_N: usize = 256;

async fn helper_conv<B, const NP: usize>(base: B, proof_chunk: usize, recs: Vec<BD<CONV_N>>) -> Result<Vec<Vec<Rep<Fp25519, NP>>>, Error>
where
    B: UpgradableContext,
    Fp25519: Vectorizable<NP>,
    Rep<Boolean, CONV_N>: BooleanProtocols<DZKPUpgraded<B>, CONV_N>,
{
    // as in compute_prf_and_reshard: validate_record mode, the conversion validates before it reveals
    let ctx = base.set_total_records(TotalRecords::specified(recs.len())?);
    let v = ctx.dzkp_validator(TEST_DZKP_STEPS, proof_chunk);
    let m = v.context();
    let r = try_join_all(recs.into_iter().enumerate().map(|(i, x)| convert_to_fp25519::<_, CONV_N, NP>(m.clone(), RecordId::from(i), x))).await;
    drop(m);
    drop(v);
    r
}

async fn world_conv<'a, B, const NP: usize>(ctxs: [B; 3], proof_chunk: usize, inputs: [Vec<BD<CONV_N>>; 3]) -> Result<Vec<Vec<Fp25519>>, String>
where
    B: UpgradableContext + 'a,
    Fp25519: Vectorizable<NP>,
    Rep<Boolean, CONV_N>: BooleanProtocols<DZKPUpgraded<B>, CONV_N>,
{
    let futs: Vec<BoxFut<'a, Vec<Vec<Rep<Fp25519, NP>>>>> = ctxs.into_iter().zip(inputs).map(|(c, inp)| Box::pin(helper_conv::<B, NP>(c, proof_chunk, inp)) as BoxFut<'a, _>).collect();
    let outs = drive3(futs).await?;
    let n = outs[0].len();
    let mut res = vec![];
    for r in 0..n {
        let chunks = outs[0][r].len();
        if chunks != CONV_N / NP || outs[1][r].len() != chunks || outs[2][r].len() != chunks {
            return Err(format!("record {r}: {chunks} output chunks, expected {}", CONV_N / NP));
        }
        let mut lanes = vec![];
        for c in 0..chunks {
            lanes.extend(recon_vals::<Fp25519, NP>([&outs[0][r][c], &outs[1][r][c], &outs[2][r][c]]).map_err(|e| format!("{e} (record {r}, chunk {c})"))?);
        }
        res.push(lanes);
    }
    Ok(res)
}

fn convert(env: &Env, src: &mut Src<'_>) -> CaseResult {
    let mode = if src.bool() { Mode::Mal } else { Mode::Sh };
    let np = src.pick(&[16usize, 16, 1]);
    // the conversion is stated for inputs of fewer than 128 bits (leakage bound)
    let bits = match src.below(4) {
        0 => src.urange(1, 127),
        _ => src.pick(&[1usize, 2, 8, 32, 63, 64, 65, 100, 126, 127]),
    };
    let nrec = src.urange(1, 2);
    let proof_chunk = src.pick(&[1usize, 2]);
    let masks = MaskMode::pick(src);
    let class0 = src.below(10);
    let seed = src.seed();
    let mut rng = StdRng::seed_from_u64(seed ^ 0xc0de);
    let mut vals: Vec<Vec<Big>> = vec![];
    for r in 0..nrec {
        vals.push((0..CONV_N).map(|l| { let c = if r == 0 && l == 0 { class0 } else { rng.gen_range(0..10) }; big_val(&mut rng, bits, c) }).collect());
    }
    let mut inputs: [Vec<BD<CONV_N>>; 3] = [vec![], vec![], vec![]];
    for v in &vals {
        let sh = share_mat::<CONV_N>(&mat_of(v, bits), &mut rng, masks);
        for (h, s) in sh.into_iter().enumerate() {
            inputs[h].push(s);
        }
    }
    let md = mode.name();
    let cj = json!({"block": "convert_to_fp25519", "mode": md, "bits": bits, "prf_chunk": np, "records": nrec, "proof_chunk": proof_chunk, "masks": masks.name(), "seed": seed.to_string(), "x0": vals[0][0].hex()});
    let res = in_world!(seed, |w| match (mode, np) {
        (Mode::Sh, 16) => world_conv::<_, 16>(w.contexts(), proof_chunk, inputs).await,
        (Mode::Sh, _) => world_conv::<_, 1>(w.contexts(), proof_chunk, inputs).await,
        (Mode::Mal, 16) => world_conv::<_, 16>(w.malicious_contexts(), proof_chunk, inputs).await,
        (Mode::Mal, _) => world_conv::<_, 1>(w.malicious_contexts(), proof_chunk, inputs).await,
    });
    let got = match res {
        Ok(g) => g,
        // a wall-clock limit is no verdict (a loaded or suspended machine hits it too)
        Err(e) if e.contains("(hang)") => return Err(CaseErr::Reject(format!("inconclusive: {e}"))),
        Err(e) => {
            let kind = if e.starts_with("INCONSISTENT") { "inconsistent-sharing" } else { "protocol-error" };
            known_or_violation(env, &format!("convert_to_fp25519:{md}:{kind}"), format!("convert_to_fp25519 ({md}, {bits} bits): {e}"), cj)?;
            return Ok(CaseOk::new(false, &0u8, Value::Null));
        }
    };
    for (r, v) in vals.iter().enumerate() {
        for l in 0..CONV_N {
            // the value as an integer modulo the group order, built by curve25519-dalek from the same little-endian bytes
            let want = Scalar::from(v[l].low_u128());
            if scalar_of(got[r][l]) != want {
                known_or_violation(
                    env,
                    &format!("convert_to_fp25519:{md}:wrong-value"),
                    format!("convert_to_fp25519 ({md}, {bits} bits, PRF chunk {np}): x={} converts to {}, expected {} (record {r}, lane {l})", v[l].hex(), got[r][l].show(), scalar_hex(&want)),
                    json!({"case": cj, "record": r, "lane": l, "x": v[l].hex(), "got": got[r][l].show()}),
                )?;
            }
        }
    }
    let nontrivial = vals.iter().flatten().any(|v| !v.is_zero());
    let bl = match bits { 1..=8 => "bits:1..8", 9..=63 => "bits:9..63", 64 => "bits:64", 65..=125 => "bits:65..125", _ => "bits:126..127" };
    Ok(CaseOk::new(nontrivial, &(md, bits, np, nrec, proof_chunk, vals[0][0]), cj)
        .label("block:convert_to_fp25519").label(format!("mode:{md}")).label(format!("prf-chunk:{np}")).label(bl).label(format!("x0-class:{class0}")).label(masks.name()))
}

// ------------------------------------------------------------------------------------------
// pseudonym function
// ------------------------------------------------------------------------------------------

async fn helper_prf<C, const N: usize>(base: C, key: Rep<Fp25519>, xs: Vec<Rep<Fp25519, N>>) -> Result<Vec<[u64; N]>, Error>
where
    C: UpgradableContext,
    Fp25519: FieldSimd<N>,
    RP25519: Vectorizable<N>,
    Rep<Fp25519, N>: PrfSharing<MacUpgraded<C, Fp25519>, N, Field = Fp25519>,
    Rep<RP25519, N>: Reveal<MacUpgraded<C, Fp25519>, Output = <RP25519 as Vectorizable<N>>::Array>,
{
    let ctx = base.set_total_records(TotalRecords::specified(xs.len())?);
    let validator = ctx.validator::<Fp25519>();
    let ctx = validator.context();
    let key = &key;
    let r = try_join_all(xs.into_iter().enumerate().map(|(i, x)| eval_dy_prf::<_, N>(ctx.clone(), RecordId::from(i), key, x))).await;
    drop(ctx);
    drop(validator);
    r
}

async fn world_prf<'a, C, const N: usize>(ctxs: [C; 3], keys: [Rep<Fp25519>; 3], inputs: [Vec<Rep<Fp25519, N>>; 3]) -> Result<[Vec<[u64; N]>; 3], String>
where
    C: UpgradableContext + 'a,
    Fp25519: FieldSimd<N>,
    RP25519: Vectorizable<N>,
    Rep<Fp25519, N>: PrfSharing<MacUpgraded<C, Fp25519>, N, Field = Fp25519>,
    Rep<RP25519, N>: Reveal<MacUpgraded<C, Fp25519>, Output = <RP25519 as Vectorizable<N>>::Array>,
{
    let futs: Vec<BoxFut<'a, Vec<[u64; N]>>> = ctxs.into_iter().zip(keys).zip(inputs).map(|((c, k), inp)| Box::pin(helper_prf::<C, N>(c, k, inp)) as BoxFut<'a, _>).collect();
    drive3(futs).await
}

/// HKDF-SHA256(compress(g^(1/(k+x))))[..8], little endian - computed with curve25519-dalek directly
fn prf_reference(k: &Scalar, x: &Scalar) -> u64 {
    use hkdf::Hkdf;
    use sha2::Sha256;
    let e = (k + x).invert();
    let p = RistrettoPoint::mul_base(&e);
    let hk = Hkdf::<Sha256>::new(None, p.compress().as_bytes());
    let mut okm = [0u8; 8];
    hk.expand(&[], &mut okm).unwrap();
    u64::from_le_bytes(okm)
}

fn prf_generic<const N: usize>(env: &Env, src: &mut Src<'_>, mode: Mode, run: impl FnOnce(u64, [Rep<Fp25519>; 3], [Vec<Rep<Fp25519, N>>; 3]) -> Result<[Vec<[u64; N]>; 3], String>) -> CaseResult
where
    Fp25519: FieldSimd<N>,
{
    let masks = MaskMode::pick(src);
    let nrec = src.urange(1, 4);
    let kclass = src.below(5);
    let xclass = src.below(5);
    let pool_size = src.urange(1, (nrec * N).min(6));
    let seed = src.seed();
    let mut rng = StdRng::seed_from_u64(seed ^ 0x9f);
    let k = scalar_of(Fp25519::genv(&mut rng, kclass));
    // a pool of distinct inputs (none equal to -k, where the function is undefined), lanes draw from it with repetition
    let mut pool: Vec<Scalar> = vec![];
    while pool.len() < pool_size {
        let c = if pool.is_empty() { xclass } else { rng.gen_range(0..6) };
        let x = match c {
            4 => Scalar::from(rng.r#gen::<u64>()),
            _ => scalar_of(Fp25519::genv(&mut rng, c)),
        };
        if x + k != Scalar::ZERO && !pool.contains(&x) {
            pool.push(x);
        } else if pool.is_empty() {
            pool.push(x + Scalar::ONE + Scalar::ONE);
        }
    }
    let pool: Vec<Scalar> = pool.into_iter().filter(|x| x + k != Scalar::ZERO).collect();
    let xs: Vec<Vec<Scalar>> = (0..nrec).map(|r| (0..N).map(|l| if r == 0 && l == 0 { pool[0] } else { pool[rng.gen_range(0..pool.len())] }).collect()).collect();
    let keys = share_vals::<Fp25519, 1>(&[Fp25519::from(k)], &mut rng, masks);
    let mut inputs: [Vec<Rep<Fp25519, N>>; 3] = [vec![], vec![], vec![]];
    for x in &xs {
        let v: Vec<Fp25519> = x.iter().map(|s| Fp25519::from(*s)).collect();
        for (h, s) in share_vals::<Fp25519, N>(&v, &mut rng, masks).into_iter().enumerate() {
            inputs[h].push(s);
        }
    }
    let md = if mode == Mode::Mal { "malicious-mac" } else { "semi-honest" };
    let cj = json!({"block": "eval_dy_prf", "mode": md, "vector_width": N, "records": nrec, "distinct_inputs": pool.len(), "key": scalar_hex(&k), "x0": scalar_hex(&pool[0]), "masks": masks.name(), "seed": seed.to_string()});
    let outs = match run(seed, keys, inputs) {
        Ok(o) => o,
        Err(e) => {
            known_or_violation(env, &format!("eval_dy_prf:{md}:protocol-error"), format!("eval_dy_prf ({md}, x{N}): {e}"), cj)?;
            return Ok(CaseOk::new(false, &0u8, Value::Null));
        }
    };
    if outs[0] != outs[1] || outs[0] != outs[2] {
        known_or_violation(env, &format!("eval_dy_prf:{md}:helpers-disagree"), "the three helpers computed different pseudonyms".into(), cj.clone())?;
    }
    let mut seen: Vec<(Scalar, u64)> = vec![];
    for (r, x) in xs.iter().enumerate() {
        for l in 0..N {
            let got = outs[0][r][l];
            let want = prf_reference(&k, &x[l]);
            if got != want {
                known_or_violation(
                    env,
                    &format!("eval_dy_prf:{md}:wrong-value"),
                    format!("eval_dy_prf ({md}, x{N}): k={} x={} gives {got:#x}, HKDF(compress(g^(1/(k+x)))) is {want:#x} (record {r}, lane {l})", scalar_hex(&k), scalar_hex(&x[l])),
                    json!({"case": cj, "record": r, "lane": l, "x": scalar_hex(&x[l])}),
                )?;
            }
            // equal inputs <=> equal pseudonyms
            for (px, pv) in &seen {
                if (*px == x[l]) != (*pv == got) {
                    known_or_violation(env, &format!("eval_dy_prf:{md}:equality-not-preserved"), format!("inputs {} and {} map to {pv:#x} and {got:#x}", scalar_hex(px), scalar_hex(&x[l])), cj.clone())?;
                }
            }
            if !seen.iter().any(|(px, _)| *px == x[l]) {
                seen.push((x[l], got));
            }
        }
    }
    let total = nrec * N;
    Ok(CaseOk::new(true, &(md, N, nrec, k.to_bytes(), pool[0].to_bytes(), pool.len()), cj)
        .label("block:eval_dy_prf").label(format!("mode:{md}")).label(format!("width:{N}"))
        .label(format!("key-class:{kclass}")).label(format!("x0-class:{xclass}"))
        .label(if pool.len() < total { "repeated-inputs" } else { "all-inputs-distinct" }).label(masks.name()))
}

fn prf(env: &Env, src: &mut Src<'_>) -> CaseResult {
    let mode = if src.bool() { Mode::Mal } else { Mode::Sh };
    let wide = src.bool();
    match (mode, wide) {
        (Mode::Sh, false) => prf_generic::<1>(env, src, mode, |seed, k, i| in_world!(seed, |w| world_prf::<_, 1>(w.contexts(), k, i).await)),
        (Mode::Sh, true) => prf_generic::<16>(env, src, mode, |seed, k, i| in_world!(seed, |w| world_prf::<_, 16>(w.contexts(), k, i).await)),
        (Mode::Mal, false) => prf_generic::<1>(env, src, mode, |seed, k, i| in_world!(seed, |w| world_prf::<_, 1>(w.malicious_contexts(), k, i).await)),
        (Mode::Mal, true) => prf_generic::<16>(env, src, mode, |seed, k, i| in_world!(seed, |w| world_prf::<_, 16>(w.malicious_contexts(), k, i).await)),
    }
}

// ------------------------------------------------------------------------------------------
// bucket aggregation
// ------------------------------------------------------------------------------------------

async fn helper_agg<B, OV, const N: usize>(base: B, rows: Vec<BD<N>>) -> Result<BD<N>, Error>
where
    B: UpgradableContext,
    OV: BooleanArray + U128Conversions,
    Boolean: FieldSimd<N>,
    Rep<Boolean, N>: BooleanProtocols<DZKPUpgraded<B>, N>,
{
    // as in breakdown_reveal_aggregation: one proof over the whole aggregation
    let v = base.dzkp_validator(TEST_DZKP_STEPS, usize::MAX);
    let ctx = v.context();
    let n = rows.len();
    let r = aggregate_values::<_, OV, N>(ctx, stream::iter(rows.into_iter().map(Ok)).boxed(), n, None).await?;
    v.validate().await?;
    Ok(r)
}

async fn world_agg<'a, B, OV, const N: usize>(ctxs: [B; 3], inputs: [Vec<BD<N>>; 3]) -> Result<Mat, String>
where
    B: UpgradableContext + 'a,
    OV: BooleanArray + U128Conversions,
    Boolean: FieldSimd<N>,
    Rep<Boolean, N>: BooleanProtocols<DZKPUpgraded<B>, N>,
{
    let futs: Vec<BoxFut<'a, BD<N>>> = ctxs.into_iter().zip(inputs).map(|(c, inp)| Box::pin(helper_agg::<B, OV, N>(c, inp)) as BoxFut<'a, _>).collect();
    let outs = drive3(futs).await?;
    recon_mat::<N>([&outs[0], &outs[1], &outs[2]]).map_err(|e| format!("INCONSISTENT {e}"))
}

const AGG_COL_CLASSES: [&str; 6] = ["all-zero", "all-max", "sum=cap-1", "sum=cap", "sum=cap+1", "random"];

fn agg_generic<const N: usize>(env: &Env, src: &mut Src<'_>, mode: Mode, ov_bits: usize, run: impl FnOnce(u64, [Vec<BD<N>>; 3]) -> Result<Mat, String>) -> CaseResult
where
    Boolean: FieldSimd<N>,
{
    let masks = MaskMode::pick(src);
    let rows = match src.below(8) {
        0 => 0,
        1 => 1,
        2 => 2,
        3 => 3,
        4 => 1usize << src.range(2, 5),
        5 => (1usize << src.range(2, 5)) + 1,
        _ => src.urange(4, if env.thorough() { 70 } else { 40 }),
    };
    // input width never above the output width (the output type has to hold one contribution)
    let tv_bits = match src.below(4) {
        0 => ov_bits,
        1 => src.urange(0, ov_bits),
        _ => src.urange(1, ov_bits.min(8)),
    };
    let class0 = src.idx(AGG_COL_CLASSES.len());
    let seed = src.seed();
    let mut rng = StdRng::seed_from_u64(seed ^ 0xa66);
    let cap: u128 = (1u128 << ov_bits) - 1;
    let vmax: u128 = (1u128 << tv_bits) - 1;
    // columns: cols[lane][row]
    let mut cols: Vec<Vec<u128>> = vec![];
    for l in 0..N {
        let class = if l == 0 { class0 } else { rng.gen_range(0..AGG_COL_CLASSES.len()) };
        let col: Vec<u128> = match class {
            0 => vec![0; rows],
            1 => vec![vmax; rows],
            2 | 3 | 4 => {
                // contributions that add up to exactly cap-1 / cap / cap+1 where the width allows
                let target = cap + class as u128 - 3;
                let mut left = target;
                let mut c = vec![0u128; rows];
                let mut order: Vec<usize> = (0..rows).collect();
                for i in (1..rows).rev() {
                    order.swap(i, rng.gen_range(0..=i));
                }
                for (k, &i) in order.iter().enumerate() {
                    let remaining = (rows - k - 1) as u128;
                    let lo = left.saturating_sub(remaining * vmax).min(vmax);
                    let hi = left.min(vmax);
                    let v = if hi > lo { lo + rng.r#gen::<u128>() % (hi - lo + 1) } else { lo };
                    c[i] = v;
                    left -= v;
                }
                c
            }
            _ => (0..rows).map(|_| if vmax == 0 { 0 } else { rng.r#gen::<u128>() & vmax }).collect(),
        };
        cols.push(col);
    }
    let mut inputs: [Vec<BD<N>>; 3] = [vec![], vec![], vec![]];
    for r in 0..rows {
        let vals: Vec<Big> = (0..N).map(|l| Big::from_u128(cols[l][r])).collect();
        for (h, s) in share_mat::<N>(&mat_of(&vals, tv_bits), &mut rng, masks).into_iter().enumerate() {
            inputs[h].push(s);
        }
    }
    let md = mode.name();
    let cj = json!({"block": "aggregate_values", "mode": md, "buckets": N, "output_bits": ov_bits, "input_bits": tv_bits, "rows": rows, "masks": masks.name(), "seed": seed.to_string(),
        "column0": cols[0].iter().take(12).map(|v| v.to_string()).collect::<Vec<_>>()});
    let out = match run(seed, inputs) {
        Ok(o) => o,
        // a wall-clock limit is no verdict (a loaded or suspended machine hits it too)
        Err(e) if e.contains("(hang)") => return Err(CaseErr::Reject(format!("inconclusive: {e}"))),
        Err(e) => {
            let kind = if e.starts_with("INCONSISTENT") { "inconsistent-sharing" } else { "protocol-error" };
            known_or_violation(env, &format!("aggregate_values:{md}:{kind}"), format!("aggregate_values ({md}, {N} buckets, {tv_bits}->{ov_bits} bits, {rows} rows): {e}"), cj)?;
            return Ok(CaseOk::new(false, &0u8, Value::Null));
        }
    };
    if out.len() != ov_bits {
        known_or_violation(env, &format!("aggregate_values:{md}:wrong-length"), format!("output has {} bits, the output type has {ov_bits}", out.len()), cj.clone())?;
    } else {
        for l in 0..N {
            let sum: u128 = cols[l].iter().sum();
            let want = sum.min(cap);
            let got = lane_value(&out, l).low_u128();
            if got != want {
                known_or_violation(
                    env,
                    &format!("aggregate_values:{md}:wrong-value"),
                    format!("aggregate_values ({md}, {N} buckets, {tv_bits}->{ov_bits} bits, {rows} rows): bucket {l} with column sum {sum} aggregates to {got}, expected {want}"),
                    json!({"case": cj, "bucket": l, "column": cols[l].iter().map(|v| v.to_string()).collect::<Vec<_>>(), "got": got.to_string(), "expected": want.to_string()}),
                )?;
            }
        }
    }
    let saturating = cols.iter().any(|c| c.iter().sum::<u128>() > cap);
    let nontrivial = cols.iter().flatten().any(|v| *v != 0);
    Ok(CaseOk::new(nontrivial, &(md, N, ov_bits, tv_bits, rows, cols[0].clone()), cj)
        .label("block:aggregate_values").label(format!("mode:{md}")).label(format!("width:{N}")).label(format!("output-bits:{ov_bits}"))
        .label(format!("column0:{}", AGG_COL_CLASSES[class0]))
        .label(if saturating { "some-bucket-saturates" } else { "no-bucket-saturates" })
        .label(match rows { 0 => "rows:0", 1 => "rows:1", 2 | 3 => "rows:2..3", _ if rows.is_power_of_two() => "rows:2^k", _ if rows % 2 == 1 => "rows:odd", _ => "rows:even" })
        .label(if tv_bits == ov_bits { "input-width=output-width" } else if tv_bits == 0 { "input-width=0" } else { "input-width<output-width" })
        .label(masks.name()))
}

macro_rules! agg_arm {
    ($OV:ty, $bits:literal, $N:literal, sh) => {
        (|env: &Env, src: &mut Src<'_>| agg_generic::<$N>(env, src, Mode::Sh, $bits, |seed, inp| in_world!(seed, |w| world_agg::<_, $OV, $N>(w.contexts(), inp).await))) as CaseFn
    };
    ($OV:ty, $bits:literal, $N:literal, mal) => {
        (|env: &Env, src: &mut Src<'_>| agg_generic::<$N>(env, src, Mode::Mal, $bits, |seed, inp| in_world!(seed, |w| world_agg::<_, $OV, $N>(w.malicious_contexts(), inp).await))) as CaseFn
    };
}

fn agg_table() -> Vec<CaseFn> {
    vec![
        agg_arm!(BA3, 3, 1, sh), agg_arm!(BA3, 3, 8, sh), agg_arm!(BA3, 3, 16, mal),
        agg_arm!(BA5, 5, 3, sh), agg_arm!(BA5, 5, 32, mal),
        agg_arm!(BA8, 8, 1, sh), agg_arm!(BA8, 8, 3, sh), agg_arm!(BA8, 8, 8, sh), agg_arm!(BA8, 8, 16, sh), agg_arm!(BA8, 8, 32, sh), agg_arm!(BA8, 8, 256, sh),
        agg_arm!(BA8, 8, 1, mal), agg_arm!(BA8, 8, 16, mal), agg_arm!(BA8, 8, 32, mal), agg_arm!(BA8, 8, 256, mal),
        agg_arm!(BA16, 16, 8, sh), agg_arm!(BA16, 16, 32, sh), agg_arm!(BA16, 16, 256, sh), agg_arm!(BA16, 16, 32, mal), agg_arm!(BA16, 16, 256, mal),
        agg_arm!(BA32, 32, 16, sh), agg_arm!(BA32, 32, 256, sh), agg_arm!(BA32, 32, 16, mal), agg_arm!(BA32, 32, 256, mal),
    ]
}

fn aggregate(env: &Env, src: &mut Src<'_>) -> CaseResult {
    let t = agg_table();
    let f = t[src.idx(t.len())];
    f(env, src)
}

// ------------------------------------------------------------------------------------------
// share_known_value, reshare, validate_replicated_shares
// ------------------------------------------------------------------------------------------

fn role_of(h: usize) -> Role {
    [Role::H1, Role::H2, Role::H3][h]
}

fn basics_generic<F: TField>(env: &Env, src: &mut Src<'_>) -> CaseResult
where
    Rep<F>: FromPrss,
{
    let which = src.below(3);
    let mal_ctx = src.bool();
    let masks = MaskMode::pick(src);
    let class = src.below(5);
    let seed = src.seed();
    let mut rng = StdRng::seed_from_u64(seed ^ 0xba51c);
    let ctxname = if mal_ctx { "malicious-base-context" } else { "semi-honest-base-context" };
    match which {
        0 => {
            // share_known_value
            let v = F::genv(&mut rng, class);
            let cj = json!({"block": "share_known_value", "type": F::TNAME, "context": ctxname, "value": v.show()});
            let shares: [Rep<F>; 3] = in_world!(seed, |w| if mal_ctx {
                w.malicious_contexts().map(|c| Rep::<F>::share_known_value(&c, v))
            } else {
                w.contexts().map(|c| Rep::<F>::share_known_value(&c, v))
            });
            match recon_vals::<F, 1>([&shares[0], &shares[1], &shares[2]]) {
                Err(e) => known_or_violation(env, "share_known_value:inconsistent-sharing", format!("share_known_value::<{}>({}): {e}", F::TNAME, v.show()), cj.clone())?,
                Ok(z) if z[0] != v => known_or_violation(env, "share_known_value:wrong-value", format!("share_known_value::<{}>({}) reconstructs to {}", F::TNAME, v.show(), z[0].show()), cj.clone())?,
                Ok(_) => {}
            }
            Ok(CaseOk::new(v != F::ZERO, &("known", F::TNAME, v.show(), mal_ctx), cj).label("block:share_known_value").label(format!("type:{}", F::TNAME)).label(format!("context:{ctxname}")).label(format!("value-class:{class}")))
        }
        1 => {
            // reshare towards each helper; the target helper's own input share is not an input of the protocol
            let to = src.idx(3);
            let garbage_target = src.bool();
            let nrec = src.urange(1, 5);
            let vals: Vec<F> = (0..nrec).map(|i| { let c = if i == 0 { class } else { rng.gen_range(0..6) }; F::genv(&mut rng, c) }).collect();
            let mut inputs: [Vec<Rep<F>>; 3] = [vec![], vec![], vec![]];
            for v in &vals {
                for (h, s) in share_vals::<F, 1>(&[*v], &mut rng, masks).into_iter().enumerate() {
                    inputs[h].push(if h == to && garbage_target { Rep::<F>::new(F::genv(&mut rng, 9), F::genv(&mut rng, 9)) } else { s });
                }
            }
            let cj = json!({"block": "reshare", "type": F::TNAME, "context": ctxname, "to_helper": to + 1, "target_input_replaced": garbage_target, "records": nrec, "v0": vals[0].show(), "masks": masks.name(), "seed": seed.to_string()});
            async fn helper<C: Context, F: Field>(ctx: C, to: Role, xs: Vec<Rep<F>>) -> Result<Vec<Rep<F>>, Error> {
                let ctx = ctx.set_total_records(TotalRecords::specified(xs.len())?);
                try_join_all(xs.iter().enumerate().map(|(i, x)| x.reshare(ctx.clone(), RecordId::from(i), to))).await
            }
            let outs = in_world!(seed, |w| if mal_ctx {
                let futs: Vec<BoxFut<'_, Vec<Rep<F>>>> = w.malicious_contexts().into_iter().zip(inputs).map(|(c, i)| Box::pin(helper::<_, F>(c, role_of(to), i)) as BoxFut<'_, _>).collect();
                drive3(futs).await
            } else {
                let futs: Vec<BoxFut<'_, Vec<Rep<F>>>> = w.contexts().into_iter().zip(inputs).map(|(c, i)| Box::pin(helper::<_, F>(c, role_of(to), i)) as BoxFut<'_, _>).collect();
                drive3(futs).await
            });
            match outs {
                Err(e) => known_or_violation(env, "reshare:protocol-error", format!("reshare over {}: {e}", F::TNAME), cj.clone())?,
                Ok(outs) => {
                    for (r, v) in vals.iter().enumerate() {
                        match recon_vals::<F, 1>([&outs[0][r], &outs[1][r], &outs[2][r]]) {
                            Err(e) => known_or_violation(env, "reshare:inconsistent-sharing", format!("reshare over {} to H{}: {e}", F::TNAME, to + 1), cj.clone())?,
                            Ok(z) if z[0] != *v => known_or_violation(env, "reshare:wrong-value", format!("reshare over {} to H{}: {} became {}", F::TNAME, to + 1, v.show(), z[0].show()), cj.clone())?,
                            Ok(_) => {}
                        }
                    }
                }
            }
            Ok(CaseOk::new(vals.iter().any(|v| *v != F::ZERO), &("reshare", F::TNAME, to, garbage_target, vals[0].show(), nrec, mal_ctx), cj)
                .label("block:reshare").label(format!("type:{}", F::TNAME)).label(format!("context:{ctxname}")).label(format!("to:H{}", to + 1))
                .label(if garbage_target { "target-input-replaced" } else { "target-input-consistent" }).label(masks.name()))
        }
        _ => {
            // validate_replicated_shares accepts a consistent vector and rejects a single altered copy
            let len = src.urange(1, 40);
            let vals: Vec<F> = (0..len).map(|i| { let c = if i == 0 { class } else { rng.gen_range(0..6) }; F::genv(&mut rng, c) }).collect();
            let mut lefts: [Vec<F>; 3] = [vec![], vec![], vec![]];
            let mut rights: [Vec<F>; 3] = [vec![], vec![], vec![]];
            for v in &vals {
                for (h, s) in share_vals::<F, 1>(&[*v], &mut rng, masks).into_iter().enumerate() {
                    lefts[h].push(s.left());
                    rights[h].push(s.right());
                }
            }
            let (fh, fright, fidx) = (src.idx(3), src.bool(), src.idx(len));
            async fn helper<C: Context, F: Field>(ctx: C, l: Vec<F>, r: Vec<F>) -> Result<Result<(), String>, Error> {
                Ok(validate_replicated_shares(ctx, l.iter(), r.iter()).await.map_err(|e| format!("{e:?}")))
            }
            let run = |lefts: [Vec<F>; 3], rights: [Vec<F>; 3], tag: u64| {
                in_world!(seed ^ tag, |w| if mal_ctx {
                    let futs: Vec<BoxFut<'_, Result<(), String>>> = w.malicious_contexts().into_iter().zip(lefts).zip(rights).map(|((c, l), r)| Box::pin(helper::<_, F>(c, l, r)) as BoxFut<'_, _>).collect();
                    drive3(futs).await
                } else {
                    let futs: Vec<BoxFut<'_, Result<(), String>>> = w.contexts().into_iter().zip(lefts).zip(rights).map(|((c, l), r)| Box::pin(helper::<_, F>(c, l, r)) as BoxFut<'_, _>).collect();
                    drive3(futs).await
                })
            };
            let cj = json!({"block": "validate_replicated_shares", "type": F::TNAME, "context": ctxname, "len": len, "altered": {"helper": fh + 1, "copy": if fright {"right"} else {"left"}, "index": fidx}, "masks": masks.name(), "seed": seed.to_string()});
            match run(lefts.clone(), rights.clone(), 0) {
                Err(e) => known_or_violation(env, "validate_replicated_shares:protocol-error", e, cj.clone())?,
                Ok(res) => {
                    if let Some(h) = res.iter().position(Result::is_err) {
                        known_or_violation(env, "validate_replicated_shares:consistent-rejected", format!("H{} rejects a consistent sharing of {len} {} values: {:?}", h + 1, F::TNAME, res[h]), cj.clone())?;
                    }
                }
            }
            // alter one copy: a different element of the same type
            let (mut l2, mut r2) = (lefts, rights);
            let cell = if fright { &mut r2[fh][fidx] } else { &mut l2[fh][fidx] };
            *cell = *cell + F::ONE;
            // the copy of H_h.right is checked by H_{h+1} (against its left), H_h.left by H_h itself
            let detector = if fright { (fh + 1) % 3 } else { fh };
            match run(l2, r2, 1) {
                Err(e) => known_or_violation(env, "validate_replicated_shares:protocol-error", e, cj.clone())?,
                Ok(res) => {
                    if !res.iter().any(|r| r.as_ref().err().is_some_and(|e| e.contains("InconsistentShares"))) {
                        known_or_violation(env, "validate_replicated_shares:altered-accepted", format!("no helper rejects a sharing whose {} copy at H{} index {fidx} was altered: {res:?}", if fright { "right" } else { "left" }, fh + 1), cj.clone())?;
                    } else if res[detector].is_ok() {
                        known_or_violation(env, "validate_replicated_shares:wrong-detector", format!("H{} (which compares the altered copy) accepted: {res:?}", detector + 1), cj.clone())?;
                    }
                }
            }
            Ok(CaseOk::new(true, &("validate", F::TNAME, len, fh, fright, fidx, mal_ctx), cj)
                .label("block:validate_replicated_shares").label(format!("type:{}", F::TNAME)).label(format!("context:{ctxname}"))
                .label(format!("altered:H{}.{}", fh + 1, if fright { "right" } else { "left" }))
                .label(if fidx == 0 { "altered-index:first" } else if fidx == len - 1 { "altered-index:last" } else { "altered-index:middle" }).label(masks.name()))
        }
    }
}

fn basics(env: &Env, src: &mut Src<'_>) -> CaseResult {
    match src.below(8) {
        0 => basics_generic::<Fp31>(env, src),
        1 => basics_generic::<Fp32BitPrime>(env, src),
        2 => basics_generic::<Fp61BitPrime>(env, src),
        3 => basics_generic::<Fp25519>(env, src),
        4 => basics_generic::<Gf2>(env, src),
        5 => basics_generic::<Gf8Bit>(env, src),
        6 => basics_generic::<Gf32Bit>(env, src),
        _ => basics_generic::<Boolean>(env, src),
    }
}

// ------------------------------------------------------------------------------------------
// sub-checks
// ------------------------------------------------------------------------------------------

pub fn subs(_env: &Env) -> Vec<Sub> {
    let n_small = small_combos().len() as u64;
    vec![
        Sub::exhaustive("exh_small", n_small, n_small, exh_small,
            "every (circuit, mode, vector width, |x|, |y|) combination with |x|,|y| in {3,4} (BA3/BA4-sized bit-decomposed operands, equal and unequal lengths as far as the doc comments allow): one case runs ALL operand pairs (all (cond, t, f) triples for select over BA3 and BA5, all pairs for integer_sat_sub over BA3 and BA5) laid out over the lanes and records of one world; circuits integer_add (sum mod 2^|x| and carry), integer_sat_add, compare_gt, integer_mul (x unsigned, y two's complement, |x|+|y| output bits), bool_or, integer_sub, compare_geq, integer_sat_sub, select; semi-honest DZKP context and DZKP-malicious context with validate(); vector widths = every width for which the circuit is implemented in that mode; oracle = 512-bit limb arithmetic + replicated-sharing consistency of every output bit"),
        Sub::exhaustive("exh_8bit", 3072, 3072, exh_8bit,
            "all 2^16 pairs of 8-bit operands for integer_add, integer_sat_add, compare_gt (256 pairs per call through the N=256 vectorisation) and integer_sub, compare_geq, integer_sat_sub over BA8 (not vectorised: 256 records of one world), in both modes: case i = (mode, circuit, x) with y = 0..=255"),
        Sub::random("bool_random", 64, 8000, 80_000, bool_random,
            "circuits as in exh_small with |x| in 1..=256 biased to {16,17,24,31,32,33,48,63,64,65,96,127,128,129,200,255,256} (integer_mul: |x|,|y| <= 32 quick / 64 thorough; select and integer_sat_sub over BA{3,5,8,16,20,32,64,256}), |y| equal / narrower / wider where the doc comment allows (comparisons: a wider y has zero excess bits; integer_sat_add: never wider; bool_or: unequal lengths are either refused - the documented panic - or answered with the OR of the two integers at the longer length), every implemented vector width, 1-6 records, share masks all-zero / all-one / random; operand pairs per lane from the classes zero-zero, ones-ones, equal, carry chain (2^k-1)+1, full carry chain, x+y in {2^n-2..2^n+1} (saturation exactly at the limit), neighbours x=y+-1, boundary-boundary, powers of two, random, small y, differ-in-msb; non-trivial = some operand non-zero; distinct by (circuit, mode, width, lengths, first operand pair, record count)")
            .shrink_iters(40),
        Sub::random("multiply_fields", 40, 5000, 150_000, multiply_fields,
            "multiply over Fp31, Fp32BitPrime (x1, x32), Fp61BitPrime, Fp25519 (x1, x16), Gf2, Gf8Bit, Gf32Bit (x1, x32), Boolean x {1,3,5,8,16,20,32,64,256} on the base semi-honest context, the DZKP semi-honest context, the MAC-malicious context (prime fields, Fp25519, Gf2: upgrade, multiply, validate_record) and the DZKP-malicious context (Boolean, validate()); field OR on 0/1 shares; operands 0, 1, largest element, random; 1-8 records; oracle = u128 modular product / carry-less product with long division by the reduction polynomial / curve25519-dalek scalar product + consistency of the product sharing")
            .shrink_iters(40),
        Sub::random("convert", 40, 500, 8_000, convert,
            "convert_to_fp25519 with conversion chunk 256 and PRF chunk {16,1}, inputs of 1..=127 bits (the documented limit is < 128) biased to {1,2,8,32,63,64,65,100,126,127}, 1-2 records of 256 values from the classes 0, 1, all-ones, 2^k, 2^k+-1, random, proof chunk {1,2}, semi-honest and DZKP-malicious (validate_record inside the conversion); oracle: reconstructed Fp25519 equals Scalar::from(value) and all 256/NP output chunks are consistent sharings")
            .shrink_iters(10),
        Sub::random("prf", 40, 1500, 40_000, prf,
            "eval_dy_prf with vector width {1,16}, 1-4 records, semi-honest and MAC-malicious validators; key and inputs from {0, 1, -1, random, 64-bit}; lanes draw from a pool of 1-6 distinct inputs so equal inputs occur; oracle: all helpers agree, every pseudonym equals HKDF-SHA256(compress(g^(1/(k+x))))[..8] computed with curve25519-dalek from the reconstructed key and input, equal inputs <=> equal pseudonyms")
            .shrink_iters(20),
        Sub::random("aggregate", 40, 4000, 60_000, aggregate,
            "aggregate_values over 24 (output type, bucket count, mode) combinations (BA3/BA5/BA8/BA16/BA32 x {1,3,8,16,32,256} buckets, DZKP semi-honest and malicious), 0..40 rows (0,1,2,3,2^k,2^k+1,random), input width 0..=output width, columns all-zero / all-max / summing to exactly cap-1, cap, cap+1 / random; oracle: every bucket = min(column sum, 2^|OV|-1), output has |OV| bits and is a consistent sharing")
            .shrink_iters(30),
        Sub::random("basics", 40, 4000, 100_000, basics,
            "share_known_value (reconstructs to the value), reshare towards each helper (value preserved, consistent; optionally with the target helper's own input replaced, which the protocol does not read) and validate_replicated_shares (consistent vector of 1-40 values accepted by all; one altered copy rejected by the helper that compares it) over Fp31, Fp32BitPrime, Fp61BitPrime, Fp25519, Gf2, Gf8Bit, Gf32Bit, Boolean on semi-honest and malicious base contexts")
            .shrink_iters(40),
    ]
}
