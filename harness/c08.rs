// C08 - every value type advertised as a field is a field with canonical elements.
//
// Oracles: the field axioms themselves (exhaustive on the small fields), an independent
// integer / carry-less-polynomial reference model for + - * neg, Fermat inverses, modulus
// certificates (Miller-Rabin, Rabin irreducibility) computed by reference code, and plain-sum
// references for the derived helpers (accumulators, batch inversion, Lagrange tables, share and
// array arithmetic).

use generic_array::GenericArray;
use serde_json::json;
use typenum::Unsigned;

use super::common::*;
use crate::{
    ff::{
        Field, Fp31, Fp32BitPrime, Fp61BitPrime, GaloisField, Gf2, Gf3Bit, Gf8Bit, Gf9Bit, Gf20Bit,
        Gf32Bit, Gf40Bit, MultiplyAccumulate, MultiplyAccumulator, MultiplyAccumulatorArray,
        PrimeField, Serializable, U128Conversions,
        boolean::Boolean,
        boolean_array::{BA3, BA4, BA5, BA6, BA7, BA8, BA16, BA20, BA32, BA64, BA96, BA112, BA144, BA256},
        ec_prime_field::Fp25519,
    },
    protocol::{
        context::dzkp_field::DZKPBaseField,
        ipa_prf::ipa_verif_h6::{CanonicalLagrangeDenominator, LagrangeTable},
    },
    secret_sharing::{SharedValue, StdArray, replicated::semi_honest::AdditiveShare},
};

pub const LEVEL: &str = "exploration";

// ------------------------------------------------------------------------------------------
// reference models
// ------------------------------------------------------------------------------------------

#[derive(Clone, Copy, Debug)]
pub enum Kind {
    Prime(u128),
    Gf { bits: u32, poly: u128 },
}

impl Kind {
    fn order(self) -> u128 {
        match self {
            Kind::Prime(p) => p,
            Kind::Gf { bits, .. } => 1u128 << bits,
        }
    }
    fn add(self, a: u128, b: u128) -> u128 {
        match self {
            Kind::Prime(p) => (a + b) % p,
            Kind::Gf { .. } => a ^ b,
        }
    }
    fn neg(self, a: u128) -> u128 {
        match self {
            Kind::Prime(p) => (p - a) % p,
            Kind::Gf { .. } => a,
        }
    }
    fn sub(self, a: u128, b: u128) -> u128 {
        self.add(a, self.neg(b))
    }
    fn mul(self, a: u128, b: u128) -> u128 {
        match self {
            Kind::Prime(p) => mulmod(a, b, p),
            Kind::Gf { bits, poly } => {
                // schoolbook carry-less product, then long division by poly
                let mut prod = 0u128;
                for i in 0..bits {
                    if (b >> i) & 1 == 1 {
                        prod ^= a << i;
                    }
                }
                for i in (bits..2 * bits).rev() {
                    if (prod >> i) & 1 == 1 {
                        prod ^= poly << (i - bits);
                    }
                }
                prod
            }
        }
    }
    fn reduce(self, v: u128) -> u128 {
        match self {
            Kind::Prime(p) => v % p,
            Kind::Gf { bits, .. } => v & ((1u128 << bits) - 1),
        }
    }
}

fn mulmod(a: u128, b: u128, m: u128) -> u128 {
    // a, b < m < 2^64
    (a * b) % m
}

fn powmod(mut b: u128, mut e: u128, m: u128) -> u128 {
    let mut r = 1u128;
    b %= m;
    while e > 0 {
        if e & 1 == 1 {
            r = mulmod(r, b, m);
        }
        b = mulmod(b, b, m);
        e >>= 1;
    }
    r
}

/// deterministic Miller-Rabin for n < 2^64
fn is_prime_u64(n: u128) -> bool {
    if n < 2 {
        return false;
    }
    for p in [2u128, 3, 5, 7, 11, 13, 17, 19, 23, 29, 31, 37] {
        if n % p == 0 {
            return n == p;
        }
    }
    let mut d = n - 1;
    let mut s = 0;
    while d % 2 == 0 {
        d /= 2;
        s += 1;
    }
    'w: for a in [2u128, 3, 5, 7, 11, 13, 17, 19, 23, 29, 31, 37] {
        let mut x = powmod(a, d, n);
        if x == 1 || x == n - 1 {
            continue;
        }
        for _ in 0..s - 1 {
            x = mulmod(x, x, n);
            if x == n - 1 {
                continue 'w;
            }
        }
        return false;
    }
    true
}

// polynomials over GF(2) as u128 bit masks
fn pdeg(p: u128) -> i32 {
    127 - p.leading_zeros() as i32
}
fn pmod(mut a: u128, m: u128) -> u128 {
    let dm = pdeg(m);
    while a != 0 && pdeg(a) >= dm {
        a ^= m << (pdeg(a) - dm);
    }
    a
}
fn pmulmod(a: u128, b: u128, m: u128) -> u128 {
    // a,b reduced mod m, deg m <= 63
    let mut r = 0u128;
    let mut a = a;
    let mut b = b;
    while b != 0 {
        if b & 1 == 1 {
            r ^= a;
        }
        b >>= 1;
        a <<= 1;
        a = pmod(a, m);
    }
    pmod(r, m)
}
fn pgcd(mut a: u128, mut b: u128) -> u128 {
    while b != 0 {
        let t = pmod(a, b);
        a = b;
        b = t;
    }
    a
}
/// Rabin's irreducibility test for f over GF(2), deg f = n.
fn is_irreducible_gf2(f: u128) -> bool {
    let n = pdeg(f);
    if n < 1 {
        return false;
    }
    // x^(2^k) mod f by repeated squaring
    let frob = |k: i32| {
        let mut t = pmod(2, f); // x
        for _ in 0..k {
            t = pmulmod(t, t, f);
        }
        t
    };
    if frob(n) != pmod(2, f) {
        return false;
    }
    let mut m = n;
    let mut q = 2;
    let mut primes = vec![];
    while q * q <= m {
        if m % q == 0 {
            primes.push(q);
            while m % q == 0 {
                m /= q;
            }
        }
        q += 1;
    }
    if m > 1 {
        primes.push(m);
    }
    for q in primes {
        let h = frob(n / q) ^ pmod(2, f);
        if pgcd(f, h) != 1 {
            return false;
        }
    }
    true
}

// ------------------------------------------------------------------------------------------
// the field types under test
// ------------------------------------------------------------------------------------------

pub trait Fx: Field + U128Conversions + Serializable {
    const KIND: Kind;
    const TNAME: &'static str;
}

macro_rules! fx_prime {
    ($t:ty) => {
        impl Fx for $t {
            const KIND: Kind = Kind::Prime(<$t as PrimeField>::PRIME as u128);
            const TNAME: &'static str = stringify!($t);
        }
    };
}
macro_rules! fx_gf {
    ($t:ty) => {
        impl Fx for $t {
            const KIND: Kind = Kind::Gf { bits: <$t as SharedValue>::BITS, poly: <$t as GaloisField>::POLYNOMIAL };
            const TNAME: &'static str = stringify!($t);
        }
    };
}
fx_prime!(Fp31);
fx_prime!(Fp32BitPrime);
fx_prime!(Fp61BitPrime);
fx_prime!(Boolean);
fx_gf!(Gf2);
fx_gf!(Gf3Bit);
fx_gf!(Gf8Bit);
fx_gf!(Gf9Bit);
fx_gf!(Gf20Bit);
fx_gf!(Gf32Bit);
fx_gf!(Gf40Bit);

fn val<F: Fx>(x: F) -> u128 {
    U128Conversions::as_u128(&x)
}

fn el<F: Fx>(v: u128) -> F {
    // constructing elements from canonical integers: `truncate_from` of a value below the order
    F::truncate_from(v)
}

/// canonical: the raw value is below the order, and the serialised form is the little-endian
/// integer which deserialises to an equal element.
fn canonical<F: Fx>(x: F) -> Result<(), String> {
    let v = val(x);
    if v >= F::KIND.order() {
        return Err(format!("raw value {v} is not below the field order {}", F::KIND.order()));
    }
    let mut buf = GenericArray::<u8, F::Size>::default();
    x.serialize(&mut buf);
    let n = <F::Size as Unsigned>::USIZE;
    let expect = &v.to_le_bytes()[..n.min(16)];
    if &buf[..n.min(16)] != expect {
        return Err(format!("serialised bytes {:?} are not the little-endian value {v}", &buf[..]));
    }
    match F::deserialize(&buf) {
        Ok(y) if y == x => Ok(()),
        Ok(y) => Err(format!("deserialize(serialize(x)) = {y:?} != {x:?}")),
        Err(e) => Err(format!("own serialisation does not deserialise: {e}")),
    }
}

struct Chk<'e> {
    env: &'e Env,
    ty: &'static str,
    case: serde_json::Value,
}

impl Chk<'_> {
    fn fail(&self, kind: &str, msg: String) -> Result<(), CaseErr> {
        known_or_violation(self.env, &format!("{kind}:{}", self.ty), msg, self.case.clone())
    }
    fn eq<F: Fx>(&self, kind: &str, what: &str, got: F, want: u128) -> Result<(), CaseErr> {
        if let Err(e) = canonical(got) {
            self.fail(&format!("noncanonical-{kind}"), format!("{what} = {got:?}: {e}"))?;
        }
        if val(got) != want && F::KIND.reduce(val(got)) != want {
            return self.fail(kind, format!("{what} = {got:?}, reference value {want}"));
        } else if val(got) != want {
            // equal only after reduction: a canonicity failure, already reported above unless known
        }
        Ok(())
    }
}

/// all binary-operation laws for one pair, against the reference model
fn pair_laws<F: Fx>(env: &Env, a: u128, b: u128) -> Result<(), CaseErr> {
    let k = F::KIND;
    let (x, y): (F, F) = (el(a), el(b));
    let c = Chk { env, ty: F::TNAME, case: json!({"type": F::TNAME, "a": a.to_string(), "b": b.to_string()}) };
    if val(x) != a || val(y) != b {
        return c.fail("construct", format!("truncate_from({a})={x:?} truncate_from({b})={y:?}"));
    }
    c.eq("add", "a+b", x + y, k.add(a, b))?;
    c.eq("sub", "a-b", x - y, k.sub(a, b))?;
    c.eq("mul", "a*b", x * y, k.mul(a, b))?;
    let mut t = x;
    t += y;
    c.eq("add", "a+=b", t, k.add(a, b))?;
    let mut t = x;
    t -= y;
    c.eq("sub", "a-=b", t, k.sub(a, b))?;
    let mut t = x;
    t *= y;
    c.eq("mul", "a*=b", t, k.mul(a, b))?;
    if b == 0 {
        let n = -x;
        if a == 0 {
            if n != F::ZERO {
                c.fail("neg-zero", format!("-0 = {n:?} which is not the zero element"))?;
            }
            if let Err(e) = canonical(n) {
                c.fail("neg-zero", format!("-0 = {n:?} is not canonical: {e}"))?;
            }
        } else {
            c.eq("neg", "-a", n, k.neg(a))?;
        }
        if x + n != F::ZERO && !(a == 0) {
            c.fail("neg", format!("a + (-a) = {:?}", x + n))?;
        }
        // identities
        if x + F::ZERO != x || x * F::ONE != x || x * F::ZERO != F::ZERO || x - F::ZERO != x {
            c.fail("identity", format!("identities fail for {x:?}"))?;
        }
    }
    // commutativity
    if x + y != y + x || x * y != y * x {
        c.fail("commutative", format!("{x:?},{y:?}"))?;
    }
    // no zero divisors
    if a != 0 && b != 0 && x * y == F::ZERO {
        c.fail("zero-divisor", format!("{x:?} * {y:?} = 0 with both factors non-zero"))?;
    }
    Ok(())
}

fn triple_laws<F: Fx>(env: &Env, a: u128, b: u128, cc: u128) -> Result<(), CaseErr> {
    let (x, y, z): (F, F, F) = (el(a), el(b), el(cc));
    let c = Chk { env, ty: F::TNAME, case: json!({"type": F::TNAME, "a": a.to_string(), "b": b.to_string(), "c": cc.to_string()}) };
    if (x + y) + z != x + (y + z) {
        c.fail("assoc-add", format!("{x:?},{y:?},{z:?}"))?;
    }
    if (x * y) * z != x * (y * z) {
        c.fail("assoc-mul", format!("{x:?},{y:?},{z:?}"))?;
    }
    if x * (y + z) != x * y + x * z {
        c.fail("distributive", format!("{x:?},{y:?},{z:?}"))?;
    }
    Ok(())
}

/// a^(q-2) through the implementation's own multiplication
fn fermat_inverse<F: Fx>(a: F) -> F {
    let mut e = F::KIND.order() - 2;
    let mut base = a;
    let mut r = F::ONE;
    while e > 0 {
        if e & 1 == 1 {
            r = r * base;
        }
        base = base * base;
        e >>= 1;
    }
    r
}

// ------------------------------------------------------------------------------------------
// sub-check: small fields, exhaustive
// ------------------------------------------------------------------------------------------

const SMALL: [(&str, u64); 6] = [("Boolean", 2), ("Gf2", 2), ("Gf3Bit", 8), ("Fp31", 31), ("Gf8Bit", 256), ("Gf9Bit", 512)];

fn small_dispatch<R>(t: usize, f: impl SmallFn<R>) -> R {
    match t {
        0 => f.call::<Boolean>(),
        1 => f.call::<Gf2>(),
        2 => f.call::<Gf3Bit>(),
        3 => f.call::<Fp31>(),
        4 => f.call::<Gf8Bit>(),
        _ => f.call::<Gf9Bit>(),
    }
}
trait SmallFn<R> {
    fn call<F: Fx>(self) -> R;
}

fn index(src: &mut Src<'_>) -> u64 {
    let lo = u64::from(src.raw());
    let hi = u64::from(src.raw());
    lo | (hi << 32)
}

const fn small_pairs_total() -> u64 {
    let mut s = 0;
    let mut i = 0;
    while i < SMALL.len() {
        s += SMALL[i].1 * SMALL[i].1;
        i += 1;
    }
    s
}

fn small_pairs(env: &Env, src: &mut Src<'_>) -> CaseResult {
    let mut i = index(src);
    let mut t = 0;
    while i >= SMALL[t].1 * SMALL[t].1 {
        i -= SMALL[t].1 * SMALL[t].1;
        t += 1;
    }
    let q = SMALL[t].1;
    let (a, b) = (u128::from(i / q), u128::from(i % q));
    struct P<'e>(&'e Env, u128, u128);
    impl SmallFn<Result<(), CaseErr>> for P<'_> {
        fn call<F: Fx>(self) -> Result<(), CaseErr> {
            pair_laws::<F>(self.0, self.1, self.2)
        }
    }
    small_dispatch(t, P(env, a, b))?;
    Ok(CaseOk::new(a != 0 || b != 0, &(t, a, b), json!({"type": SMALL[t].0, "a": a as u64, "b": b as u64})).label(SMALL[t].0))
}

// triples: (type, a, b) enumerated, c looped inside. Quick covers every type but Gf8Bit/Gf9Bit
// completely; those two are complete in the thorough tier.
const fn small_triples_total(thorough: bool) -> u64 {
    let mut s = 0;
    let mut i = 0;
    while i < SMALL.len() {
        if thorough || SMALL[i].1 <= 256 {
            s += SMALL[i].1 * SMALL[i].1;
        }
        i += 1;
    }
    s
}

fn small_triples(env: &Env, src: &mut Src<'_>) -> CaseResult {
    let mut i = index(src);
    let mut t = 0;
    loop {
        let skip = !env.thorough() && SMALL[t].1 > 256;
        if skip {
            t += 1;
            continue;
        }
        if i < SMALL[t].1 * SMALL[t].1 {
            break;
        }
        i -= SMALL[t].1 * SMALL[t].1;
        t += 1;
    }
    let q = SMALL[t].1;
    let (a, b) = (u128::from(i / q), u128::from(i % q));
    struct P<'e>(&'e Env, u128, u128, u64);
    impl SmallFn<Result<(), CaseErr>> for P<'_> {
        fn call<F: Fx>(self) -> Result<(), CaseErr> {
            for c in 0..self.3 {
                triple_laws::<F>(self.0, self.1, self.2, u128::from(c))?;
            }
            Ok(())
        }
    }
    small_dispatch(t, P(env, a, b, q))?;
    Ok(CaseOk::new(a != 0 && b != 0, &(t, a, b), json!({"type": SMALL[t].0, "a": a as u64, "b": b as u64, "c": format!("0..{q}")})).label(SMALL[t].0))
}

const fn small_elems_total() -> u64 {
    let mut s = 0;
    let mut i = 0;
    while i < SMALL.len() {
        s += SMALL[i].1;
        i += 1;
    }
    s
}

/// every non-zero element has an inverse (searched exhaustively), and the Fermat power is it
fn small_inverse(env: &Env, src: &mut Src<'_>) -> CaseResult {
    let mut i = index(src);
    let mut t = 0;
    while i >= SMALL[t].1 {
        i -= SMALL[t].1;
        t += 1;
    }
    let a = u128::from(i);
    struct P<'e>(&'e Env, u128);
    impl SmallFn<Result<(), CaseErr>> for P<'_> {
        fn call<F: Fx>(self) -> Result<(), CaseErr> {
            let a = self.1;
            if a == 0 {
                return Ok(());
            }
            let x: F = el(a);
            let c = Chk { env: self.0, ty: F::TNAME, case: json!({"type": F::TNAME, "a": a.to_string()}) };
            let n = (0..F::KIND.order()).filter(|&b| x * el::<F>(b) == F::ONE).count();
            if n != 1 {
                c.fail("no-inverse", format!("{x:?} has {n} multiplicative inverses"))?;
            }
            if x * fermat_inverse(x) != F::ONE {
                c.fail("no-inverse", format!("{x:?}^(q-2) is not its inverse"))?;
            }
            Ok(())
        }
    }
    small_dispatch(t, P(env, a))?;
    Ok(CaseOk::new(a != 0, &(t, a), json!({"type": SMALL[t].0, "a": a as u64})).label(SMALL[t].0))
}

// ------------------------------------------------------------------------------------------
// sub-check: the larger fields against the reference model
// ------------------------------------------------------------------------------------------

const BIG: [&str; 5] = ["Fp32BitPrime", "Fp61BitPrime", "Gf20Bit", "Gf32Bit", "Gf40Bit"];

trait BigFn<R> {
    fn call<F: Fx>(self) -> R;
}
fn big_dispatch<R>(t: usize, f: impl BigFn<R>) -> R {
    match t {
        0 => f.call::<Fp32BitPrime>(),
        1 => f.call::<Fp61BitPrime>(),
        2 => f.call::<Gf20Bit>(),
        3 => f.call::<Gf32Bit>(),
        _ => f.call::<Gf40Bit>(),
    }
}

/// boundary-biased element of a field of the given kind, as canonical integer
fn gen_elem(src: &mut Src<'_>, k: Kind) -> (u128, &'static str) {
    let q = k.order();
    let bits = 128 - (q - 1).leading_zeros();
    match src.below(12) {
        0 => (0, "zero"),
        1 => (1, "one"),
        2 => (q - 1, "q-1"),
        3 => (q - 2, "q-2"),
        4 => (2 % q, "two"),
        5 => ((1u128 << src.below(u64::from(bits))) % q, "pow2"),
        6 => (((1u128 << src.below(u64::from(bits))) + 1) % q, "pow2+1"),
        7 => (((1u128 << src.below(u64::from(bits) + 1)).wrapping_sub(1)) % q, "pow2-1"),
        8 => (q / 2, "q/2"),
        9 => (q / 2 + 1, "q/2+1"),
        _ => (src.u128() % q, "random"),
    }
}

fn big_ops(env: &Env, src: &mut Src<'_>) -> CaseResult {
    let t = src.idx(BIG.len());
    struct P<'a, 'e, 's>(&'e Env, &'a mut Src<'s>);
    impl BigFn<Result<(u128, u128, u128, Vec<String>), CaseErr>> for P<'_, '_, '_> {
        fn call<F: Fx>(self) -> Result<(u128, u128, u128, Vec<String>), CaseErr> {
            let k = F::KIND;
            let (a, la) = gen_elem(self.1, k);
            let (b, lb) = gen_elem(self.1, k);
            let (c, lc) = gen_elem(self.1, k);
            pair_laws::<F>(self.0, a, b)?;
            pair_laws::<F>(self.0, a, 0)?;
            pair_laws::<F>(self.0, b, c)?;
            triple_laws::<F>(self.0, a, b, c)?;
            let chk = Chk { env: self.0, ty: F::TNAME, case: json!({"type": F::TNAME, "a": a.to_string()}) };
            if a != 0 {
                let x: F = el(a);
                let inv = fermat_inverse(x);
                if x * inv != F::ONE {
                    chk.fail("no-inverse", format!("{x:?} * {x:?}^(q-2) = {:?}, expected 1", x * inv))?;
                }
            }
            Ok((a, b, c, vec![format!("a:{la}"), format!("b:{lb}"), format!("c:{lc}")]))
        }
    }
    let (a, b, c, labels) = big_dispatch(t, P(env, src))?;
    Ok(CaseOk::new(a != 0 && b != 0, &(t, a, b, c), json!({"type": BIG[t], "a": a.to_string(), "b": b.to_string(), "c": c.to_string()}))
        .label(BIG[t])
        .labels(labels))
}

/// Gf20Bit over all 2^20 elements (thorough) / a stride sample (quick): Fermat inverse exists
fn gf20_all(env: &Env, src: &mut Src<'_>) -> CaseResult {
    let i = index(src);
    let a = if env.thorough() { u128::from(i) } else { u128::from(i * 16 + 1) & 0xF_FFFF };
    if a == 0 {
        return Ok(CaseOk::new(false, &a, json!(null)));
    }
    let x: Gf20Bit = el(a);
    let inv = fermat_inverse(x);
    let chk = Chk { env, ty: "Gf20Bit", case: json!({"type": "Gf20Bit", "a": a.to_string()}) };
    if x * inv != Gf20Bit::ONE {
        chk.fail("no-inverse", format!("{x:?}^(q-2) * {x:?} = {:?}", x * inv))?;
    }
    Ok(CaseOk::new(true, &a, json!({"type": "Gf20Bit", "a": a as u64})))
}

// ------------------------------------------------------------------------------------------
// sub-check: modulus certificates
// ------------------------------------------------------------------------------------------

const MODULI: [&str; 11] =
    ["Fp31", "Fp32BitPrime", "Fp61BitPrime", "Boolean", "Gf2", "Gf3Bit", "Gf8Bit", "Gf9Bit", "Gf20Bit", "Gf32Bit", "Gf40Bit"];

fn modulus_kind(i: usize) -> Kind {
    match i {
        0 => Fp31::KIND,
        1 => Fp32BitPrime::KIND,
        2 => Fp61BitPrime::KIND,
        3 => Boolean::KIND,
        4 => Gf2::KIND,
        5 => Gf3Bit::KIND,
        6 => Gf8Bit::KIND,
        7 => Gf9Bit::KIND,
        8 => Gf20Bit::KIND,
        9 => Gf32Bit::KIND,
        _ => Gf40Bit::KIND,
    }
}

fn modulus_certificate(env: &Env, src: &mut Src<'_>) -> CaseResult {
    let i = index(src) as usize;
    let k = modulus_kind(i);
    let chk = Chk { env, ty: MODULI[i], case: json!({"type": MODULI[i], "modulus": format!("{k:?}")}) };
    match k {
        Kind::Prime(p) => {
            if !is_prime_u64(p) {
                chk.fail("composite-modulus", format!("PRIME = {p} is not prime"))?;
            }
        }
        Kind::Gf { bits, poly } => {
            if pdeg(poly) != bits as i32 {
                chk.fail("modulus-degree", format!("POLYNOMIAL {poly:#b} does not have degree {bits}"))?;
            }
            if !is_irreducible_gf2(poly) {
                // exhibit a zero divisor through the implementation itself: find the smallest factor
                let mut f = 2u128;
                while pmod(poly, f) != 0 {
                    f += 1;
                }
                chk.fail(
                    "reducible-modulus",
                    format!("POLYNOMIAL {poly:#b} is reducible over GF(2): divisible by {f:#b}, so {f:#b} is a zero divisor"),
                )?;
            }
        }
    }
    Ok(CaseOk::new(true, &i, json!({"type": MODULI[i], "modulus": format!("{k:?}")})))
}

// ------------------------------------------------------------------------------------------
// sub-check: conversions return canonical elements
// ------------------------------------------------------------------------------------------

fn gen_u128(src: &mut Src<'_>, q: u128) -> (u128, &'static str) {
    match src.below(12) {
        0 => (0, "0"),
        1 => (q, "q"),
        2 => (q + 1, "q+1"),
        3 => (q - 1, "q-1"),
        4 => (u128::MAX, "u128::MAX"),
        5 => (u128::MAX - src.below(1 << 20) as u128, "near-max"),
        6 => (1u128 << src.range(60, 127), "pow2-high"),
        7 => ((1u128 << src.range(60, 127)) - 1, "pow2-1-high"),
        8 => (q.wrapping_mul(src.range(1, 1 << 30) as u128), "multiple-of-q"),
        9 => (u128::from(src.u64()), "u64"),
        _ => (src.u128(), "random"),
    }
}

const CONV: [&str; 12] =
    ["Fp31", "Fp32BitPrime", "Fp61BitPrime", "Boolean", "Gf2", "Gf3Bit", "Gf8Bit", "Gf9Bit", "Gf20Bit", "Gf32Bit", "Gf40Bit", "x"];

fn conversions(env: &Env, src: &mut Src<'_>) -> CaseResult {
    let t = src.idx(11);
    struct P<'a, 'e, 's>(&'e Env, &'a mut Src<'s>);
    impl P<'_, '_, '_> {
        fn go<F: Fx>(self) -> Result<(u128, &'static str), CaseErr> {
            let k = F::KIND;
            let (v, l) = gen_u128(self.1, k.order());
            let chk = Chk { env: self.0, ty: F::TNAME, case: json!({"type": F::TNAME, "v": v.to_string()}) };
            let x = F::truncate_from(v);
            if let Err(e) = canonical(x) {
                chk.fail("noncanonical-truncate", format!("truncate_from({v}) = {x:?}: {e}"))?;
            } else if val(x) != k.reduce(v) {
                chk.fail("truncate", format!("truncate_from({v}) = {x:?}, expected {}", k.reduce(v)))?;
            }
            // from_random_u128 is what PRSS feeds with full-width values
            let r = <F as crate::protocol::prss::FromRandomU128>::from_random_u128(v);
            if let Err(e) = canonical(r) {
                chk.fail("noncanonical-truncate", format!("from_random_u128({v}) = {r:?}: {e}"))?;
            }
            // try_from: accepts iff the value fits into BITS bits, result canonical
            let fits = 128 - v.leading_zeros() <= F::BITS;
            match F::try_from(v) {
                Ok(y) => {
                    if !fits {
                        chk.fail("try-from", format!("try_from({v}) accepted a value wider than {} bits", F::BITS))?;
                    }
                    if let Err(e) = canonical(y) {
                        chk.fail("noncanonical-truncate", format!("try_from({v}) = {y:?}: {e}"))?;
                    }
                }
                Err(_) => {
                    if fits {
                        chk.fail("try-from", format!("try_from({v}) rejected a value of at most {} bits", F::BITS))?;
                    }
                }
            }
            Ok((v, l))
        }
    }
    let p = P(env, src);
    let (v, l) = match t {
        0 => p.go::<Fp31>(),
        1 => p.go::<Fp32BitPrime>(),
        2 => p.go::<Fp61BitPrime>(),
        3 => p.go::<Boolean>(),
        4 => p.go::<Gf2>(),
        5 => p.go::<Gf3Bit>(),
        6 => p.go::<Gf8Bit>(),
        7 => p.go::<Gf9Bit>(),
        8 => p.go::<Gf20Bit>(),
        9 => p.go::<Gf32Bit>(),
        _ => p.go::<Gf40Bit>(),
    }?;
    Ok(CaseOk::new(v != 0, &(t, v), json!({"type": CONV[t], "v": v.to_string()})).label(CONV[t]).label(format!("v:{l}")))
}

// ------------------------------------------------------------------------------------------
// sub-check: Fp25519
// ------------------------------------------------------------------------------------------

// group order l = 2^252 + 27742317777372353535851937790883648493, little-endian bytes
const L_BYTES: [u8; 32] = [
    0xed, 0xd3, 0xf5, 0x5c, 0x1a, 0x63, 0x12, 0x58, 0xd6, 0x9c, 0xf7, 0xa2, 0xde, 0xf9, 0xde, 0x14, 0, 0, 0, 0, 0, 0, 0, 0, 0, 0, 0, 0, 0,
    0, 0, 0x10,
];

type U256 = [u64; 4];
fn u256_from_le(b: &[u8; 32]) -> U256 {
    std::array::from_fn(|i| u64::from_le_bytes(b[8 * i..8 * i + 8].try_into().unwrap()))
}
fn u256_to_le(v: &U256) -> [u8; 32] {
    let mut o = [0u8; 32];
    for i in 0..4 {
        o[8 * i..8 * i + 8].copy_from_slice(&v[i].to_le_bytes());
    }
    o
}
fn u256_cmp(a: &U256, b: &U256) -> std::cmp::Ordering {
    for i in (0..4).rev() {
        if a[i] != b[i] {
            return a[i].cmp(&b[i]);
        }
    }
    std::cmp::Ordering::Equal
}
fn u256_add(a: &U256, b: &U256) -> (U256, bool) {
    let mut o = [0u64; 4];
    let mut c = 0u128;
    for i in 0..4 {
        let s = u128::from(a[i]) + u128::from(b[i]) + c;
        o[i] = s as u64;
        c = s >> 64;
    }
    (o, c != 0)
}
fn u256_sub(a: &U256, b: &U256) -> U256 {
    let mut o = [0u64; 4];
    let mut borrow = 0i128;
    for i in 0..4 {
        let d = i128::from(a[i]) - i128::from(b[i]) - borrow;
        if d < 0 {
            o[i] = (d + (1i128 << 64)) as u64;
            borrow = 1;
        } else {
            o[i] = d as u64;
            borrow = 0;
        }
    }
    o
}
fn l256() -> U256 {
    u256_from_le(&L_BYTES)
}
/// (a + b) mod l for a, b < l (l < 2^253, so no overflow)
fn addmod_l(a: &U256, b: &U256) -> U256 {
    let (s, _) = u256_add(a, b);
    if u256_cmp(&s, &l256()) != std::cmp::Ordering::Less { u256_sub(&s, &l256()) } else { s }
}
/// reduce an arbitrary 256-bit value mod l by repeated subtraction of shifted l (l > 2^252, at most 15 subtractions)
fn reduce_l(v: &U256) -> U256 {
    let mut v = *v;
    while u256_cmp(&v, &l256()) != std::cmp::Ordering::Less {
        v = u256_sub(&v, &l256());
    }
    v
}
/// a*b mod l by double-and-add over the reference addition
fn mulmod_l(a: &U256, b: &U256) -> U256 {
    let mut r = [0u64; 4];
    for i in (0..256).rev() {
        r = addmod_l(&r, &r);
        if (b[i / 64] >> (i % 64)) & 1 == 1 {
            r = addmod_l(&r, a);
        }
    }
    r
}

fn fp25519_from(v: &U256) -> Fp25519 {
    Fp25519::deserialize_infallible(&GenericArray::from(u256_to_le(v)))
}
fn fp25519_val(x: Fp25519) -> U256 {
    let mut buf = GenericArray::default();
    x.serialize(&mut buf);
    u256_from_le(&buf.into())
}

fn gen_u256(src: &mut Src<'_>) -> (U256, &'static str) {
    let l = l256();
    match src.below(10) {
        0 => ([0; 4], "zero"),
        1 => ([1, 0, 0, 0], "one"),
        2 => (u256_sub(&l, &[1, 0, 0, 0]), "l-1"),
        3 => (u256_sub(&l, &[2, 0, 0, 0]), "l-2"),
        4 => {
            let k = src.below(252) as usize;
            let mut v = [0u64; 4];
            v[k / 64] = 1 << (k % 64);
            (v, "pow2")
        }
        5 => ([u64::MAX, u64::MAX, 0, 0], "2^128-1"),
        _ => (reduce_l(&[src.u64(), src.u64(), src.u64(), src.u64() >> 3]), "random"),
    }
}

fn fp25519(env: &Env, src: &mut Src<'_>) -> CaseResult {
    let (a, la) = gen_u256(src);
    let (b, lb) = gen_u256(src);
    let (c, _) = gen_u256(src);
    let (x, y, z) = (fp25519_from(&a), fp25519_from(&b), fp25519_from(&c));
    let chk = Chk { env, ty: "Fp25519", case: json!({"a": format!("{a:x?}"), "b": format!("{b:x?}"), "c": format!("{c:x?}")}) };
    let canon = |w: &str, v: Fp25519| -> Result<(), CaseErr> {
        if u256_cmp(&fp25519_val(v), &l256()) != std::cmp::Ordering::Less {
            chk.fail("noncanonical", format!("{w} serialises to a value >= l"))?;
        }
        Ok(())
    };
    if fp25519_val(x) != a {
        chk.fail("construct", format!("deserialize of canonical bytes {a:x?} gives {:x?}", fp25519_val(x)))?;
    }
    canon("a+b", x + y)?;
    canon("a*b", x * y)?;
    canon("-a", -x)?;
    canon("a-b", x - y)?;
    if fp25519_val(x + y) != addmod_l(&a, &b) {
        chk.fail("add", "a+b differs from the 256-bit reference".into())?;
    }
    if fp25519_val(x * y) != mulmod_l(&a, &b) {
        chk.fail("mul", "a*b differs from the double-and-add reference".into())?;
    }
    if (x - y) + y != x || x + (-x) != Fp25519::ZERO || -Fp25519::ZERO != Fp25519::ZERO {
        chk.fail("neg", "subtraction / negation laws".into())?;
    }
    if (x * y) * z != x * (y * z) || x * (y + z) != x * y + x * z || x * Fp25519::ONE != x {
        chk.fail("axiom", "associativity/distributivity".into())?;
    }
    if a != [0; 4] && x * x.invert() != Fp25519::ONE {
        chk.fail("no-inverse", "a * a.invert() != 1".into())?;
    }
    // values above l deserialise to the reduced element (documented behaviour of this type)
    let raw = [src.u64(), src.u64(), src.u64(), src.u64()];
    if fp25519_val(fp25519_from(&raw)) != reduce_l(&raw) {
        chk.fail("reduce", format!("deserialize({raw:x?}) is not the value mod l"))?;
    }
    Ok(CaseOk::new(a != [0; 4] && b != [0; 4], &(a, b, c), json!({"a": format!("{a:x?}"), "b": format!("{b:x?}")}))
        .label(format!("a:{la}"))
        .label(format!("b:{lb}")))
}

// ------------------------------------------------------------------------------------------
// sub-check: accumulators, batch inversion, Lagrange
// ------------------------------------------------------------------------------------------

fn accumulators(env: &Env, src: &mut Src<'_>) -> CaseResult {
    fn go<F: Fx + MultiplyAccumulate + PrimeField>(env: &Env, src: &mut Src<'_>) -> Result<(usize, &'static str), CaseErr> {
        let k = F::KIND;
        let len = match src.below(10) {
            0 => 0,
            1 => 1,
            2 => 63,
            3 => 64,
            4 => 65,
            5 => 127,
            6 => 128,
            7 => 129,
            _ => src.urange(2, 300),
        };
        let mode = src.below(3); // 0: all q-1, 1: boundary mix, 2: random
        let mut acc = <F as MultiplyAccumulate>::Accumulator::new();
        let mut arr = <F as MultiplyAccumulate>::AccumulatorArray::<3>::new();
        let mut want = 0u128;
        let mut want_arr = [0u128; 3];
        for _ in 0..len {
            let (a, b) = match mode {
                0 => (k.order() - 1, k.order() - 1),
                1 => (gen_elem(src, k).0, gen_elem(src, k).0),
                _ => (src.u128() % k.order(), src.u128() % k.order()),
            };
            acc.multiply_accumulate(el::<F>(a), el::<F>(b));
            want = k.add(want, k.mul(a, b));
            let a3 = [a, k.order() - 1, b];
            let b3 = [b, k.order() - 1, a];
            arr.multiply_accumulate(&a3.map(el::<F>), &b3.map(el::<F>));
            for i in 0..3 {
                want_arr[i] = k.add(want_arr[i], k.mul(a3[i], b3[i]));
            }
        }
        let chk = Chk { env, ty: F::TNAME, case: json!({"type": F::TNAME, "len": len, "mode": mode}) };
        let got = acc.take();
        if let Err(e) = canonical(got) {
            chk.fail("noncanonical-accumulator", format!("accumulator over {len} products returns {got:?}: {e}"))?;
        } else if val(got) != want {
            chk.fail("accumulator", format!("accumulator over {len} products = {got:?}, plain sum = {want}"))?;
        }
        let got = arr.take();
        for i in 0..3 {
            if let Err(e) = canonical(got[i]) {
                chk.fail("noncanonical-accumulator", format!("array accumulator[{i}] over {len} products returns {:?}: {e}", got[i]))?;
            } else if val(got[i]) != want_arr[i] {
                chk.fail("accumulator", format!("array accumulator[{i}] over {len} = {:?}, plain sum = {}", got[i], want_arr[i]))?;
            }
        }
        Ok((len, ["all-max", "boundary", "random"][mode as usize]))
    }
    let t = src.idx(3);
    let (len, mode) = match t {
        0 => go::<Fp31>(env, src),
        1 => go::<Fp32BitPrime>(env, src),
        _ => go::<Fp61BitPrime>(env, src),
    }?;
    let ty = ["Fp31", "Fp32BitPrime", "Fp61BitPrime"][t];
    Ok(CaseOk::new(len > 0, &(t, len, mode, src.used()), json!({"type": ty, "len": len, "mode": mode}))
        .label(ty)
        .label(format!("len:{}", if len >= 64 { ">=64" } else { "<64" }))
        .label(mode))
}

fn batch_inv(env: &Env, src: &mut Src<'_>) -> CaseResult {
    fn go<F: Fx + PrimeField, const N: usize>(env: &Env, src: &mut Src<'_>) -> Result<(), CaseErr> {
        let k = F::KIND;
        let vals: [u128; N] = std::array::from_fn(|_| {
            let v = gen_elem(src, k).0;
            if v == 0 { 1 } else { v }
        });
        let mut arr: [F; N] = vals.map(el::<F>);
        crate::ff::batch_invert(&mut arr);
        let chk = Chk { env, ty: F::TNAME, case: json!({"type": F::TNAME, "values": vals.map(|v| v.to_string()).to_vec()}) };
        for i in 0..N {
            let x: F = el(vals[i]);
            if arr[i] != x.invert() || x * arr[i] != F::ONE || canonical(arr[i]).is_err() {
                chk.fail("batch-invert", format!("batch_invert[{i}] of {x:?} = {:?}, invert() = {:?}", arr[i], x.invert()))?;
            }
            if val(x.invert()) != powmod(vals[i], k.order() - 2, k.order()) {
                chk.fail("invert", format!("invert({x:?}) = {:?} differs from the reference power", x.invert()))?;
            }
        }
        Ok(())
    }
    let t = src.idx(3);
    let n = src.idx(4);
    match (t, n) {
        (0, 0) => go::<Fp31, 1>(env, src),
        (0, 1) => go::<Fp31, 2>(env, src),
        (0, 2) => go::<Fp31, 7>(env, src),
        (0, _) => go::<Fp31, 32>(env, src),
        (1, 0) => go::<Fp32BitPrime, 1>(env, src),
        (1, 1) => go::<Fp32BitPrime, 2>(env, src),
        (1, 2) => go::<Fp32BitPrime, 7>(env, src),
        (1, _) => go::<Fp32BitPrime, 32>(env, src),
        (_, 0) => go::<Fp61BitPrime, 1>(env, src),
        (_, 1) => go::<Fp61BitPrime, 2>(env, src),
        (_, 2) => go::<Fp61BitPrime, 7>(env, src),
        (_, _) => go::<Fp61BitPrime, 32>(env, src),
    }?;
    let (tn, nn) = (["Fp31", "Fp32BitPrime", "Fp61BitPrime"][t], [1, 2, 7, 32][n]);
    Ok(CaseOk::new(true, &(t, n, src.used(), src.raw(), src.raw()), json!({"type": tn, "n": nn})).label(tn))
}

fn digest_src(src: &Src<'_>) -> u64 {
    // cheap fingerprint of the consumed choices (for distinct counting)
    src.used() as u64
}

fn lagrange(env: &Env, src: &mut Src<'_>) -> CaseResult {
    // polynomial of degree < N given by its values at 0..N-1; the table must reproduce the values
    // of the unique interpolating polynomial at N..N+M-1 and at an arbitrary point.
    fn go<F: Fx + PrimeField + TryFrom<u128>, const N: usize, const M: usize>(env: &Env, src: &mut Src<'_>) -> Result<(), CaseErr>
    where
        <F as TryFrom<u128>>::Error: std::fmt::Debug,
    {
        let k = F::KIND;
        let q = k.order();
        // coefficients (monomial form) -> y values, with reference arithmetic
        let coef: [u128; N] = std::array::from_fn(|_| gen_elem(src, k).0);
        let eval = |x: u128| coef.iter().rev().fold(0u128, |acc, c| k.add(k.mul(acc, x % q), *c));
        let ys: [F; N] = std::array::from_fn(|i| el::<F>(eval(i as u128)));
        let chk = Chk { env, ty: F::TNAME, case: json!({"type": F::TNAME, "N": N, "M": M, "coef": coef.map(|c| c.to_string()).to_vec()}) };
        let table: LagrangeTable<F, N, M> = LagrangeTable::from(CanonicalLagrangeDenominator::<F, N>::new());
        let out = table.eval(&ys);
        for j in 0..M {
            let want = eval((N + j) as u128);
            if val(out[j]) != want || canonical(out[j]).is_err() {
                chk.fail("lagrange", format!("table row {j}: got {:?}, polynomial value {want}", out[j]))?;
            }
        }
        let (xo, _) = gen_elem(src, k);
        let single = LagrangeTable::<F, N, 1>::new(&CanonicalLagrangeDenominator::<F, N>::new(), &el::<F>(xo));
        let got = single.eval(&ys)[0];
        if val(got) != eval(xo) || canonical(got).is_err() {
            chk.fail("lagrange", format!("evaluation at x={xo}: got {got:?}, polynomial value {}", eval(xo)))?;
        }
        Ok(())
    }
    let t = src.idx(6);
    match t {
        0 => go::<Fp31, 2, 1>(env, src),
        1 => go::<Fp31, 8, 7>(env, src),
        2 => go::<Fp32BitPrime, 4, 3>(env, src),
        3 => go::<Fp61BitPrime, 8, 7>(env, src),
        4 => go::<Fp61BitPrime, 32, 31>(env, src),
        _ => go::<Fp61BitPrime, 3, 5>(env, src),
    }?;
    Ok(CaseOk::new(true, &(t, src.used(), src.raw()), json!({"variant": t})).label(format!("variant:{t}")))
}

// ------------------------------------------------------------------------------------------
// sub-check: share and array arithmetic are homomorphic to the plain operations
// ------------------------------------------------------------------------------------------

fn share_arith(env: &Env, src: &mut Src<'_>) -> CaseResult {
    fn go<F: Fx>(env: &Env, src: &mut Src<'_>) -> Result<(), CaseErr>
    where
        StdArray<F, 16>: Serializable,
    {
        let k = F::KIND;
        let g = |src: &mut Src<'_>| el::<F>(gen_elem(src, k).0);
        let (a, b, c) = (g(src), g(src), g(src));
        // three-party replicated sharing of a and b from generated masks
        let share = |v: F, r1: F, r2: F| -> [AdditiveShare<F>; 3] {
            let x3 = v - r1 - r2;
            { use crate::secret_sharing::replicated::ReplicatedSecretSharing; [AdditiveShare::new(r1, r2), AdditiveShare::new(r2, x3), AdditiveShare::new(x3, r1)] }
        };
        let rec = |s: &[AdditiveShare<F>; 3]| -> Option<F> {
            use crate::secret_sharing::replicated::ReplicatedSecretSharing;
            if s[0].right() != s[1].left() || s[1].right() != s[2].left() || s[2].right() != s[0].left() {
                return None;
            }
            Some(s[0].left() + s[1].left() + s[2].left())
        };
        let sa = share(a, g(src), g(src));
        let sb = share(b, g(src), g(src));
        let chk = Chk { env, ty: F::TNAME, case: json!({"type": F::TNAME, "a": val(a).to_string(), "b": val(b).to_string(), "c": val(c).to_string()}) };
        let expect = |what: &str, got: [AdditiveShare<F>; 3], want: F| -> Result<(), CaseErr> {
            match rec(&got) {
                Some(v) if v == want => Ok(()),
                other => chk.fail("share-arith", format!("{what}: reconstructs to {other:?}, plain result {want:?}")),
            }
        };
        expect("a+b", std::array::from_fn(|i| &sa[i] + &sb[i]), a + b)?;
        expect("a-b", std::array::from_fn(|i| &sa[i] - &sb[i]), a - b)?;
        expect("-a", std::array::from_fn(|i| -&sa[i]), -a)?;
        expect("a*c", std::array::from_fn(|i| &sa[i] * &c), a * c)?;
        expect("a+=b", std::array::from_fn(|i| { let mut t = sa[i].clone(); t += &sb[i]; t }), a + b)?;
        expect("a-=b", std::array::from_fn(|i| { let mut t = sa[i].clone(); t -= &sb[i]; t }), a - b)?;
        // StdArray element-wise
        let pa: [F; 16] = std::array::from_fn(|i| [a, b, c, F::ZERO][i % 4] + if i >= 4 { g(src) } else { F::ZERO });
        let pb: [F; 16] = std::array::from_fn(|i| [b, c, a, F::ONE][i % 4] + if i >= 8 { g(src) } else { F::ZERO });
        let va: StdArray<F, 16> = pa.into_iter().collect();
        let vb: StdArray<F, 16> = pb.into_iter().collect();
        let arr_eq = |what: &str, got: StdArray<F, 16>, want: [F; 16]| -> Result<(), CaseErr> {
            if got.into_iter().collect::<Vec<_>>() != want.to_vec() {
                chk.fail("array-arith", format!("StdArray {what} differs from element-wise result"))?;
            }
            Ok(())
        };
        arr_eq("+", &va + &vb, std::array::from_fn(|i| pa[i] + pb[i]))?;
        arr_eq("-", &va - vb.clone(), std::array::from_fn(|i| pa[i] - pb[i]))?;
        arr_eq("neg", -&va, std::array::from_fn(|i| -pa[i]))?;
        arr_eq("*scalar", &va * &c, std::array::from_fn(|i| pa[i] * c))?;
        arr_eq("*elementwise", va.clone() * &vb, std::array::from_fn(|i| pa[i] * pb[i]))?;
        Ok(())
    }
    let t = src.idx(6);
    match t {
        0 => go::<Fp31>(env, src),
        1 => go::<Fp32BitPrime>(env, src),
        2 => go::<Fp61BitPrime>(env, src),
        3 => go::<Gf8Bit>(env, src),
        4 => go::<Gf32Bit>(env, src),
        _ => go::<Boolean>(env, src),
    }?;
    Ok(CaseOk::new(true, &(t, src.used(), src.raw(), src.raw()), json!({"type": t})).label(format!("type:{t}")))
}

// ------------------------------------------------------------------------------------------
// sub-check: bit-array complement stays inside BITS (canonical) and is the bitwise complement
// ------------------------------------------------------------------------------------------

const BA_NAMES: [&str; 14] = ["BA3", "BA4", "BA5", "BA6", "BA7", "BA8", "BA16", "BA20", "BA32", "BA64", "BA96", "BA112", "BA144", "BA256"];

fn ba_not(env: &Env, src: &mut Src<'_>) -> CaseResult {
    use crate::ff::{ArrayAccess, boolean_array::BooleanArray};
    fn go<B>(env: &Env, name: &'static str, src: &mut Src<'_>) -> Result<u64, CaseErr>
    where
        B: BooleanArray + std::ops::Not<Output = B> + Serializable,
    {
        let bits = B::BITS as usize;
        let mut x = B::ZERO;
        let mode = src.below(4);
        let mut fp = 0u64;
        for i in 0..bits {
            let bit = match mode {
                0 => false,
                1 => true,
                _ => src.bool(),
            };
            fp = fp.rotate_left(1) ^ u64::from(bit);
            x.set(i, Boolean::from(bit));
        }
        let y = !x;
        let chk = Chk { env, ty: name, case: json!({"type": name, "x": format!("{x:?}")}) };
        for i in 0..bits {
            if y.get(i) == x.get(i) {
                chk.fail("not", format!("bit {i} of !x equals bit {i} of x"))?;
            }
        }
        // canonical: equal to the array built bit by bit, serialises and deserialises
        let mut want = B::ZERO;
        for i in 0..bits {
            want.set(i, !x.get(i).unwrap());
        }
        let mut buf = GenericArray::<u8, B::Size>::default();
        y.serialize(&mut buf);
        let de = B::deserialize(&buf);
        if y != want || de.is_err() || !(!y == x) {
            chk.fail(
                "not-padding",
                format!("!{x:?} = {y:?} (raw {:?}) != value with the same {bits} bits {want:?}; deserialises: {}", &buf[..], de.is_ok()),
            )?;
        }
        Ok(fp ^ (mode << 60))
    }
    let t = src.idx(14);
    let n = BA_NAMES[t];
    let fp = match t {
        0 => go::<BA3>(env, n, src),
        1 => go::<BA4>(env, n, src),
        2 => go::<BA5>(env, n, src),
        3 => go::<BA6>(env, n, src),
        4 => go::<BA7>(env, n, src),
        5 => go::<BA8>(env, n, src),
        6 => go::<BA16>(env, n, src),
        7 => go::<BA20>(env, n, src),
        8 => go::<BA32>(env, n, src),
        9 => go::<BA64>(env, n, src),
        10 => go::<BA96>(env, n, src),
        11 => go::<BA112>(env, n, src),
        12 => go::<BA144>(env, n, src),
        _ => go::<BA256>(env, n, src),
    }?;
    Ok(CaseOk::new(true, &(t, fp), json!({"type": n, "fingerprint": fp})).label(n))
}

// ------------------------------------------------------------------------------------------
// sub-check: constants of the proof field
// ------------------------------------------------------------------------------------------

fn constants(env: &Env, src: &mut Src<'_>) -> CaseResult {
    let i = index(src);
    let two = Fp61BitPrime::ONE + Fp61BitPrime::ONE;
    let chk = Chk { env, ty: "Fp61BitPrime", case: json!({"constant": i}) };
    let ok = match i {
        0 => Fp61BitPrime::INVERSE_OF_TWO * two == Fp61BitPrime::ONE && canonical(Fp61BitPrime::INVERSE_OF_TWO).is_ok(),
        1 => Fp61BitPrime::MINUS_ONE_HALF * two + Fp61BitPrime::ONE == Fp61BitPrime::ZERO && canonical(Fp61BitPrime::MINUS_ONE_HALF).is_ok(),
        2 => Fp61BitPrime::MINUS_TWO + two == Fp61BitPrime::ZERO && canonical(Fp61BitPrime::MINUS_TWO).is_ok(),
        3 => Fp61BitPrime::from_bit(true) == Fp61BitPrime::ONE && Fp61BitPrime::from_bit(false) == Fp61BitPrime::ZERO,
        _ => canonical(Fp61BitPrime::const_truncate(u64::MAX)).is_ok() && val(Fp61BitPrime::const_truncate(u64::MAX)) == u128::from(u64::MAX) % Fp61BitPrime::KIND.order(),
    };
    if !ok {
        chk.fail("constant", format!("proof-field constant #{i} has the wrong value"))?;
    }
    let name = ["INVERSE_OF_TWO", "MINUS_ONE_HALF", "MINUS_TWO", "from_bit", "const_truncate"][i as usize];
    Ok(CaseOk::new(true, &i, json!({"constant": name})))
}

pub fn subs(env: &Env) -> Vec<Sub> {
    vec![
        Sub::exhaustive("modulus_certificate", 11, 11, modulus_certificate,
            "one case per exported field type: Miller-Rabin (deterministic, <2^64) on PRIME, Rabin irreducibility test on POLYNOMIAL, computed by reference code; all are non-trivial"),
        Sub::exhaustive("small_pairs", small_pairs_total(), small_pairs_total(), small_pairs,
            "all ordered pairs (a,b) of Boolean, Gf2, Gf3Bit, Fp31, Gf8Bit, Gf9Bit: + - * neg, op-assign forms, identities, commutativity, no zero divisors, canonical results, against the integer / carry-less reference; non-trivial = not both zero"),
        Sub::exhaustive("small_triples", small_triples_total(false), small_triples_total(true), small_triples,
            "all (a,b) with every c: associativity of + and *, distributivity (quick: Boolean, Gf2, Gf3Bit, Fp31, Gf8Bit complete; thorough adds Gf9Bit complete); non-trivial = a,b non-zero"),
        Sub::exhaustive("small_inverse", small_elems_total(), small_elems_total(), small_inverse,
            "every element of the six small fields: exactly one multiplicative inverse exists (searched) and equals a^(q-2); non-trivial = non-zero element"),
        Sub::random("big_ops", 64, 600_000, 20_000_000, big_ops,
            "Fp32BitPrime, Fp61BitPrime, Gf20Bit, Gf32Bit, Gf40Bit: boundary-biased triples (0,1,2,q-1,q-2,2^k,2^k+-1,q/2,random) against the reference model, all pair/triple laws, Fermat inverse through the implementation's own multiplication; non-trivial = a,b non-zero"),
        Sub::exhaustive("gf20_inverse", 4080 * 16, 1 << 20, gf20_all,
            "Gf20Bit elements (quick: every 16th, thorough: all 2^20): a * a^(q-2) = 1; non-trivial = non-zero"),
        Sub::random("conversions", 16, 400_000, 10_000_000, conversions,
            "truncate_from / from_random_u128 / try_from on {0,q,q+-1,u128::MAX and neighbours,2^k high,multiples of q,random u64/u128} for all eleven field types: result canonical and equal to the value reduced; try_from accepts exactly values of at most BITS bits; non-trivial = v != 0"),
        Sub::random("fp25519", 48, 40_000, 1_000_000, fp25519,
            "Fp25519 on boundary (0,1,l-1,l-2,2^k,2^128-1) and random scalars: + and * against a 256-bit reference (addition with conditional subtraction; double-and-add), canonical (<l) serialisation, neg/sub/assoc/distributive/inverse laws, reduction of arbitrary 32-byte strings; non-trivial = a,b non-zero"),
        Sub::random("accumulators", 1300, 40_000, 1_000_000, accumulators,
            "MultiplyAccumulator and MultiplyAccumulatorArray<3> of the three prime fields over lengths {0,1,63,64,65,127,128,129,random<=300} with operands all q-1 / boundary / random, against the plain sum of products; non-trivial = length > 0"),
        Sub::random("batch_invert", 80, 40_000, 1_000_000, batch_inv,
            "batch_invert over N in {1,2,7,32} boundary-biased non-zero elements of the prime fields equals element-wise invert(), which equals the reference a^(p-2)"),
        Sub::random("lagrange", 80, 20_000, 500_000, lagrange,
            "CanonicalLagrangeDenominator/LagrangeTable for (N,M) in {(2,1),(8,7),(4,3),(8,7),(32,31),(3,5)}: table evaluation of a generated polynomial (given by its values at 0..N-1) equals the polynomial's reference value at N..N+M-1 and at a generated point"),
        Sub::random("share_arith", 80, 100_000, 3_000_000, share_arith,
            "replicated AdditiveShare + - neg *scalar and op-assign forms reconstruct to the plain result with consistent copies; StdArray<F,16> element-wise ops equal per-element ops; Fp31, Fp32BitPrime, Fp61BitPrime, Gf8Bit, Gf32Bit, Boolean"),
        Sub::random("ba_not", 260, 100_000, 3_000_000, ba_not,
            "!x on BA3..BA256 (all-zero, all-one, random): every bit inside BITS flips, the result equals the array built bit by bit (padding stays zero), serialises and deserialises, and !!x = x"),
        Sub::exhaustive("constants", 5, 5, constants,
            "INVERSE_OF_TWO, MINUS_ONE_HALF, MINUS_TWO, from_bit, const_truncate of the proof field"),
    ]
    .into_iter()
    .map(|s| {
        let _ = env;
        s
    })
    .collect()
}
