// C09 - wire encodings round-trip and reject every non-canonical byte string; transposes and field
// packing are lossless.
//
// Reference model: every Serializable type is described as a concatenation of *leaves* (prime
// field integer, bit array with padding, Boolean byte, curve25519 scalar, Ristretto point, raw
// bytes). For a leaf the canonical set is known independently of the code under test (integer
// below the prime, padding bits zero, byte 0/1, integer below the group order, ...). The oracle
// has two directions:
//   value -> bytes -> value : a value built through the public constructors encodes to the
//                             reference bytes (all `Size` bytes written) and decodes to itself;
//   bytes -> value -> bytes : a byte string is accepted iff the reference model calls it
//                             canonical, and an accepted string re-encodes to itself.

use std::{collections::BTreeMap, sync::Arc};

use curve25519_dalek::{ristretto::RistrettoPoint, scalar::Scalar};
use generic_array::GenericArray;
use rand::{Rng, RngCore, SeedableRng, rngs::StdRng};
use serde_json::{Value, json};
use sha2::{Digest, Sha256};
use typenum::Unsigned;

use super::common::*;
use crate::{
    ff::{
        ArrayAccess, Fp31, Fp32BitPrime, Fp61BitPrime, Gf2, Gf3Bit, Gf8Bit, Gf9Bit, Gf20Bit, Gf32Bit, Gf40Bit, Serializable,
        U128Conversions,
        boolean::Boolean,
        boolean_array::{BA3, BA4, BA5, BA6, BA7, BA8, BA16, BA20, BA32, BA64, BA96, BA112, BA144, BA256, BooleanArray},
        curve_points::RP25519,
        ec_prime_field::Fp25519,
    },
    helpers::hashing::{Hash, compute_possibly_empty_hash},
    protocol::{
        context::dzkp_validator::MAX_PROOF_RECURSION,
        ipa_prf::{CompressedProofGenerator, FirstProofGenerator},
        prss::{FromRandom, Seed},
    },
    report::hybrid::{PrfHybridReport, UniqueBytes, UniqueTag},
    secret_sharing::{
        SharedValue, StdArray,
        replicated::{ReplicatedSecretSharing, malicious::AdditiveShare as MShare, semi_honest::AdditiveShare as Share},
    },
};

pub const LEVEL: &str = "exploration";

// ------------------------------------------------------------------------------------------
// leaves: the reference model of canonical encodings
// ------------------------------------------------------------------------------------------

#[derive(Clone, Copy, Debug, PartialEq)]
pub enum Leaf {
    /// little-endian integer below `p`
    Prime { size: usize, p: u128, name: &'static str },
    /// `bits` bits, little-endian, all bits from `bits` up are zero
    Bits { size: usize, bits: u32, name: &'static str },
    /// one byte, 0 or 1
    Bool,
    /// 32-byte little-endian integer below the group order l
    Scalar,
    /// 32-byte Ristretto encoding
    Point,
    /// every string is the encoding of a value
    Raw { size: usize, name: &'static str },
}

#[derive(Clone, Copy, PartialEq, Debug)]
pub enum Verdict {
    Canonical,
    NonCanonical,
    Unknown,
}

const L_BYTES: [u8; 32] = [
    0xed, 0xd3, 0xf5, 0x5c, 0x1a, 0x63, 0x12, 0x58, 0xd6, 0x9c, 0xf7, 0xa2, 0xde, 0xf9, 0xde, 0x14, 0, 0, 0, 0, 0, 0, 0, 0, 0, 0, 0, 0, 0, 0, 0, 0x10,
];
/// p = 2^255 - 19
const P25519: [u8; 32] = [
    0xed, 0xff, 0xff, 0xff, 0xff, 0xff, 0xff, 0xff, 0xff, 0xff, 0xff, 0xff, 0xff, 0xff, 0xff, 0xff, 0xff, 0xff, 0xff, 0xff, 0xff, 0xff, 0xff, 0xff, 0xff,
    0xff, 0xff, 0xff, 0xff, 0xff, 0xff, 0x7f,
];

/// a < b for little-endian byte strings of equal length
fn le_less(a: &[u8], b: &[u8]) -> bool {
    for i in (0..a.len()).rev() {
        if a[i] != b[i] {
            return a[i] < b[i];
        }
    }
    false
}

fn le_u128(b: &[u8]) -> u128 {
    let mut x = [0u8; 16];
    x[..b.len()].copy_from_slice(b);
    u128::from_le_bytes(x)
}

/// add a small signed delta to a little-endian 32-byte integer
fn le_add(b: &[u8; 32], delta: i32) -> [u8; 32] {
    let mut out = *b;
    let mut carry = i64::from(delta);
    for x in &mut out {
        let v = i64::from(*x) + carry;
        *x = v.rem_euclid(256) as u8;
        carry = v.div_euclid(256);
        if carry == 0 {
            break;
        }
    }
    out
}

impl Leaf {
    pub fn size(&self) -> usize {
        match *self {
            Leaf::Prime { size, .. } | Leaf::Bits { size, .. } | Leaf::Raw { size, .. } => size,
            Leaf::Bool => 1,
            Leaf::Scalar | Leaf::Point => 32,
        }
    }
    pub fn name(&self) -> &'static str {
        match *self {
            Leaf::Prime { name, .. } | Leaf::Bits { name, .. } | Leaf::Raw { name, .. } => name,
            Leaf::Bool => "Boolean",
            Leaf::Scalar => "Fp25519",
            Leaf::Point => "RP25519",
        }
    }
    /// number of values (None: not known to the reference model)
    pub fn cardinality(&self) -> Option<u128> {
        match *self {
            Leaf::Prime { p, .. } => Some(p),
            Leaf::Bits { bits, .. } => 1u128.checked_shl(bits),
            Leaf::Bool => Some(2),
            Leaf::Raw { size, .. } => 1u128.checked_shl(8 * size as u32),
            Leaf::Scalar | Leaf::Point => None,
        }
    }
    pub fn verdict(&self, b: &[u8]) -> Verdict {
        let yes = |c: bool| if c { Verdict::Canonical } else { Verdict::NonCanonical };
        match *self {
            Leaf::Prime { p, .. } => yes(le_u128(b) < p),
            Leaf::Bits { bits, .. } => {
                let bits = bits as usize;
                yes((bits..8 * b.len()).all(|i| (b[i / 8] >> (i % 8)) & 1 == 0))
            }
            Leaf::Bool => yes(b[0] <= 1),
            Leaf::Scalar => yes(le_less(b, &L_BYTES)),
            Leaf::Point => {
                // a Ristretto encoding is a non-negative (even) field element below p; whether it
                // is also the s-coordinate of a point is not modelled here
                if b[0] & 1 == 1 || !le_less(b, &P25519) {
                    Verdict::NonCanonical
                } else {
                    Verdict::Unknown
                }
            }
            Leaf::Raw { .. } => Verdict::Canonical,
        }
    }

    /// canonical encoding of a random value
    fn canonical_fill(&self, rng: &mut StdRng) -> Vec<u8> {
        match *self {
            Leaf::Prime { size, p, .. } => (rng.r#gen::<u128>() % p).to_le_bytes()[..size].to_vec(),
            Leaf::Bits { size, bits, .. } => {
                let mut v = vec![0u8; size];
                rng.fill_bytes(&mut v);
                for i in bits as usize..8 * size {
                    v[i / 8] &= !(1 << (i % 8));
                }
                v
            }
            Leaf::Bool => vec![rng.r#gen::<u8>() & 1],
            Leaf::Scalar => {
                let mut w = [0u8; 64];
                rng.fill_bytes(&mut w);
                Scalar::from_bytes_mod_order_wide(&w).to_bytes().to_vec()
            }
            Leaf::Point => {
                let mut w = [0u8; 64];
                rng.fill_bytes(&mut w);
                RistrettoPoint::mul_base(&Scalar::from_bytes_mod_order_wide(&w)).compress().to_bytes().to_vec()
            }
            Leaf::Raw { size, .. } => {
                let mut v = vec![0u8; size];
                rng.fill_bytes(&mut v);
                v
            }
        }
    }

    /// boundary-biased encoding, canonical or not, with its class label
    fn boundary(&self, src: &mut Src<'_>) -> (Vec<u8>, String) {
        match *self {
            Leaf::Prime { size, p, .. } => {
                let full = if size >= 16 { u128::MAX } else { (1u128 << (8 * size)) - 1 };
                let (v, l) = match src.below(10) {
                    0 => (0, "0"),
                    1 => (p - 1, "p-1"),
                    2 => (p, "p"),
                    3 => (p + 1, "p+1"),
                    4 => (full, "all-ones"),
                    5 => (1u128 << src.below(8 * size as u64), "2^k"),
                    6 => (p + src.range(2, 1000) as u128, "p+small"),
                    7 => (full - (src.below(1000) as u128).min(full), "near-all-ones"),
                    8 => (src.u128() % p, "random<p"),
                    _ => (src.u128(), "random-full"),
                };
                ((v & full).to_le_bytes()[..size].to_vec(), format!("prime:{l}"))
            }
            Leaf::Bits { size, bits, .. } => {
                let pad = 8 * size - bits as usize;
                let mut v = src.bytes(size);
                for i in bits as usize..8 * size {
                    v[i / 8] &= !(1 << (i % 8));
                }
                let l = match src.below(8) {
                    0 => {
                        v.iter_mut().for_each(|b| *b = 0);
                        "0"
                    }
                    1 => {
                        for i in 0..bits as usize {
                            v[i / 8] |= 1 << (i % 8);
                        }
                        "max-value"
                    }
                    2 if pad > 0 => {
                        let i = bits as usize + src.idx(pad);
                        v[i / 8] |= 1 << (i % 8);
                        "one-padding-bit"
                    }
                    3 if pad > 0 => {
                        for i in bits as usize..8 * size {
                            v[i / 8] |= 1 << (i % 8);
                        }
                        "all-padding-bits"
                    }
                    4 => {
                        v.iter_mut().for_each(|b| *b = 0xff);
                        "all-ones"
                    }
                    5 if pad > 0 => {
                        v.iter_mut().for_each(|b| *b = 0);
                        let i = bits as usize + src.idx(pad);
                        v[i / 8] |= 1 << (i % 8);
                        "only-padding-bit"
                    }
                    6 => {
                        v = src.bytes(size);
                        "random-full"
                    }
                    _ => "random-canonical",
                };
                (v, format!("bits:{l}"))
            }
            Leaf::Bool => {
                let (v, l) = match src.below(8) {
                    0 => (0, "0"),
                    1 => (1, "1"),
                    2 => (2, "2"),
                    3 => (255, "255"),
                    4 => (0x80, "0x80"),
                    5 => (3, "3"),
                    _ => (src.range(2, 255) as u8, "2..255"),
                };
                (vec![v], format!("bool:{l}"))
            }
            Leaf::Scalar => {
                let (v, l): ([u8; 32], &str) = match src.below(12) {
                    0 => ([0; 32], "0"),
                    1 => (le_add(&L_BYTES, -1), "l-1"),
                    2 => (L_BYTES, "l"),
                    3 => (le_add(&L_BYTES, 1), "l+1"),
                    4 => ([0xff; 32], "all-ones"),
                    5 => {
                        let mut v = [0u8; 32];
                        v[31] = 0x10;
                        (v, "2^252")
                    }
                    6 => {
                        let mut v = [0u8; 32];
                        v[31] = 0x80;
                        (v, "2^255")
                    }
                    7 => (le_add(&L_BYTES, src.range(2, 100_000) as i32), "l+small"),
                    8 => {
                        // multiple of l that still fits: 2l .. 15l
                        let k = src.range(2, 15);
                        let mut acc = [0u8; 32];
                        let mut carry = 0u32;
                        for i in 0..32 {
                            let t = u32::from(L_BYTES[i]) * k as u32 + carry;
                            acc[i] = t as u8;
                            carry = t >> 8;
                        }
                        (acc, "k*l")
                    }
                    9 => {
                        let mut w = [0u8; 64];
                        w[..32].copy_from_slice(&src.bytes(32));
                        (Scalar::from_bytes_mod_order_wide(&w).to_bytes(), "random<l")
                    }
                    _ => (src.bytes(32).try_into().unwrap(), "random-full"),
                };
                (v.to_vec(), format!("scalar:{l}"))
            }
            Leaf::Point => {
                let (v, l): ([u8; 32], &str) = match src.below(12) {
                    0 => ([0; 32], "identity"),
                    1 => (RistrettoPoint::mul_base(&Scalar::ONE).compress().to_bytes(), "basepoint"),
                    2 => {
                        let mut w = [0u8; 64];
                        w[..32].copy_from_slice(&src.bytes(32));
                        (RistrettoPoint::mul_base(&Scalar::from_bytes_mod_order_wide(&w)).compress().to_bytes(), "k*B")
                    }
                    3 => {
                        let mut v = RistrettoPoint::mul_base(&Scalar::from(src.u64())).compress().to_bytes();
                        v[0] |= 1;
                        (v, "negative(odd)")
                    }
                    4 => (P25519, "p"),
                    5 => (le_add(&P25519, src.range(1, 18) as i32), "p+small"),
                    6 => ([0xff; 32], "all-ones"),
                    7 => {
                        let mut v = RistrettoPoint::mul_base(&Scalar::from(src.u64())).compress().to_bytes();
                        v[31] |= 0x80;
                        (v, "high-bit")
                    }
                    8 => {
                        let mut v = [0u8; 32];
                        v[0] = 1;
                        (v, "s=1")
                    }
                    9 => {
                        // valid point with one bit flipped
                        let mut v = RistrettoPoint::mul_base(&Scalar::from(src.u64())).compress().to_bytes();
                        let i = src.idx(256);
                        v[i / 8] ^= 1 << (i % 8);
                        (v, "k*B-bitflip")
                    }
                    _ => {
                        let mut v: [u8; 32] = src.bytes(32).try_into().unwrap();
                        v[0] &= 0xfe;
                        v[31] &= 0x7f;
                        (v, "random-even")
                    }
                };
                (v.to_vec(), format!("point:{l}"))
            }
            Leaf::Raw { size, .. } => {
                let (v, l) = match src.below(4) {
                    0 => (vec![0; size], "0"),
                    1 => (vec![0xff; size], "all-ones"),
                    _ => (src.bytes(size), "random"),
                };
                (v, format!("raw:{l}"))
            }
        }
    }
}

// ------------------------------------------------------------------------------------------
// the types under test
// ------------------------------------------------------------------------------------------

pub trait W: Serializable + Sized + 'static {
    fn tname() -> String;
    fn leaves(out: &mut Vec<Leaf>);
    /// a value built through the public constructors, and its reference encoding
    fn build(src: &mut Src<'_>) -> (Self, Vec<u8>);
    fn same(a: &Self, b: &Self) -> bool;
    fn show(v: &Self) -> String;
}

fn enc<T: Serializable>(v: &T, prefill: u8) -> Vec<u8> {
    let mut buf = GenericArray::<u8, T::Size>::default();
    buf.iter_mut().for_each(|b| *b = prefill);
    v.serialize(&mut buf);
    buf.to_vec()
}

fn gen_below(src: &mut Src<'_>, p: u128) -> u128 {
    match src.below(8) {
        0 => 0,
        1 => 1 % p,
        2 => p - 1,
        3 => p.saturating_sub(2),
        4 => (1u128 << src.below(u64::from(128 - (p - 1).leading_zeros()).max(1))) % p,
        5 => p / 2,
        _ => src.u128() % p,
    }
}

macro_rules! w_prime {
    ($t:ident, $size:expr, $p:expr) => {
        impl W for $t {
            fn tname() -> String {
                stringify!($t).into()
            }
            fn leaves(out: &mut Vec<Leaf>) {
                out.push(Leaf::Prime { size: $size, p: $p, name: stringify!($t) });
            }
            fn build(src: &mut Src<'_>) -> (Self, Vec<u8>) {
                let v = gen_below(src, $p);
                (<$t>::truncate_from(v), v.to_le_bytes()[..$size].to_vec())
            }
            fn same(a: &Self, b: &Self) -> bool {
                a == b
            }
            fn show(v: &Self) -> String {
                format!("{v:?}")
            }
        }
    };
}
w_prime!(Fp31, 1, 31);
w_prime!(Fp32BitPrime, 4, 4_294_967_291);
w_prime!(Fp61BitPrime, 8, 2_305_843_009_213_693_951);

macro_rules! w_bits {
    ($t:ident, $size:expr, $bits:expr) => {
        impl W for $t {
            fn tname() -> String {
                stringify!($t).into()
            }
            fn leaves(out: &mut Vec<Leaf>) {
                out.push(Leaf::Bits { size: $size, bits: $bits, name: stringify!($t) });
            }
            fn build(src: &mut Src<'_>) -> (Self, Vec<u8>) {
                let v = src.bits_val($bits);
                (<$t>::truncate_from(v), v.to_le_bytes()[..$size].to_vec())
            }
            fn same(a: &Self, b: &Self) -> bool {
                a == b
            }
            fn show(v: &Self) -> String {
                format!("{v:?}")
            }
        }
    };
}
w_bits!(Gf2, 1, 1);
w_bits!(Gf3Bit, 1, 3);
w_bits!(Gf8Bit, 1, 8);
w_bits!(Gf9Bit, 2, 9);
w_bits!(Gf20Bit, 3, 20);
w_bits!(Gf32Bit, 4, 32);
w_bits!(Gf40Bit, 5, 40);
w_bits!(BA3, 1, 3);
w_bits!(BA4, 1, 4);
w_bits!(BA5, 1, 5);
w_bits!(BA6, 1, 6);
w_bits!(BA7, 1, 7);
w_bits!(BA8, 1, 8);
w_bits!(BA16, 2, 16);
w_bits!(BA20, 3, 20);
w_bits!(BA32, 4, 32);
w_bits!(BA64, 8, 64);
w_bits!(BA96, 12, 96);
w_bits!(BA112, 14, 112);

fn gen_raw(src: &mut Src<'_>, n: usize) -> Vec<u8> {
    match src.below(5) {
        0 => vec![0; n],
        1 => vec![0xff; n],
        2 => {
            let mut v = vec![0; n];
            let i = src.idx(8 * n);
            v[i / 8] = 1 << (i % 8);
            v
        }
        _ => {
            let mut v = vec![0u8; n];
            StdRng::seed_from_u64(src.seed()).fill_bytes(&mut v);
            v
        }
    }
}

macro_rules! w_ba_large {
    ($t:ident, $size:expr, $bits:expr) => {
        impl W for $t {
            fn tname() -> String {
                stringify!($t).into()
            }
            fn leaves(out: &mut Vec<Leaf>) {
                out.push(Leaf::Bits { size: $size, bits: $bits, name: stringify!($t) });
            }
            fn build(src: &mut Src<'_>) -> (Self, Vec<u8>) {
                let bytes = gen_raw(src, $size);
                // bit by bit through FromIterator<Boolean>
                let v: $t = (0..$bits).map(|i| Boolean::from((bytes[i / 8] >> (i % 8)) & 1 == 1)).collect();
                (v, bytes)
            }
            fn same(a: &Self, b: &Self) -> bool {
                a == b
            }
            fn show(v: &Self) -> String {
                format!("{v:?}")
            }
        }
    };
}
w_ba_large!(BA144, 18, 144);
w_ba_large!(BA256, 32, 256);

impl W for Boolean {
    fn tname() -> String {
        "Boolean".into()
    }
    fn leaves(out: &mut Vec<Leaf>) {
        out.push(Leaf::Bool);
    }
    fn build(src: &mut Src<'_>) -> (Self, Vec<u8>) {
        let b = src.bool();
        (Boolean::from(b), vec![u8::from(b)])
    }
    fn same(a: &Self, b: &Self) -> bool {
        a == b
    }
    fn show(v: &Self) -> String {
        format!("{v:?}")
    }
}

fn gen_scalar(src: &mut Src<'_>) -> Scalar {
    match src.below(7) {
        0 => Scalar::ZERO,
        1 => Scalar::ONE,
        2 => -Scalar::ONE,
        3 => Scalar::from(src.u64()),
        4 => {
            let k = src.below(252) as usize;
            let mut b = [0u8; 32];
            b[k / 8] = 1 << (k % 8);
            Scalar::from_bytes_mod_order(b)
        }
        _ => {
            let mut w = [0u8; 64];
            StdRng::seed_from_u64(src.seed()).fill_bytes(&mut w);
            Scalar::from_bytes_mod_order_wide(&w)
        }
    }
}

impl W for Fp25519 {
    fn tname() -> String {
        "Fp25519".into()
    }
    fn leaves(out: &mut Vec<Leaf>) {
        out.push(Leaf::Scalar);
    }
    fn build(src: &mut Src<'_>) -> (Self, Vec<u8>) {
        let s = gen_scalar(src);
        (Fp25519::from(s), s.to_bytes().to_vec())
    }
    fn same(a: &Self, b: &Self) -> bool {
        a == b
    }
    fn show(v: &Self) -> String {
        format!("{v:?}")
    }
}

impl W for RP25519 {
    fn tname() -> String {
        "RP25519".into()
    }
    fn leaves(out: &mut Vec<Leaf>) {
        out.push(Leaf::Point);
    }
    fn build(src: &mut Src<'_>) -> (Self, Vec<u8>) {
        let s = gen_scalar(src);
        (RP25519::from(Fp25519::from(s)), RistrettoPoint::mul_base(&s).compress().to_bytes().to_vec())
    }
    fn same(a: &Self, b: &Self) -> bool {
        a == b
    }
    fn show(v: &Self) -> String {
        format!("{v:?}")
    }
}

impl W for Hash {
    fn tname() -> String {
        "Hash".into()
    }
    fn leaves(out: &mut Vec<Leaf>) {
        out.push(Leaf::Raw { size: 32, name: "Hash" });
    }
    fn build(src: &mut Src<'_>) -> (Self, Vec<u8>) {
        // the only constructor is hashing; reference = SHA-256 of the concatenated encodings
        let n = src.urange(0, 40);
        let data = src.bytes(n);
        let items: Vec<BA8> = data.iter().map(|b| BA8::truncate_from(*b)).collect();
        let h = compute_possibly_empty_hash(&items);
        (h, Sha256::digest(&data).to_vec())
    }
    fn same(a: &Self, b: &Self) -> bool {
        a == b
    }
    fn show(v: &Self) -> String {
        format!("{v:?}")
    }
}

impl W for Seed {
    fn tname() -> String {
        "Seed".into()
    }
    fn leaves(out: &mut Vec<Leaf>) {
        out.push(Leaf::Raw { size: 32, name: "Seed" });
    }
    fn build(src: &mut Src<'_>) -> (Self, Vec<u8>) {
        let (lo, hi) = (src.bits_val(128), src.bits_val(128));
        let mut b = lo.to_le_bytes().to_vec();
        b.extend_from_slice(&hi.to_le_bytes());
        (Seed::from_random(GenericArray::from([lo, hi])), b)
    }
    fn same(a: &Self, b: &Self) -> bool {
        enc(a, 0) == enc(b, 0)
    }
    fn show(v: &Self) -> String {
        format!("{v:?}")
    }
}

impl W for (Seed, Seed) {
    fn tname() -> String {
        "(Seed,Seed)".into()
    }
    fn leaves(out: &mut Vec<Leaf>) {
        out.push(Leaf::Raw { size: 32, name: "Seed" });
        out.push(Leaf::Raw { size: 32, name: "Seed" });
    }
    fn build(src: &mut Src<'_>) -> (Self, Vec<u8>) {
        let (a, mut ab) = Seed::build(src);
        let (b, bb) = Seed::build(src);
        ab.extend(bb);
        ((a, b), ab)
    }
    fn same(a: &Self, b: &Self) -> bool {
        enc(a, 0) == enc(b, 0)
    }
    fn show(v: &Self) -> String {
        format!("{v:?}")
    }
}

struct TagBytes([u8; 16]);
impl UniqueBytes for TagBytes {
    fn unique_bytes(&self) -> [u8; 16] {
        self.0
    }
}

impl W for UniqueTag {
    fn tname() -> String {
        "UniqueTag".into()
    }
    fn leaves(out: &mut Vec<Leaf>) {
        out.push(Leaf::Raw { size: 16, name: "UniqueTag" });
    }
    fn build(src: &mut Src<'_>) -> (Self, Vec<u8>) {
        let b: [u8; 16] = gen_raw(src, 16).try_into().unwrap();
        (UniqueTag::from_unique_bytes(&TagBytes(b)), b.to_vec())
    }
    fn same(a: &Self, b: &Self) -> bool {
        a.unique_bytes() == b.unique_bytes()
    }
    fn show(v: &Self) -> String {
        format!("{v:?}")
    }
}

impl W for x25519_dalek::PublicKey {
    fn tname() -> String {
        "x25519::PublicKey".into()
    }
    fn leaves(out: &mut Vec<Leaf>) {
        out.push(Leaf::Raw { size: 32, name: "x25519::PublicKey" });
    }
    fn build(src: &mut Src<'_>) -> (Self, Vec<u8>) {
        let b: [u8; 32] = gen_raw(src, 32).try_into().unwrap();
        (x25519_dalek::PublicKey::from(b), b.to_vec())
    }
    fn same(a: &Self, b: &Self) -> bool {
        a == b
    }
    fn show(v: &Self) -> String {
        format!("{v:?}")
    }
}

impl W for PrfHybridReport<BA8, BA3> {
    fn tname() -> String {
        "PrfHybridReport<BA8,BA3>".into()
    }
    fn leaves(out: &mut Vec<Leaf>) {
        out.push(Leaf::Raw { size: 8, name: "u64" });
        Share::<BA3>::leaves(out);
        Share::<BA8>::leaves(out);
    }
    fn build(src: &mut Src<'_>) -> (Self, Vec<u8>) {
        let mk = src.bits_val(64) as u64;
        let (value, vb) = Share::<BA3>::build(src);
        let (breakdown_key, bb) = Share::<BA8>::build(src);
        let mut b = mk.to_le_bytes().to_vec();
        b.extend(vb);
        b.extend(bb);
        (PrfHybridReport::<BA8, BA3> { match_key: mk, value, breakdown_key }, b)
    }
    fn same(a: &Self, b: &Self) -> bool {
        a == b
    }
    fn show(v: &Self) -> String {
        format!("{v:?}")
    }
}

impl<T: W + SharedValue> W for Share<T>
where
    Share<T>: Serializable,
{
    fn tname() -> String {
        format!("AdditiveShare<{}>", T::tname())
    }
    fn leaves(out: &mut Vec<Leaf>) {
        T::leaves(out);
        T::leaves(out);
    }
    fn build(src: &mut Src<'_>) -> (Self, Vec<u8>) {
        let (l, mut lb) = T::build(src);
        let (r, rb) = T::build(src);
        lb.extend(rb);
        (Share::new(l, r), lb)
    }
    fn same(a: &Self, b: &Self) -> bool {
        T::same(&a.left(), &b.left()) && T::same(&a.right(), &b.right())
    }
    fn show(v: &Self) -> String {
        format!("({}, {})", T::show(&v.left()), T::show(&v.right()))
    }
}

impl<T> W for MShare<T>
where
    T: W + SharedValue + crate::secret_sharing::replicated::malicious::ExtendableField,
    T::ExtendedField: W,
    Share<T>: W,
    Share<T::ExtendedField>: W,
    MShare<T>: Serializable,
{
    fn tname() -> String {
        format!("malicious::AdditiveShare<{}>", T::tname())
    }
    fn leaves(out: &mut Vec<Leaf>) {
        Share::<T>::leaves(out);
        Share::<T::ExtendedField>::leaves(out);
    }
    fn build(src: &mut Src<'_>) -> (Self, Vec<u8>) {
        let (x, mut xb) = Share::<T>::build(src);
        let (rx, rb) = Share::<T::ExtendedField>::build(src);
        xb.extend(rb);
        (MShare::new(x, rx), xb)
    }
    fn same(a: &Self, b: &Self) -> bool {
        a == b
    }
    fn show(v: &Self) -> String {
        format!("{v:?}")
    }
}

/// nested choice source for wide arrays: one seed of the outer sequence expands to as many
/// choices as the elements need
fn nested<R>(src: &mut Src<'_>, n: usize, f: impl FnOnce(&mut Src<'_>) -> R) -> R {
    let mut rng = StdRng::seed_from_u64(src.seed());
    let mode = src.below(4);
    let v: Vec<u32> = (0..n)
        .map(|_| match mode {
            0 => 0,
            _ => rng.r#gen(),
        })
        .collect();
    f(&mut Src::new(&v))
}

impl<T: W + SharedValue, const N: usize> W for StdArray<T, N>
where
    StdArray<T, N>: Serializable,
{
    fn tname() -> String {
        format!("StdArray<{},{N}>", T::tname())
    }
    fn leaves(out: &mut Vec<Leaf>) {
        for _ in 0..N {
            T::leaves(out);
        }
    }
    fn build(src: &mut Src<'_>) -> (Self, Vec<u8>) {
        nested(src, 12 * N, |s| {
            let mut vals = Vec::with_capacity(N);
            let mut bytes = vec![];
            for _ in 0..N {
                let (v, b) = T::build(s);
                vals.push(v);
                bytes.extend(b);
            }
            (StdArray::try_from(vals).ok().expect("N elements"), bytes)
        })
    }
    fn same(a: &Self, b: &Self) -> bool {
        a == b
    }
    fn show(v: &Self) -> String {
        let s = format!("{v:?}");
        if s.len() > 300 { format!("{}...", &s[..300]) } else { s }
    }
}

const PROOF_ARRAY_LEN: usize = FirstProofGenerator::PROOF_LENGTH + (MAX_PROOF_RECURSION - 1) * CompressedProofGenerator::PROOF_LENGTH;

macro_rules! w_array {
    ($t:ty, $elem:ty, $n:expr, $name:expr, $mk:expr) => {
        impl W for $t {
            fn tname() -> String {
                $name.into()
            }
            fn leaves(out: &mut Vec<Leaf>) {
                for _ in 0..$n {
                    <$elem>::leaves(out);
                }
            }
            fn build(src: &mut Src<'_>) -> (Self, Vec<u8>) {
                nested(src, 12 * $n, |s| {
                    let mut vals = Vec::with_capacity($n);
                    let mut bytes = vec![];
                    for _ in 0..$n {
                        let (v, b) = <$elem>::build(s);
                        vals.push(v);
                        bytes.extend(b);
                    }
                    let arr: [$elem; $n] = vals.try_into().ok().expect("n elements");
                    ($mk(arr), bytes)
                })
            }
            fn same(a: &Self, b: &Self) -> bool {
                a == b
            }
            fn show(v: &Self) -> String {
                let s = format!("{v:?}");
                if s.len() > 300 { format!("{}...", &s[..300]) } else { s }
            }
        }
    };
}
w_array!([Hash; MAX_PROOF_RECURSION], Hash, MAX_PROOF_RECURSION, "[Hash;14]", |a| a);
w_array!([Fp61BitPrime; MAX_PROOF_RECURSION + 1], Fp61BitPrime, MAX_PROOF_RECURSION + 1, "ProofDiff=[Fp61BitPrime;15]", |a| a);
w_array!(Box<[Fp61BitPrime; PROOF_ARRAY_LEN]>, Fp61BitPrime, PROOF_ARRAY_LEN, "ProofBatch=Box<[Fp61BitPrime;N]>", Box::new);

// ------------------------------------------------------------------------------------------
// table of types
// ------------------------------------------------------------------------------------------

pub enum Decoded {
    Accepted,
    Rejected,
    Panicked,
}

pub struct TypeInfo {
    pub name: String,
    pub size: usize,
    pub leaves: Vec<Leaf>,
    pub decode: fn(&Env, &TypeInfo, &[u8], &dyn Fn() -> Value) -> Result<Decoded, CaseErr>,
    pub raw_accepts: fn(&[u8]) -> bool,
    pub roundtrip: fn(&Env, &TypeInfo, &mut Src<'_>) -> Result<(bool, Value), CaseErr>,
}

impl TypeInfo {
    /// (verdict of the reference model, name of the first non-canonical leaf)
    pub fn verdict(&self, b: &[u8]) -> (Verdict, &'static str) {
        let mut off = 0;
        let mut unknown = false;
        for l in &self.leaves {
            match l.verdict(&b[off..off + l.size()]) {
                Verdict::NonCanonical => return (Verdict::NonCanonical, l.name()),
                Verdict::Unknown => unknown = true,
                Verdict::Canonical => {}
            }
            off += l.size();
        }
        (if unknown { Verdict::Unknown } else { Verdict::Canonical }, "")
    }
    pub fn cardinality(&self) -> Option<u128> {
        self.leaves.iter().try_fold(1u128, |acc, l| l.cardinality().and_then(|c| acc.checked_mul(c)))
    }
}

fn hexs(b: &[u8]) -> String {
    let mut s = String::with_capacity(2 * b.len());
    for x in b.iter().take(96) {
        s.push_str(&format!("{x:02x}"));
    }
    if b.len() > 96 {
        s.push_str(&format!("..({} bytes)", b.len()));
    }
    s
}

/// bytes -> value -> bytes
fn decode_check<T: W>(env: &Env, ti: &TypeInfo, bytes: &[u8], case: &dyn Fn() -> Value) -> Result<Decoded, CaseErr> {
    let arr = GenericArray::<u8, T::Size>::from_slice(bytes);
    let (want, bad_leaf) = ti.verdict(bytes);
    match catch(|| T::deserialize(arr)) {
        Err((loc, msg)) => {
            known_or_violation(env, &format!("decode-panic:{}", ti.name), format!("{}::deserialize panics at {loc}: {msg} on {}", ti.name, hexs(bytes)), case())?;
            Ok(Decoded::Panicked)
        }
        Ok(Err(e)) => {
            if want == Verdict::Canonical {
                known_or_violation(
                    env,
                    &format!("canonical-rejected:{}", ti.name),
                    format!("{}::deserialize rejects {} which is the canonical encoding of a value: {e}", ti.name, hexs(bytes)),
                    case(),
                )?;
            }
            Ok(Decoded::Rejected)
        }
        Ok(Ok(v)) => {
            let re = enc(&v, 0x5a);
            if want == Verdict::NonCanonical {
                known_or_violation(
                    env,
                    &format!("noncanonical-accepted:{bad_leaf}"),
                    format!(
                        "{}::deserialize accepts {} whose {bad_leaf} component is not a canonical encoding; value {} re-encodes to {}",
                        ti.name, hexs(bytes), T::show(&v), hexs(&re)
                    ),
                    case(),
                )?;
            } else if re != bytes {
                known_or_violation(
                    env,
                    &format!("reencode-differs:{}", ti.name),
                    format!("{}::deserialize accepts {} but the value {} encodes to {}", ti.name, hexs(bytes), T::show(&v), hexs(&re)),
                    case(),
                )?;
            }
            // the re-encoding is stable and decodes to the same value
            let arr2 = GenericArray::<u8, T::Size>::from_slice(&re);
            match catch(|| T::deserialize(arr2)) {
                Ok(Ok(v2)) if T::same(&v, &v2) && enc(&v2, 0xa5) == re => {}
                other => {
                    let how = match other {
                        Ok(Ok(v2)) => format!("decodes to {}", T::show(&v2)),
                        Ok(Err(e)) => format!("is rejected: {e}"),
                        Err((l, m)) => format!("panics at {l}: {m}"),
                    };
                    known_or_violation(
                        env,
                        &format!("own-encoding-unstable:{}", ti.name),
                        format!("{}: value {} decoded from {} encodes to {} which {how}", ti.name, T::show(&v), hexs(bytes), hexs(&re)),
                        case(),
                    )?;
                }
            }
            Ok(Decoded::Accepted)
        }
    }
}

fn raw_accepts<T: W>(bytes: &[u8]) -> bool {
    T::deserialize(GenericArray::<u8, T::Size>::from_slice(bytes)).is_ok()
}

/// value -> bytes -> value
fn roundtrip_check<T: W>(env: &Env, ti: &TypeInfo, src: &mut Src<'_>) -> Result<(bool, Value), CaseErr> {
    let (v, want) = T::build(src);
    let case = json!({"type": ti.name, "value": T::show(&v), "reference_encoding": hexs(&want)});
    let fail = |kind: &str, msg: String| known_or_violation(env, &format!("{kind}:{}", ti.name), msg, case.clone());
    if want.len() != ti.size {
        return Err(violation("harness-model", format!("reference encoding of {} has {} bytes, Size is {}", ti.name, want.len(), ti.size), case.clone()));
    }
    let (a, b) = match catch(|| (enc(&v, 0x00), enc(&v, 0xff))) {
        Ok(x) => x,
        Err((l, m)) => {
            fail("encode-panic", format!("{}::serialize panics at {l}: {m}", ti.name))?;
            return Ok((false, case));
        }
    };
    if a != b {
        fail("encode-incomplete", format!("{}::serialize does not write all {} bytes: {} vs {} for different buffer contents", ti.name, ti.size, hexs(&a), hexs(&b)))?;
    }
    if a != want {
        fail("encode-differs", format!("{}::serialize({}) = {}, reference encoding {}", ti.name, T::show(&v), hexs(&a), hexs(&want)))?;
    }
    match catch(|| T::deserialize(GenericArray::<u8, T::Size>::from_slice(&a))) {
        Ok(Ok(v2)) => {
            if !T::same(&v, &v2) {
                fail("roundtrip-differs", format!("{}: {} encodes to {} which decodes to {}", ti.name, T::show(&v), hexs(&a), T::show(&v2)))?;
            }
        }
        Ok(Err(e)) => fail("roundtrip-rejected", format!("{}: own encoding {} of {} is rejected: {e}", ti.name, hexs(&a), T::show(&v)))?,
        Err((l, m)) => fail("decode-panic", format!("{}::deserialize panics at {l}: {m} on its own encoding {} of {}", ti.name, hexs(&a), T::show(&v)))?,
    }
    Ok((want.iter().any(|x| *x != 0), case))
}

fn info<T: W>() -> TypeInfo {
    let mut leaves = vec![];
    T::leaves(&mut leaves);
    let size = <T::Size as Unsigned>::USIZE;
    assert_eq!(size, leaves.iter().map(Leaf::size).sum::<usize>(), "leaf model of {} does not add up to Size", T::tname());
    TypeInfo { name: T::tname(), size, leaves, decode: decode_check::<T>, raw_accepts: raw_accepts::<T>, roundtrip: roundtrip_check::<T> }
}

fn build_table() -> Vec<TypeInfo> {
    vec![
        // 1 byte
        info::<Fp31>(),
        info::<Boolean>(),
        info::<Gf2>(),
        info::<Gf3Bit>(),
        info::<Gf8Bit>(),
        info::<BA3>(),
        info::<BA4>(),
        info::<BA5>(),
        info::<BA6>(),
        info::<BA7>(),
        info::<BA8>(),
        info::<StdArray<Fp31, 1>>(),
        info::<StdArray<BA3, 1>>(),
        info::<StdArray<Boolean, 1>>(),
        // 2 bytes
        info::<Gf9Bit>(),
        info::<BA16>(),
        info::<Share<Fp31>>(),
        info::<Share<Boolean>>(),
        info::<Share<Gf2>>(),
        info::<Share<Gf3Bit>>(),
        info::<Share<Gf8Bit>>(),
        info::<Share<BA3>>(),
        info::<Share<BA4>>(),
        info::<Share<BA5>>(),
        info::<Share<BA6>>(),
        info::<Share<BA7>>(),
        info::<Share<BA8>>(),
        info::<StdArray<Gf9Bit, 1>>(),
        // 3 bytes
        info::<Gf20Bit>(),
        info::<BA20>(),
        // larger
        info::<Fp32BitPrime>(),
        info::<Fp61BitPrime>(),
        info::<Gf32Bit>(),
        info::<Gf40Bit>(),
        info::<BA32>(),
        info::<BA64>(),
        info::<BA96>(),
        info::<BA112>(),
        info::<BA144>(),
        info::<BA256>(),
        info::<Fp25519>(),
        info::<RP25519>(),
        info::<Hash>(),
        info::<Seed>(),
        info::<(Seed, Seed)>(),
        info::<UniqueTag>(),
        info::<x25519_dalek::PublicKey>(),
        info::<PrfHybridReport<BA8, BA3>>(),
        info::<Share<Gf9Bit>>(),
        info::<Share<BA16>>(),
        info::<Share<Gf20Bit>>(),
        info::<Share<BA20>>(),
        info::<Share<Fp32BitPrime>>(),
        info::<Share<Fp61BitPrime>>(),
        info::<Share<Gf32Bit>>(),
        info::<Share<Gf40Bit>>(),
        info::<Share<BA32>>(),
        info::<Share<BA64>>(),
        info::<Share<BA96>>(),
        info::<Share<BA112>>(),
        info::<Share<BA144>>(),
        info::<Share<BA256>>(),
        info::<Share<Fp25519>>(),
        info::<Share<RP25519>>(),
        info::<MShare<Fp31>>(),
        info::<MShare<Fp32BitPrime>>(),
        info::<MShare<Fp61BitPrime>>(),
        info::<MShare<Fp25519>>(),
        info::<MShare<Gf2>>(),
        info::<StdArray<Fp32BitPrime, 1>>(),
        info::<StdArray<Fp31, 16>>(),
        info::<StdArray<BA3, 32>>(),
        info::<StdArray<Boolean, 64>>(),
        info::<StdArray<Fp32BitPrime, 32>>(),
        info::<StdArray<Gf32Bit, 32>>(),
        info::<StdArray<Fp61BitPrime, 64>>(),
        info::<StdArray<BA20, 16>>(),
        info::<StdArray<Fp25519, 16>>(),
        info::<StdArray<RP25519, 16>>(),
        info::<StdArray<BA64, 256>>(),
        info::<StdArray<BA256, 256>>(),
        info::<[Hash; MAX_PROOF_RECURSION]>(),
        info::<[Fp61BitPrime; MAX_PROOF_RECURSION + 1]>(),
        info::<Box<[Fp61BitPrime; PROOF_ARRAY_LEN]>>(),
    ]
}

fn table() -> &'static Vec<TypeInfo> {
    static T: std::sync::OnceLock<Vec<TypeInfo>> = std::sync::OnceLock::new();
    T.get_or_init(build_table)
}

fn index(src: &mut Src<'_>) -> u64 {
    let lo = u64::from(src.raw());
    let hi = u64::from(src.raw());
    lo | (hi << 32)
}

// ------------------------------------------------------------------------------------------
// sub-check: all byte strings of the types of at most 2 bytes (3 bytes in the thorough tier)
// ------------------------------------------------------------------------------------------

fn small_types(max: usize) -> Vec<&'static TypeInfo> {
    table().iter().filter(|t| t.size <= max).collect()
}

fn small_total(max: usize) -> u64 {
    small_types(max).iter().map(|t| 1u64 << (8 * t.size)).sum()
}

fn small_case(env: &Env, ti: &'static TypeInfo, v: u64) -> CaseResult {
    let bytes = &v.to_le_bytes()[..ti.size];
    let case = || json!({"type": ti.name, "bytes": hexs(bytes)});
    let d = (ti.decode)(env, ti, bytes, &case)?;
    let (want, _) = ti.verdict(bytes);
    let label = match (&d, want) {
        (Decoded::Accepted, _) => "accepted",
        (Decoded::Rejected, _) => "rejected",
        (Decoded::Panicked, _) => "panicked",
    };
    // non-trivial: a string outside the canonical set, or the encoding of a non-zero value
    let nontrivial = want == Verdict::NonCanonical || v != 0;
    let sample = if v % 4099 == 7 { json!({"type": ti.name, "bytes": hexs(bytes), "outcome": label}) } else { Value::Null };
    Ok(CaseOk::new(nontrivial, &(ti.name.as_str(), v), sample).label(format!("{}:{label}", ti.name)))
}

fn small_exhaustive(env: &Env, src: &mut Src<'_>) -> CaseResult {
    let mut i = index(src);
    let max = if env.thorough() { 3 } else { 2 };
    for ti in small_types(max) {
        let n = 1u64 << (8 * ti.size);
        if i < n {
            return small_case(env, ti, i);
        }
        i -= n;
    }
    Err(CaseErr::Reject("index out of range".into()))
}

/// quick tier: the 3-byte types on a stride that visits every value of the top byte (where the
/// padding bits are) with varying low bytes
fn three_byte_sample(env: &Env, src: &mut Src<'_>) -> CaseResult {
    let i = index(src);
    let three: Vec<&'static TypeInfo> = table().iter().filter(|t| t.size == 3).collect();
    let per = (1u64 << 24) / 251 + 1;
    let ti = three[(i / per) as usize % three.len()];
    let v = ((i % per) * 251) & 0xff_ffff;
    small_case(env, ti, v)
}

/// the number of accepted strings equals the advertised cardinality
fn cardinality(env: &Env, src: &mut Src<'_>) -> CaseResult {
    let i = index(src) as usize;
    let ti = small_types(3)[i];
    let want = ti.cardinality().expect("small types have a known cardinality");
    let mut buf = [0u8; 8];
    let mut got = 0u128;
    let mut first_extra = None;
    for v in 0..(1u64 << (8 * ti.size)) {
        buf = v.to_le_bytes();
        if (ti.raw_accepts)(&buf[..ti.size]) {
            got += 1;
            if ti.verdict(&buf[..ti.size]).0 == Verdict::NonCanonical && first_extra.is_none() {
                first_extra = Some(v);
            }
        }
    }
    let _ = buf;
    // the numbers the property text spells out
    let spelled: BTreeMap<&str, u128> =
        [("Fp31", 31), ("Boolean", 2), ("Gf2", 2), ("BA3", 8), ("Gf3Bit", 8), ("BA4", 16), ("Gf9Bit", 512), ("BA16", 65536), ("BA20", 1 << 20), ("Gf20Bit", 1 << 20)].into();
    if let Some(s) = spelled.get(ti.name.as_str()) {
        if *s != want {
            return Err(violation("harness-model", format!("cardinality model of {} is {want}, the property text says {s}", ti.name), json!({})));
        }
    }
    if got != want {
        known_or_violation(
            env,
            &format!("cardinality:{}", ti.name),
            format!(
                "{}: {got} of the {} byte strings are accepted, the type has {want} values{}",
                ti.name,
                1u64 << (8 * ti.size),
                first_extra.map_or(String::new(), |v| format!("; e.g. {} is accepted", hexs(&v.to_le_bytes()[..ti.size])))
            ),
            json!({"type": ti.name, "accepted": got.to_string(), "values": want.to_string()}),
        )?;
    }
    Ok(CaseOk::new(true, &i, json!({"type": ti.name, "strings": 1u64 << (8 * ti.size), "accepted": got.to_string(), "values": want.to_string()})).label(ti.name.clone()))
}

// ------------------------------------------------------------------------------------------
// sub-check: boundary and random byte strings for every type
// ------------------------------------------------------------------------------------------

fn large_decode(env: &Env, src: &mut Src<'_>) -> CaseResult {
    let t = table();
    // two thirds of the cases go to the types that are not covered exhaustively
    let big: Vec<usize> = (0..t.len()).filter(|i| t[*i].size > 2).collect();
    let ti = if src.chance(1, 6) { &t[src.idx(t.len())] } else { &t[big[src.idx(big.len())]] };
    let mut rng = StdRng::seed_from_u64(src.seed());
    // start from canonical encodings of random values, then perturb up to three leaves
    let mode = src.below(8);
    let mut bytes = Vec::with_capacity(ti.size);
    for l in &ti.leaves {
        match mode {
            0 => bytes.extend(std::iter::repeat_n(0u8, l.size())),
            1 => bytes.extend(std::iter::repeat_n(0xffu8, l.size())),
            2 => {
                let mut v = vec![0u8; l.size()];
                rng.fill_bytes(&mut v);
                bytes.extend(v);
            }
            _ => bytes.extend(l.canonical_fill(&mut rng)),
        }
    }
    let mut labels = vec![format!("base:{}", ["zeros", "all-ones", "random-bytes", "canonical", "canonical", "canonical", "canonical", "canonical"][mode as usize])];
    let nperturb = if mode >= 3 { src.urange(0, 3) } else { 0 };
    for _ in 0..nperturb {
        let k = match src.below(4) {
            0 => 0,
            1 => ti.leaves.len() - 1,
            _ => src.idx(ti.leaves.len()),
        };
        let off: usize = ti.leaves[..k].iter().map(Leaf::size).sum();
        let (b, l) = ti.leaves[k].boundary(src);
        bytes[off..off + b.len()].copy_from_slice(&b);
        labels.push(l);
    }
    let case = || json!({"type": ti.name, "bytes": hexs(&bytes)});
    let d = (ti.decode)(env, ti, &bytes, &case)?;
    let (want, _) = ti.verdict(&bytes);
    let out = match d {
        Decoded::Accepted => "accepted",
        Decoded::Rejected => "rejected",
        Decoded::Panicked => "panicked",
    };
    labels.push(format!("verdict:{want:?}:{out}"));
    labels.push(format!("type:{}", ti.name));
    let nontrivial = want == Verdict::NonCanonical || bytes.iter().any(|b| *b != 0);
    Ok(CaseOk::new(nontrivial, &(ti.name.as_str(), &bytes), json!({"type": ti.name, "bytes": hexs(&bytes), "model": format!("{want:?}"), "outcome": out})).labels(labels))
}

// ------------------------------------------------------------------------------------------
// sub-check: value -> bytes -> value
// ------------------------------------------------------------------------------------------

fn roundtrip(env: &Env, src: &mut Src<'_>) -> CaseResult {
    let t = table();
    let ti = &t[src.idx(t.len())];
    let (nonzero, case) = (ti.roundtrip)(env, ti, src)?;
    Ok(CaseOk::new(nonzero, &(ti.name.as_str(), case.to_string()), case).label(format!("type:{}", ti.name)))
}

// ------------------------------------------------------------------------------------------
// sub-check: bit-matrix transposes against the naive (i,j) -> (j,i) transpose
// ------------------------------------------------------------------------------------------

mod tr {
    use super::*;
    use crate::{
        error::{LengthError, UnwrapInfallible},
        secret_sharing::{BitDecomposed, TransposeFrom, Vectorizable},
    };

    pub type Mat = Vec<Vec<bool>>;

    pub fn gen_matrix(src: &mut Src<'_>, rows: usize, cols: usize) -> (Mat, &'static str) {
        let mut m = vec![vec![false; cols]; rows];
        let l = match src.below(10) {
            0 => "zero",
            1 => {
                m.iter_mut().for_each(|r| r.iter_mut().for_each(|b| *b = true));
                "ones"
            }
            2 => {
                for i in 0..rows {
                    m[i][i % cols] = true;
                }
                "diagonal"
            }
            3 => {
                let (i, j) = (src.idx(rows), src.idx(cols));
                m[i][j] = true;
                "single-bit"
            }
            4 => {
                let i = src.idx(rows);
                m[i].iter_mut().for_each(|b| *b = true);
                "one-row"
            }
            5 => {
                let j = src.idx(cols);
                m.iter_mut().for_each(|r| r[j] = true);
                "one-column"
            }
            6 => {
                // corners and the last row/column: off-by-one errors show here
                let (i, j) = (if src.bool() { rows - 1 } else { 0 }, if src.bool() { cols - 1 } else { 0 });
                m[i][j] = true;
                "corner"
            }
            _ => {
                let mut rng = StdRng::seed_from_u64(src.seed());
                m.iter_mut().for_each(|r| r.iter_mut().for_each(|b| *b = rng.r#gen()));
                "random"
            }
        };
        (m, l)
    }

    pub fn ba_from<B: BooleanArray>(row: &[bool]) -> B {
        row.iter().map(|b| Boolean::from(*b)).collect()
    }
    pub fn ba_bits<B: BooleanArray>(b: &B) -> Vec<bool> {
        ArrayAccess::iter(b).map(bool::from).collect()
    }

    /// `dst` (cols x rows) must be the transpose of `src` (rows x cols)
    pub fn cmp_t(env: &Env, name: &str, part: &str, src: &Mat, dst: &Mat, class: &str) -> Result<(), CaseErr> {
        let (rows, cols) = (src.len(), src[0].len());
        if dst.len() < cols {
            return known_or_violation(env, &format!("transpose:{name}"), format!("{name} {part}: destination has {} rows, expected {cols}", dst.len()), json!({"class": class}));
        }
        for j in 0..cols {
            if dst[j].len() != rows {
                return known_or_violation(env, &format!("transpose:{name}"), format!("{name} {part}: destination row {j} has {} bits, expected {rows}", dst[j].len()), json!({"class": class}));
            }
            for i in 0..rows {
                if dst[j][i] != src[i][j] {
                    return known_or_violation(
                        env,
                        &format!("transpose:{name}"),
                        format!("{name} {part} share: destination bit ({j},{i}) = {} but source bit ({i},{j}) = {} (source class {class})", dst[j][i], src[i][j]),
                        json!({"class": class, "source_set_bits": src.iter().enumerate().flat_map(|(a, r)| r.iter().enumerate().filter(|(_, b)| **b).map(move |(c, _)| (a, c))).take(40).collect::<Vec<_>>()}),
                    );
                }
            }
        }
        Ok(())
    }

    pub fn guard<R>(env: &Env, name: &str, f: impl FnOnce() -> R) -> Result<Option<R>, CaseErr> {
        match catch(f) {
            Ok(r) => Ok(Some(r)),
            Err((l, m)) => {
                known_or_violation(env, &format!("transpose-panic:{name}"), format!("{name} panics at {l}: {m}"), json!({}))?;
                Ok(None)
            }
        }
    }

    pub type Case = fn(&Env, &mut Src<'_>) -> Result<String, CaseErr>;

    // [BA; N] <- &[BA; N]
    macro_rules! t_ba_to_ba {
        ($f:ident, $ba:ty, $n:expr) => {
            pub fn $f(env: &Env, src: &mut Src<'_>) -> Result<String, CaseErr> {
                const N: usize = $n;
                let name = concat!("ba_to_ba<", stringify!($ba), ",", stringify!($n), "x", stringify!($n), ">");
                let (m, cl) = gen_matrix(src, N, N);
                let rows: Vec<$ba> = m.iter().map(|r| ba_from(r)).collect();
                let arr: &[$ba; N] = rows.as_slice().try_into().unwrap();
                let ones: $ba = ba_from(&vec![true; N]);
                let Some(dst) = guard(env, name, || {
                    let mut dst = [ones; N];
                    dst.transpose_from(arr).unwrap_infallible();
                    dst
                })?
                else {
                    return Ok(cl.into());
                };
                cmp_t(env, name, "plain", &m, &dst.iter().map(ba_bits).collect(), cl)?;
                // Vec shim, and the transpose is an involution
                let mut v: Vec<$ba> = vec![ones; src.urange(0, 3)];
                v.transpose_from(arr).unwrap_infallible();
                if v[..] != dst[..] {
                    known_or_violation(env, &format!("transpose:{name}"), format!("{name}: Vec destination differs from array destination"), json!({"class": cl}))?;
                }
                let mut back = [ones; N];
                back.transpose_from(&dst).unwrap_infallible();
                if back[..] != rows[..] {
                    known_or_violation(env, &format!("transpose-inverse:{name}"), format!("{name}: transposing twice does not restore the input"), json!({"class": cl}))?;
                }
                Ok(cl.into())
            }
        };
    }

    // [AdditiveShare<BA_M>; N] <- &[AdditiveShare<Boolean, N>; M]
    macro_rules! t_bool_to_ba {
        ($f:ident, $dr:ty, $m:expr, $n:expr) => {
            pub fn $f(env: &Env, src: &mut Src<'_>) -> Result<String, CaseErr> {
                const M: usize = $m;
                const N: usize = $n;
                let name = concat!("bool_to_ba<", stringify!($dr), ",", stringify!($m), "x", stringify!($n), ">");
                let (l, cl) = gen_matrix(src, M, N);
                let (r, cr) = gen_matrix(src, M, N);
                let rows: Vec<Share<Boolean, N>> = (0..M).map(|i| Share::new_arr(ba_from(&l[i]), ba_from(&r[i]))).collect();
                let arr: &[Share<Boolean, N>; M] = rows.as_slice().try_into().unwrap();
                let ones: $dr = ba_from(&vec![true; M]);
                let Some(dst) = guard(env, name, || {
                    let mut dst: [Share<$dr>; N] = std::array::from_fn(|_| Share::new(ones, ones));
                    dst.transpose_from(arr).unwrap_infallible();
                    dst
                })?
                else {
                    return Ok(format!("{cl}/{cr}"));
                };
                cmp_t(env, name, "left", &l, &dst.iter().map(|s| ba_bits(&s.left())).collect(), cl)?;
                cmp_t(env, name, "right", &r, &dst.iter().map(|s| ba_bits(&s.right())).collect(), cr)?;
                // shim: &BitDecomposed -> Vec, with length check
                let bd = BitDecomposed::new(rows.clone());
                let mut v: Vec<Share<$dr>> = vec![Share::new(ones, ones); src.urange(0, 3)];
                match guard(env, name, || v.transpose_from(&bd))? {
                    Some(Ok(())) if v[..] == dst[..] => {}
                    Some(Ok(())) => known_or_violation(env, &format!("transpose:{name}"), format!("{name}: Vec destination (shim) differs from the array destination"), json!({"class": cl}))?,
                    Some(Err(e)) => known_or_violation(env, &format!("transpose:{name}"), format!("{name}: shim rejects a source of the right length: {e:?}"), json!({}))?,
                    None => {}
                }
                let wrong = if src.bool() { M - 1 } else { (M + 1).min(256) };
                if wrong != M {
                    let mut bad = rows.clone();
                    bad.resize(wrong, Share::<Boolean, N>::ZERO);
                    let bd = BitDecomposed::new(bad);
                    let mut v: Vec<Share<$dr>> = vec![];
                    if let Some(Ok(())) = guard(env, name, || v.transpose_from(&bd))? {
                        known_or_violation(env, &format!("transpose-length:{name}"), format!("{name}: a source of {wrong} rows (expected {M}) is accepted"), json!({}))?;
                    }
                }
                Ok(format!("{cl}/{cr}"))
            }
        };
    }

    // [AdditiveShare<Boolean, M>; N] <- &[AdditiveShare<BA_N>; M]   (16x16 kernel)
    macro_rules! t_ba_to_bool {
        ($f:ident, $sr:ty, $m:expr, $n:expr) => {
            pub fn $f(env: &Env, src: &mut Src<'_>) -> Result<String, CaseErr> {
                const M: usize = $m;
                const N: usize = $n;
                let name = concat!("ba_to_bool<", stringify!($sr), ",", stringify!($m), "x", stringify!($n), ">");
                let (l, cl) = gen_matrix(src, M, N);
                let (r, cr) = gen_matrix(src, M, N);
                let rows: Vec<Share<$sr>> = (0..M).map(|i| Share::new(ba_from(&l[i]), ba_from(&r[i]))).collect();
                let arr: &[Share<$sr>; M] = rows.as_slice().try_into().unwrap();
                let ones: <Boolean as Vectorizable<M>>::Array = ba_from(&vec![true; M]);
                let Some(dst) = guard(env, name, || {
                    let mut dst: [Share<Boolean, M>; N] = std::array::from_fn(|_| Share::new_arr(ones, ones));
                    dst.transpose_from(arr).unwrap_infallible();
                    dst
                })?
                else {
                    return Ok(format!("{cl}/{cr}"));
                };
                cmp_t(env, name, "left", &l, &dst.iter().map(|s| ba_bits(s.left_arr())).collect(), cl)?;
                cmp_t(env, name, "right", &r, &dst.iter().map(|s| ba_bits(s.right_arr())).collect(), cr)?;
                let mut bd = BitDecomposed::new(vec![Share::<Boolean, M>::new_arr(ones, ones); src.urange(0, 3)]);
                if guard(env, name, || bd.transpose_from(arr).unwrap_infallible())?.is_some() && bd[..] != dst[..] {
                    known_or_violation(env, &format!("transpose:{name}"), format!("{name}: BitDecomposed destination (shim) differs from the array destination"), json!({"class": cl}))?;
                }
                Ok(format!("{cl}/{cr}"))
            }
        };
    }

    // same through `&dyn Fn(usize) -> AdditiveShare<BA_N>`
    macro_rules! t_ba_fn_to_bool {
        ($f:ident, $sr:ty, $m:expr, $n:expr) => {
            pub fn $f(env: &Env, src: &mut Src<'_>) -> Result<String, CaseErr> {
                const M: usize = $m;
                const N: usize = $n;
                let name = concat!("ba_fn_to_bool<", stringify!($sr), ",", stringify!($m), "x", stringify!($n), ">");
                let (l, cl) = gen_matrix(src, M, N);
                let (r, cr) = gen_matrix(src, M, N);
                let rows: Vec<Share<$sr>> = (0..M).map(|i| Share::new(ba_from(&l[i]), ba_from(&r[i]))).collect();
                let f = |i: usize| rows[i].clone();
                let fr: &dyn Fn(usize) -> Share<$sr> = &f;
                let ones: <Boolean as Vectorizable<M>>::Array = ba_from(&vec![true; M]);
                let Some(dst) = guard(env, name, || {
                    let mut dst: [Share<Boolean, M>; N] = std::array::from_fn(|_| Share::new_arr(ones, ones));
                    dst.transpose_from(fr).unwrap_infallible();
                    dst
                })?
                else {
                    return Ok(format!("{cl}/{cr}"));
                };
                cmp_t(env, name, "left", &l, &dst.iter().map(|s| ba_bits(s.left_arr())).collect(), cl)?;
                cmp_t(env, name, "right", &r, &dst.iter().map(|s| ba_bits(s.right_arr())).collect(), cr)?;
                let mut bd = BitDecomposed::new(vec![Share::<Boolean, M>::new_arr(ones, ones); src.urange(0, 3)]);
                if guard(env, name, || bd.transpose_from(fr).unwrap_infallible())?.is_some() && bd[..] != dst[..] {
                    known_or_violation(env, &format!("transpose:{name}"), format!("{name}: BitDecomposed destination (shim) differs from the array destination"), json!({"class": cl}))?;
                }
                Ok(format!("{cl}/{cr}"))
            }
        };
    }

    // BitDecomposed<AdditiveShare<Boolean, M>> (N rows) <- &[AdditiveShare<BA_N>; M] / &Vec<..>   (8x8 kernel, padded)
    macro_rules! t_ba_to_bool_small {
        ($f:ident, $sr:ty, $m:expr, $n:expr, $pad:expr) => {
            pub fn $f(env: &Env, src: &mut Src<'_>) -> Result<String, CaseErr> {
                const M: usize = $m;
                const N: usize = $n;
                const PAD: usize = $pad;
                let name = concat!("ba_to_bool_small<", stringify!($sr), ",", stringify!($m), "x", stringify!($n), ">");
                let (l, cl) = gen_matrix(src, M, N);
                let (r, cr) = gen_matrix(src, M, N);
                let rows: Vec<Share<$sr>> = (0..M).map(|i| Share::new(ba_from(&l[i]), ba_from(&r[i]))).collect();
                let arr: &[Share<$sr>; M] = rows.as_slice().try_into().unwrap();
                let ones: <Boolean as Vectorizable<M>>::Array = ba_from(&vec![true; M]);
                // array level: destination has the padded number of rows
                let Some(dst) = guard(env, name, || {
                    let mut dst: [Share<Boolean, M>; PAD] = std::array::from_fn(|_| Share::new_arr(ones, ones));
                    dst.transpose_from(arr).unwrap_infallible();
                    dst
                })?
                else {
                    return Ok(format!("{cl}/{cr}"));
                };
                cmp_t(env, name, "left", &l, &dst.iter().map(|s| ba_bits(s.left_arr())).collect(), cl)?;
                cmp_t(env, name, "right", &r, &dst.iter().map(|s| ba_bits(s.right_arr())).collect(), cr)?;
                // shims: result has exactly N rows
                let mut bd = BitDecomposed::new(vec![Share::<Boolean, M>::new_arr(ones, ones); src.urange(0, 3)]);
                if guard(env, name, || bd.transpose_from(arr).unwrap_infallible())?.is_some() && (bd.len() != N || bd[..] != dst[..N]) {
                    known_or_violation(env, &format!("transpose:{name}"), format!("{name}: BitDecomposed destination from the array source has {} rows or differs", bd.len()), json!({"class": cl}))?;
                }
                let mut bd2 = BitDecomposed::new(vec![Share::<Boolean, M>::new_arr(ones, ones); src.urange(0, 3)]);
                match guard(env, name, || bd2.transpose_from(&rows))? {
                    Some(Ok(())) if bd2.len() == N && bd2[..] == dst[..N] => {}
                    Some(Ok(())) => known_or_violation(env, &format!("transpose:{name}"), format!("{name}: BitDecomposed destination from the Vec source has {} rows or differs", bd2.len()), json!({"class": cl}))?,
                    Some(Err(e)) => known_or_violation(env, &format!("transpose:{name}"), format!("{name}: Vec source of the right length is rejected: {e:?}"), json!({}))?,
                    None => {}
                }
                let mut bad = rows.clone();
                if src.bool() {
                    bad.pop();
                } else {
                    bad.push(Share::<$sr>::ZERO);
                }
                let mut bd3: BitDecomposed<Share<Boolean, M>> = BitDecomposed::new(vec![]);
                if let Some(Ok(())) = guard(env, name, || bd3.transpose_from(&bad))? {
                    known_or_violation(env, &format!("transpose-length:{name}"), format!("{name}: a Vec source of {} rows (expected {M}) is accepted", bad.len()), json!({}))?;
                }
                Ok(format!("{cl}/{cr}"))
            }
        };
    }

    // Vec<BitDecomposed<AdditiveShare<Boolean, M>>> (N entries) <- &[BitDecomposed<AdditiveShare<Boolean, N>>] (M entries)
    macro_rules! t_aggregation {
        ($f:ident, $m:expr, $n:expr) => {
            pub fn $f(env: &Env, src: &mut Src<'_>) -> Result<String, CaseErr> {
                const M: usize = $m;
                const N: usize = $n;
                let name = concat!("aggregation<", stringify!($m), "x", stringify!($n), ">");
                let bits = src.urange(1, 3);
                let mut mats = vec![];
                let mut classes = vec![];
                for _ in 0..bits {
                    let (l, cl) = gen_matrix(src, M, N);
                    let (r, _) = gen_matrix(src, M, N);
                    classes.push(cl);
                    mats.push((l, r));
                }
                let input: Vec<BitDecomposed<Share<Boolean, N>>> = (0..M)
                    .map(|i| BitDecomposed::new((0..bits).map(|b| Share::<Boolean, N>::new_arr(ba_from(&mats[b].0[i]), ba_from(&mats[b].1[i])))))
                    .collect();
                let Some(out) = guard(env, name, || {
                    let mut out: Vec<BitDecomposed<Share<Boolean, M>>> = vec![];
                    out.transpose_from(&input[..]).unwrap_infallible();
                    out
                })?
                else {
                    return Ok(classes.join("+"));
                };
                if out.len() != N || out.iter().any(|e| e.len() != bits) {
                    known_or_violation(env, &format!("transpose:{name}"), format!("{name}: output has {} entries (expected {N}) or the wrong number of bits per entry", out.len()), json!({}))?;
                    return Ok(classes.join("+"));
                }
                for b in 0..bits {
                    cmp_t(env, name, "left", &mats[b].0, &out.iter().map(|e| ba_bits(e[b].left_arr())).collect(), classes[b])?;
                    cmp_t(env, name, "right", &mats[b].1, &out.iter().map(|e| ba_bits(e[b].right_arr())).collect(), classes[b])?;
                }
                Ok(classes.join("+"))
            }
        };
    }

    // ba -> bool -> ba restores the input (both impls exist)
    macro_rules! t_inverse {
        ($f:ident, $ba:ty, $m:expr, $n:expr) => {
            pub fn $f(env: &Env, src: &mut Src<'_>) -> Result<String, CaseErr> {
                const M: usize = $m;
                const N: usize = $n;
                let name = concat!("inverse<", stringify!($ba), ",", stringify!($m), "x", stringify!($n), ">");
                let (l, cl) = gen_matrix(src, M, N);
                let (r, cr) = gen_matrix(src, M, N);
                let rows: Vec<Share<$ba>> = (0..M).map(|i| Share::new(ba_from(&l[i]), ba_from(&r[i]))).collect();
                let arr: &[Share<$ba>; M] = rows.as_slice().try_into().unwrap();
                let Some(back) = guard(env, name, || {
                    let mut bd: BitDecomposed<Share<Boolean, M>> = BitDecomposed::new(vec![]);
                    bd.transpose_from(arr).unwrap_infallible();
                    let mut back: Vec<Share<$ba>> = vec![];
                    back.transpose_from(&bd).map(|()| back)
                })?
                else {
                    return Ok(format!("{cl}/{cr}"));
                };
                match back {
                    Ok(b) if b == rows => {}
                    Ok(_) => known_or_violation(env, &format!("transpose-inverse:{name}"), format!("{name}: rows -> bit-decomposed -> rows does not restore the input (classes {cl}/{cr})"), json!({}))?,
                    Err(e) => known_or_violation(env, &format!("transpose-inverse:{name}"), format!("{name}: the inverse transpose rejects the output of the forward transpose: {e:?}"), json!({}))?,
                }
                Ok(format!("{cl}/{cr}"))
            }
        };
    }

    t_ba_to_ba!(ba_ba_64, BA64, 64);
    t_ba_to_ba!(ba_ba_256, BA256, 256);
    t_bool_to_ba!(b2a_256x256, BA256, 256, 256);
    t_bool_to_ba!(b2a_8x256, BA8, 8, 256);
    t_bool_to_ba!(b2a_16x256, BA16, 16, 256);
    t_bool_to_ba!(b2a_16x32, BA16, 16, 32);
    t_bool_to_ba!(b2a_32x256, BA32, 32, 256);
    t_bool_to_ba!(b2a_8x32, BA8, 8, 32);
    t_bool_to_ba!(b2a_32x32, BA32, 32, 32);
    t_bool_to_ba!(b2a_8x8, BA8, 8, 8);
    t_bool_to_ba!(b2a_16x16, BA16, 16, 16);
    t_bool_to_ba!(b2a_8x16, BA8, 8, 16);
    t_ba_to_bool!(a2b_256x64, BA64, 256, 64);
    t_ba_to_bool!(a2b_32x32, BA32, 32, 32);
    t_ba_to_bool!(a2b_32x16, BA16, 32, 16);
    t_ba_fn_to_bool!(afn2b_256x64, BA64, 256, 64);
    t_ba_to_bool_small!(a2bs_256x32, BA32, 256, 32, 32);
    t_ba_to_bool_small!(a2bs_256x16, BA16, 256, 16, 16);
    t_ba_to_bool_small!(a2bs_256x8, BA8, 256, 8, 8);
    t_ba_to_bool_small!(a2bs_256x5, BA5, 256, 5, 8);
    t_ba_to_bool_small!(a2bs_256x3, BA3, 256, 3, 8);
    t_ba_to_bool_small!(a2bs_32x8, BA8, 32, 8, 8);
    t_ba_to_bool_small!(a2bs_32x3, BA3, 32, 3, 8);
    t_ba_to_bool_small!(a2bs_16x8, BA8, 16, 8, 8);
    t_aggregation!(agg_256x256, 256, 256);
    t_aggregation!(agg_32x256, 32, 256);
    t_inverse!(inv_32x32, BA32, 32, 32);
    t_inverse!(inv_32x16, BA16, 32, 16);
    t_inverse!(inv_16x8, BA8, 16, 8);
    t_inverse!(inv_32x8, BA8, 32, 8);
    t_inverse!(inv_256x8, BA8, 256, 8);
    t_inverse!(inv_256x16, BA16, 256, 16);
    t_inverse!(inv_256x32, BA32, 256, 32);

    pub const CASES: [(&str, Case); 33] = [
        ("ba_to_ba 64x64", ba_ba_64),
        ("ba_to_ba 256x256", ba_ba_256),
        ("bool_to_ba 256x256", b2a_256x256),
        ("bool_to_ba 8x256", b2a_8x256),
        ("bool_to_ba 16x256", b2a_16x256),
        ("bool_to_ba 16x32", b2a_16x32),
        ("bool_to_ba 32x256", b2a_32x256),
        ("bool_to_ba 8x32", b2a_8x32),
        ("bool_to_ba 32x32", b2a_32x32),
        ("bool_to_ba 8x8", b2a_8x8),
        ("bool_to_ba 16x16", b2a_16x16),
        ("bool_to_ba 8x16", b2a_8x16),
        ("ba_to_bool 256x64", a2b_256x64),
        ("ba_to_bool 32x32", a2b_32x32),
        ("ba_to_bool 32x16", a2b_32x16),
        ("ba_fn_to_bool 256x64", afn2b_256x64),
        ("ba_to_bool_small 256x32", a2bs_256x32),
        ("ba_to_bool_small 256x16", a2bs_256x16),
        ("ba_to_bool_small 256x8", a2bs_256x8),
        ("ba_to_bool_small 256x5", a2bs_256x5),
        ("ba_to_bool_small 256x3", a2bs_256x3),
        ("ba_to_bool_small 32x8", a2bs_32x8),
        ("ba_to_bool_small 32x3", a2bs_32x3),
        ("ba_to_bool_small 16x8", a2bs_16x8),
        ("aggregation 256x256", agg_256x256),
        ("aggregation 32x256", agg_32x256),
        ("inverse 32x32", inv_32x32),
        ("inverse 32x16", inv_32x16),
        ("inverse 16x8", inv_16x8),
        ("inverse 32x8", inv_32x8),
        ("inverse 256x8", inv_256x8),
        ("inverse 256x16", inv_256x16),
        ("inverse 256x32", inv_256x32),
    ];

}

fn transposes(env: &Env, src: &mut Src<'_>) -> CaseResult {
    let k = src.idx(tr::CASES.len());
    let (name, class) = (tr::CASES[k].0, (tr::CASES[k].1)(env, src)?);
    Ok(CaseOk::new(!class.starts_with("zero/zero"), &(k, src.used(), src.raw(), src.raw()), json!({"impl": name, "source_class": class})).label(format!("impl:{name}")).label(format!("class:{}", class.split(['/', '+']).next().unwrap_or(""))))
}

// ------------------------------------------------------------------------------------------
// sub-check: field packing (join_fields/split_fields through Shuffleable, BooleanArrayWriter/Reader)
// ------------------------------------------------------------------------------------------

mod pack {
    use super::{tr::{ba_bits, ba_from}, *};
    use crate::{
        ff::boolean_array::{BooleanArrayReader, BooleanArrayWriter},
        protocol::ipa_prf::shuffle::Shuffleable,
        report::hybrid::IndistinguishableHybridReport,
    };

    pub fn gen_bits(src: &mut Src<'_>, n: usize) -> Vec<bool> {
        match src.below(5) {
            0 => vec![false; n],
            1 => vec![true; n],
            2 => {
                let mut v = vec![false; n];
                let i = if src.bool() { n - 1 } else { src.idx(n) };
                v[i] = true;
                v
            }
            _ => {
                let mut rng = StdRng::seed_from_u64(src.seed());
                (0..n).map(|_| rng.r#gen()).collect()
            }
        }
    }

    fn fail(env: &Env, name: &str, msg: String) -> Result<(), CaseErr> {
        known_or_violation(env, &format!("packing:{name}"), format!("{name}: {msg}"), json!({}))
    }

    /// report with match key packed into one shuffle share (the layout is not part of the oracle)
    pub fn full<BK: BooleanArray, V: BooleanArray>(env: &Env, src: &mut Src<'_>, name: &str) -> Result<(), CaseErr> {
        type R<BK, V> = IndistinguishableHybridReport<BK, V>;
        let (nb, nv) = (BK::BITS as usize, V::BITS as usize);
        let total = <<R<BK, V> as Shuffleable>::Share as SharedValue>::BITS as usize;
        let bits: [[Vec<bool>; 3]; 2] = std::array::from_fn(|_| [gen_bits(src, 64), gen_bits(src, nv), gen_bits(src, nb)]);
        let report = R::<BK, V> {
            match_key: ReplicatedSecretSharing::new(ba_from::<BA64>(&bits[0][0]), ba_from(&bits[1][0])),
            value: ReplicatedSecretSharing::new(ba_from::<V>(&bits[0][1]), ba_from(&bits[1][1])),
            breakdown_key: ReplicatedSecretSharing::new(ba_from::<BK>(&bits[0][2]), ba_from(&bits[1][2])),
        };
        let joined = [Shuffleable::left(&report), Shuffleable::right(&report)];
        // (1) lossless: splitting the joined shares gives the report back
        let back = <R<BK, V> as Shuffleable>::new(joined[0], joined[1]);
        if back != report {
            fail(env, name, format!("split(join(report)) = {back:?} differs from {report:?}"))?;
        }
        // Which bit of the share holds which field bit is the code's own choice: the oracle does
        // not fix a layout. What the shuffle relies on besides (1) is that both directions are
        // GF(2)-linear (shares are masked and unmasked with XOR around them).
        // (2) join is linear
        let bits2: [[Vec<bool>; 3]; 2] = std::array::from_fn(|_| [gen_bits(src, 64), gen_bits(src, nv), gen_bits(src, nb)]);
        let xor = |a: &Vec<bool>, b: &Vec<bool>| a.iter().zip(b).map(|(x, y)| x ^ y).collect::<Vec<bool>>();
        let mk_report = |b: &[[Vec<bool>; 3]; 2]| R::<BK, V> {
            match_key: ReplicatedSecretSharing::new(ba_from::<BA64>(&b[0][0]), ba_from(&b[1][0])),
            value: ReplicatedSecretSharing::new(ba_from::<V>(&b[0][1]), ba_from(&b[1][1])),
            breakdown_key: ReplicatedSecretSharing::new(ba_from::<BK>(&b[0][2]), ba_from(&b[1][2])),
        };
        let report2 = mk_report(&bits2);
        let bits12: [[Vec<bool>; 3]; 2] = std::array::from_fn(|s| std::array::from_fn(|f| xor(&bits[s][f], &bits2[s][f])));
        let report12 = mk_report(&bits12);
        let (j2, j12) = ([Shuffleable::left(&report2), Shuffleable::right(&report2)], [Shuffleable::left(&report12), Shuffleable::right(&report12)]);
        for side in 0..2 {
            if xor(&ba_bits(&joined[side]), &ba_bits(&j2[side])) != ba_bits(&j12[side]) {
                fail(env, name, format!("join is not linear: join(a) ^ join(b) != join(a ^ b) ({} side)", ["left", "right"][side]))?;
            }
        }
        // (3) split is linear on arbitrary share bits, and join(split(.)) is a projection
        let raw = [gen_bits(src, total), gen_bits(src, total)];
        let raw2 = [gen_bits(src, total), gen_bits(src, total)];
        let fields = |r: &R<BK, V>| -> Vec<Vec<bool>> {
            vec![
                ba_bits(&ReplicatedSecretSharing::left(&r.match_key)), ba_bits(&ReplicatedSecretSharing::right(&r.match_key)),
                ba_bits(&ReplicatedSecretSharing::left(&r.value)), ba_bits(&ReplicatedSecretSharing::right(&r.value)),
                ba_bits(&ReplicatedSecretSharing::left(&r.breakdown_key)), ba_bits(&ReplicatedSecretSharing::right(&r.breakdown_key)),
            ]
        };
        let ra = <R<BK, V> as Shuffleable>::new(ba_from(&raw[0]), ba_from(&raw[1]));
        let rb = <R<BK, V> as Shuffleable>::new(ba_from(&raw2[0]), ba_from(&raw2[1]));
        let rab = <R<BK, V> as Shuffleable>::new(ba_from(&xor(&raw[0], &raw2[0])), ba_from(&xor(&raw[1], &raw2[1])));
        let (fa, fb, fab) = (fields(&ra), fields(&rb), fields(&rab));
        for k in 0..fa.len() {
            if xor(&fa[k], &fb[k]) != fab[k] {
                fail(env, name, "split is not linear: split(s) ^ split(t) != split(s ^ t)".to_string())?;
            }
        }
        let again = <R<BK, V> as Shuffleable>::new(Shuffleable::left(&ra), Shuffleable::right(&ra));
        if again != ra {
            fail(env, name, "split(join(split(share))) differs from split(share)".to_string())?;
        }
        Ok(())
    }

    /// report without match key packed into one shuffle share
    pub fn agg<BK: BooleanArray, V: BooleanArray>(env: &Env, src: &mut Src<'_>, name: &str) -> Result<(), CaseErr> {
        type R<BK, V> = IndistinguishableHybridReport<BK, V, ()>;
        let (nb, nv) = (BK::BITS as usize, V::BITS as usize);
        let total = <<R<BK, V> as Shuffleable>::Share as SharedValue>::BITS as usize;
        let bits: [[Vec<bool>; 2]; 2] = std::array::from_fn(|_| [gen_bits(src, nv), gen_bits(src, nb)]);
        let report = R::<BK, V> {
            match_key: (),
            value: ReplicatedSecretSharing::new(ba_from::<V>(&bits[0][0]), ba_from(&bits[1][0])),
            breakdown_key: ReplicatedSecretSharing::new(ba_from::<BK>(&bits[0][1]), ba_from(&bits[1][1])),
        };
        let joined = [Shuffleable::left(&report), Shuffleable::right(&report)];
        let back = <R<BK, V> as Shuffleable>::new(joined[0], joined[1]);
        if back != report {
            fail(env, name, format!("split(join(report)) = {back:?} differs from {report:?}"))?;
        }
        // layout-agnostic, see `full`: linearity of both directions and the projection property
        let xor = |a: &Vec<bool>, b: &Vec<bool>| a.iter().zip(b).map(|(x, y)| x ^ y).collect::<Vec<bool>>();
        let bits2: [[Vec<bool>; 2]; 2] = std::array::from_fn(|_| [gen_bits(src, nv), gen_bits(src, nb)]);
        let mk_report = |b: &[[Vec<bool>; 2]; 2]| R::<BK, V> {
            match_key: (),
            value: ReplicatedSecretSharing::new(ba_from::<V>(&b[0][0]), ba_from(&b[1][0])),
            breakdown_key: ReplicatedSecretSharing::new(ba_from::<BK>(&b[0][1]), ba_from(&b[1][1])),
        };
        let report2 = mk_report(&bits2);
        let bits12: [[Vec<bool>; 2]; 2] = std::array::from_fn(|s| std::array::from_fn(|f| xor(&bits[s][f], &bits2[s][f])));
        let report12 = mk_report(&bits12);
        let (j2, j12) = ([Shuffleable::left(&report2), Shuffleable::right(&report2)], [Shuffleable::left(&report12), Shuffleable::right(&report12)]);
        for side in 0..2 {
            if xor(&ba_bits(&joined[side]), &ba_bits(&j2[side])) != ba_bits(&j12[side]) {
                fail(env, name, format!("join is not linear: join(a) ^ join(b) != join(a ^ b) ({} side)", ["left", "right"][side]))?;
            }
        }
        let raw = [gen_bits(src, total), gen_bits(src, total)];
        let raw2 = [gen_bits(src, total), gen_bits(src, total)];
        let fields = |r: &R<BK, V>| -> Vec<Vec<bool>> {
            vec![
                ba_bits(&ReplicatedSecretSharing::left(&r.value)), ba_bits(&ReplicatedSecretSharing::right(&r.value)),
                ba_bits(&ReplicatedSecretSharing::left(&r.breakdown_key)), ba_bits(&ReplicatedSecretSharing::right(&r.breakdown_key)),
            ]
        };
        let ra = <R<BK, V> as Shuffleable>::new(ba_from(&raw[0]), ba_from(&raw[1]));
        let rb = <R<BK, V> as Shuffleable>::new(ba_from(&raw2[0]), ba_from(&raw2[1]));
        let rab = <R<BK, V> as Shuffleable>::new(ba_from(&xor(&raw[0], &raw2[0])), ba_from(&xor(&raw[1], &raw2[1])));
        let (fa, fb, fab) = (fields(&ra), fields(&rb), fields(&rab));
        for k in 0..fa.len() {
            if xor(&fa[k], &fb[k]) != fab[k] {
                fail(env, name, "split is not linear: split(s) ^ split(t) != split(s ^ t)".to_string())?;
            }
        }
        let again = <R<BK, V> as Shuffleable>::new(Shuffleable::left(&ra), Shuffleable::right(&ra));
        if again != ra {
            fail(env, name, "split(join(split(share))) differs from split(share)".to_string())?;
        }
        Ok(())
    }

    #[derive(Debug, Clone)]
    enum Item {
        B(bool),
        A3(Vec<bool>),
        A5(Vec<bool>),
        A8(Vec<bool>),
        A16(Vec<bool>),
        A20(Vec<bool>),
        A32(Vec<bool>),
        A64(Vec<bool>),
    }

    /// writer then reader over one container
    pub fn writer_reader<C: BooleanArray>(env: &Env, src: &mut Src<'_>, name: &str) -> Result<usize, CaseErr> {
        let cap = C::BITS as usize;
        let mut items = vec![];
        let mut used = 0;
        loop {
            let (w, k) = [(1usize, 0u8), (3, 1), (5, 2), (8, 3), (16, 4), (20, 5), (32, 6), (64, 7)][src.idx(8)];
            if used + w > cap || items.len() >= 12 {
                break;
            }
            let bits = gen_bits(src, w);
            items.push(match k {
                0 => Item::B(bits[0]),
                1 => Item::A3(bits),
                2 => Item::A5(bits),
                3 => Item::A8(bits),
                4 => Item::A16(bits),
                5 => Item::A20(bits),
                6 => Item::A32(bits),
                _ => Item::A64(bits),
            });
            used += w;
        }
        // container pre-filled with ones beyond what is written: the writer must not touch it
        let mut c: C = ba_from(&vec![true; cap]);
        let mut want = vec![];
        {
            let mut w = BooleanArrayWriter::new(&mut c);
            for it in &items {
                w = match it {
                    Item::B(b) => {
                        want.push(*b);
                        w.write_boolean(Boolean::from(*b))
                    }
                    Item::A3(v) => {
                        want.extend(v);
                        w.write(&ba_from::<BA3>(v))
                    }
                    Item::A5(v) => {
                        want.extend(v);
                        w.write(&ba_from::<BA5>(v))
                    }
                    Item::A8(v) => {
                        want.extend(v);
                        w.write(&ba_from::<BA8>(v))
                    }
                    Item::A16(v) => {
                        want.extend(v);
                        w.write(&ba_from::<BA16>(v))
                    }
                    Item::A20(v) => {
                        want.extend(v);
                        w.write(&ba_from::<BA20>(v))
                    }
                    Item::A32(v) => {
                        want.extend(v);
                        w.write(&ba_from::<BA32>(v))
                    }
                    Item::A64(v) => {
                        want.extend(v);
                        w.write(&ba_from::<BA64>(v))
                    }
                };
            }
        }
        want.resize(cap, true);
        if ba_bits(&c) != want {
            fail(env, name, format!("BooleanArrayWriter: container bits differ from the concatenation of the written items {items:?}"))?;
        }
        let mut r = BooleanArrayReader::new(&c);
        for (i, it) in items.iter().enumerate() {
            let ok;
            (ok, r) = match it {
                Item::B(b) => {
                    let (x, r) = r.read_boolean();
                    (bool::from(x) == *b, r)
                }
                Item::A3(v) => {
                    let (x, r) = r.read::<BA3>();
                    (&ba_bits(&x) == v, r)
                }
                Item::A5(v) => {
                    let (x, r) = r.read::<BA5>();
                    (&ba_bits(&x) == v, r)
                }
                Item::A8(v) => {
                    let (x, r) = r.read::<BA8>();
                    (&ba_bits(&x) == v, r)
                }
                Item::A16(v) => {
                    let (x, r) = r.read::<BA16>();
                    (&ba_bits(&x) == v, r)
                }
                Item::A20(v) => {
                    let (x, r) = r.read::<BA20>();
                    (&ba_bits(&x) == v, r)
                }
                Item::A32(v) => {
                    let (x, r) = r.read::<BA32>();
                    (&ba_bits(&x) == v, r)
                }
                Item::A64(v) => {
                    let (x, r) = r.read::<BA64>();
                    (&ba_bits(&x) == v, r)
                }
            };
            if !ok {
                fail(env, name, format!("BooleanArrayReader: item {i} read back differs from what was written ({items:?})"))?;
            }
        }
        Ok(items.len())
    }
}

fn packing(env: &Env, src: &mut Src<'_>) -> CaseResult {
    let k = src.idx(18);
    let name = [
        "join/split<BK=BA8,V=BA3>", "join/split<BK=BA5,V=BA3>", "join/split<BK=BA8,V=BA8>", "join/split<BK=BA32,V=BA16>", "join/split<BK=BA3,V=BA3>",
        "join/split<BK=BA20,V=BA20>", "join/split<BK=BA16,V=BA32>", "join/split-agg<BK=BA8,V=BA3>", "join/split-agg<BK=BA8,V=BA8>", "join/split-agg<BK=BA16,V=BA16>",
        "join/split-agg<BK=BA5,V=BA8>", "join/split-agg<BK=BA8,V=BA16>", "join/split-agg<BK=BA20,V=BA8>", "join/split-agg<BK=BA8,V=BA32>x", "writer/reader<BA32>",
        "writer/reader<BA112>", "writer/reader<BA256>", "writer/reader<BA20>",
    ][k];
    let r = catch(|| match k {
        0 => pack::full::<BA8, BA3>(env, src, name).map(|()| 0),
        1 => pack::full::<BA5, BA3>(env, src, name).map(|()| 0),
        2 => pack::full::<BA8, BA8>(env, src, name).map(|()| 0),
        3 => pack::full::<BA32, BA16>(env, src, name).map(|()| 0),
        4 => pack::full::<BA3, BA3>(env, src, name).map(|()| 0),
        5 => pack::full::<BA20, BA20>(env, src, name).map(|()| 0),
        6 => pack::full::<BA16, BA32>(env, src, name).map(|()| 0),
        7 => pack::agg::<BA8, BA3>(env, src, name).map(|()| 0),
        8 => pack::agg::<BA8, BA8>(env, src, name).map(|()| 0),
        9 => pack::agg::<BA16, BA16>(env, src, name).map(|()| 0),
        10 => pack::agg::<BA5, BA8>(env, src, name).map(|()| 0),
        11 => pack::agg::<BA8, BA16>(env, src, name).map(|()| 0),
        12 => pack::agg::<BA20, BA8>(env, src, name).map(|()| 0),
        13 => pack::agg::<BA16, BA8>(env, src, name).map(|()| 0),
        14 => pack::writer_reader::<BA32>(env, src, name),
        15 => pack::writer_reader::<BA112>(env, src, name),
        16 => pack::writer_reader::<BA256>(env, src, name),
        _ => pack::writer_reader::<BA20>(env, src, name),
    });
    let n = match r {
        Ok(r) => r?,
        Err((l, m)) => {
            known_or_violation(env, &format!("packing-panic:{name}"), format!("{name} panics at {l}: {m}"), json!({}))?;
            0
        }
    };
    Ok(CaseOk::new(true, &(k, src.used(), src.raw(), src.raw()), json!({"combination": name, "items": n})).label(name))
}

// ------------------------------------------------------------------------------------------
// sub-check: query configuration through serde_json
// ------------------------------------------------------------------------------------------

mod cfg {
    use super::*;
    pub use crate::{
        ff::FieldType,
        helpers::{
            HelperIdentity, RoleAssignment,
            query::{HybridQueryParams, PrepareQuery, QueryConfig, QuerySize, QueryType},
        },
        protocol::QueryId,
    };

    pub fn gen_eps(src: &mut Src<'_>) -> (f64, &'static str) {
        // epsilon is a privacy parameter: finite values only (serde_json has no encoding for NaN/inf)
        match src.below(12) {
            0 => (0.0, "0"),
            1 => (-0.0, "-0"),
            2 => (f64::from_bits(1), "subnormal-min"),
            3 => (f64::MIN_POSITIVE, "min-positive"),
            4 => (f64::MAX, "max"),
            5 => (-f64::MAX, "-max"),
            6 => (5.0, "5"),
            7 => (0.1, "0.1"),
            8 => (1.0 / 3.0, "1/3"),
            9 => (1e-7, "1e-7"),
            10 => (123_456_789.123_456_79, "decimal"),
            _ => {
                let mut v = f64::from_bits(src.u64());
                if !v.is_finite() {
                    v = 1.5;
                }
                (v, "random-bits")
            }
        }
    }

    pub fn eps_bits(c: &QueryConfig) -> u64 {
        match c.query_type {
            QueryType::MaliciousHybrid(p) => p.epsilon.to_bits(),
            _ => 0,
        }
    }

    pub fn gen_u32(src: &mut Src<'_>) -> u32 {
        match src.below(6) {
            0 => 0,
            1 => 1,
            2 => u32::MAX,
            3 => 256,
            _ => src.raw(),
        }
    }

    pub fn gen_config(src: &mut Src<'_>) -> (QueryConfig, Vec<String>) {
        let (size, sl) = match src.below(6) {
            0 => (1u32, "1"),
            1 => (QuerySize::MAX, "max"),
            2 => (QuerySize::MAX - 1, "max-1"),
            3 => (2, "2"),
            _ => (src.range(1, u64::from(QuerySize::MAX)) as u32, "random"),
        };
        let field_type = if src.bool() { FieldType::Fp32BitPrime } else { FieldType::Fp31 };
        let mut labels = vec![format!("size:{sl}"), format!("field:{field_type:?}")];
        let query_type = match src.below(6) {
            0 => QueryType::TestMultiply,
            1 => QueryType::TestAddInPrimeField,
            2 => QueryType::TestShardedShuffle,
            _ => {
                let (epsilon, el) = gen_eps(src);
                labels.push(format!("epsilon:{el}"));
                let p = HybridQueryParams { max_breakdown_key: gen_u32(src), with_dp: gen_u32(src), epsilon, plaintext_match_keys: src.bool() };
                labels.push(format!("plaintext_match_keys:{}", p.plaintext_match_keys));
                QueryType::MaliciousHybrid(p)
            }
        };
        labels.push(format!("query:{}", query_type.as_ref()));
        (QueryConfig { size: QuerySize::try_from(size).expect("generated sizes are valid"), field_type, query_type }, labels)
    }

    /// equality with floats by bit pattern
    pub fn same_config(a: &QueryConfig, b: &QueryConfig) -> bool {
        a.size == b.size
            && a.field_type == b.field_type
            && match (a.query_type, b.query_type) {
                (QueryType::MaliciousHybrid(x), QueryType::MaliciousHybrid(y)) => {
                    x.max_breakdown_key == y.max_breakdown_key && x.with_dp == y.with_dp && x.epsilon.to_bits() == y.epsilon.to_bits() && x.plaintext_match_keys == y.plaintext_match_keys
                }
                (QueryType::TestMultiply, QueryType::TestMultiply)
                | (QueryType::TestAddInPrimeField, QueryType::TestAddInPrimeField)
                | (QueryType::TestShardedShuffle, QueryType::TestShardedShuffle) => true,
                _ => false,
            }
    }

    /// same except that epsilon is off by a few units in the last place (inexact float parsing)
    pub fn float_only(a: &QueryConfig, b: &QueryConfig) -> bool {
        match (a.query_type, b.query_type) {
            (QueryType::MaliciousHybrid(x), QueryType::MaliciousHybrid(mut y)) => {
                let d = x.epsilon.to_bits().abs_diff(y.epsilon.to_bits());
                y.epsilon = x.epsilon;
                d > 0 && d <= 4 && same_config(a, &QueryConfig { query_type: QueryType::MaliciousHybrid(y), ..*b })
            }
            _ => false,
        }
    }

    pub fn gen_roles(src: &mut Src<'_>) -> RoleAssignment {
        let ids = HelperIdentity::make_three();
        let p = src.perm(3);
        RoleAssignment::new([ids[p[0]], ids[p[1]], ids[p[2]]])
    }
}

fn query_config_json(env: &Env, src: &mut Src<'_>) -> CaseResult {
    use cfg::*;
    let (c, mut labels) = gen_config(src);
    let case = json!({"config": format!("{c:?}")});
    let fail = |kind: &str, msg: String| known_or_violation(env, &format!("{kind}:QueryConfig"), msg, case.clone());
    let s = serde_json::to_string(&c).map_err(|e| violation("json-encode:QueryConfig", e.to_string(), case.clone()))?;
    match serde_json::from_str::<QueryConfig>(&s) {
        Ok(back) if same_config(&back, &c) => {
            let s2 = serde_json::to_string(&back).unwrap();
            if s2 != s {
                fail("json-reencode-differs", format!("{s} decodes and re-encodes to {s2}"))?;
            }
        }
        Ok(back) if float_only(&c, &back) => known_or_violation(
            env,
            "float-roundtrip:epsilon",
            format!("epsilon does not survive serde_json: {c:?} -> {s} -> {back:?} (bits {:#x} -> {:#x})", eps_bits(&c), eps_bits(&back)),
            case.clone(),
        )?,
        Ok(back) => fail("json-roundtrip-differs", format!("{c:?} -> {s} -> {back:?}"))?,
        Err(e) => fail("json-roundtrip-rejected", format!("{c:?} -> {s} is rejected: {e}"))?,
    }
    // PrepareQuery (what the leader sends to its peers and shards)
    let pq = PrepareQuery { query_id: QueryId, config: c, roles: gen_roles(src) };
    let ps = serde_json::to_string(&pq).unwrap();
    match serde_json::from_str::<PrepareQuery>(&ps) {
        Ok(back) if same_config(&back.config, &c) && back.roles == pq.roles && serde_json::to_string(&back).unwrap() == ps => {}
        Ok(back) if float_only(&c, &back.config) && back.roles == pq.roles => {
            known_or_violation(env, "float-roundtrip:epsilon", format!("epsilon does not survive serde_json inside PrepareQuery: {ps} -> {back:?}"), case.clone())?;
        }
        other => known_or_violation(env, "json-roundtrip-differs:PrepareQuery", format!("{pq:?} -> {ps} -> {other:?}"), case.clone())?,
    }
    // out-of-range sizes must be rejected (QuerySize is documented as [1, 10^9])
    // (integers beyond 32 bits included: 2^32 + an in-range value must not be taken for that value)
    let in_range = src.range(1, u64::from(QuerySize::MAX));
    let (bad, bad_class) = match src.below(9) {
        0 => (0u64, "0"),
        1 => (u64::from(QuerySize::MAX) + 1, "max+1"),
        2 => (u64::from(u32::MAX), "u32::MAX"),
        3 => (src.range(u64::from(QuerySize::MAX) + 1, u64::from(u32::MAX)), "33-bit-range"),
        4 => (1u64 << 32, "2^32"),
        5 => ((1u64 << 32) + in_range, "2^32+in-range"),
        6 => ((src.range(1, (1 << 31) - 1) << 32) + in_range, "k*2^32+in-range"),
        7 => (u64::MAX, "u64::MAX"),
        _ => ((1u64 << 63) + in_range, "2^63+in-range"),
    };
    let mut v: Value = serde_json::from_str(&s).unwrap();
    v["size"] = json!(bad);
    if let Ok(cfg) = serde_json::from_value::<QueryConfig>(v.clone()) {
        known_or_violation(env, "noncanonical-accepted:QuerySize", format!("query size {bad} is accepted from JSON {v}: {cfg:?}"), case.clone())?;
    }
    if let Ok(cfg) = serde_json::from_str::<QueryConfig>(&v.to_string()) {
        known_or_violation(env, "noncanonical-accepted:QuerySize", format!("query size {bad} is accepted from the JSON text {v}: {cfg:?}"), case.clone())?;
    }
    // the same integers through the conversions the CLI and the HTTP layer use
    if let Ok(q) = QuerySize::try_from(bad as usize) {
        if bad as usize as u64 == bad {
            known_or_violation(env, "noncanonical-accepted:QuerySize", format!("QuerySize::try_from({bad}usize) is accepted: {q:?}"), case.clone())?;
        }
    }
    let neg = -((in_range & 0x3fff_ffff) as i64) - 1;
    v["size"] = json!(neg);
    if let Ok(cfg) = serde_json::from_value::<QueryConfig>(v.clone()) {
        known_or_violation(env, "noncanonical-accepted:QuerySize", format!("negative query size {neg} is accepted from JSON {v}: {cfg:?}"), case.clone())?;
    }
    if let Ok(q) = QuerySize::try_from(neg as i32) {
        known_or_violation(env, "noncanonical-accepted:QuerySize", format!("QuerySize::try_from({neg}i32) is accepted: {q:?}"), case.clone())?;
    }
    labels.push(format!("bad-size-rejected:{bad_class}"));
    // unknown helper identity in the role assignment
    let mut pv: Value = serde_json::from_str(&ps).unwrap();
    let badid = [0u64, 4, 255, 1 << 40][src.idx(4)];
    pv["roles"][src.idx(3)] = json!(badid);
    if let Ok(p) = serde_json::from_value::<PrepareQuery>(pv.clone()) {
        known_or_violation(env, "noncanonical-accepted:HelperIdentity", format!("helper identity {badid} is accepted from JSON {pv}: {p:?}"), case.clone())?;
    }
    Ok(CaseOk::new(true, &s, json!({"json": s, "prepare_query_json": ps})).labels(labels))
}

// ------------------------------------------------------------------------------------------
// sub-check: query configuration through the HTTP query string (client -> loopback -> server)
// ------------------------------------------------------------------------------------------

fn query_config_http(env: &Env, src: &mut Src<'_>) -> CaseResult {
    use cfg::*;
    use crate::{
        helpers::{HelperResponse, make_owned_handler, routing::RouteId},
        net::test::TestServer,
    };
    let n = 6;
    let mut configs = vec![];
    let mut labels = vec![];
    for _ in 0..n {
        let (c, l) = gen_config(src);
        configs.push(c);
        labels.extend(l);
    }
    let roles = gen_roles(src);
    let seen: Arc<std::sync::Mutex<Vec<(String, String)>>> = Arc::new(std::sync::Mutex::new(vec![]));
    let rt = tokio::runtime::Builder::new_multi_thread().worker_threads(2).enable_all().build().unwrap();
    let result = catch(|| rt.block_on(async {
        let seen2 = Arc::clone(&seen);
        let handler = make_owned_handler(move |addr: crate::helpers::routing::Addr<HelperIdentity>, _data| {
            let seen = Arc::clone(&seen2);
            async move {
                match addr.route {
                    RouteId::ReceiveQuery => {
                        let params = addr.params.clone();
                        let c = addr.into::<QueryConfig>()?;
                        seen.lock().unwrap().push(("create".into(), format!("{params}")));
                        Ok(HelperResponse::from(PrepareQuery { query_id: QueryId, config: c, roles: RoleAssignment::new(HelperIdentity::make_three()) }))
                    }
                    RouteId::PrepareQuery => {
                        seen.lock().unwrap().push(("prepare".into(), addr.params.clone()));
                        Ok(HelperResponse::ok())
                    }
                    _ => Ok(HelperResponse::ok()),
                }
            }
        });
        let b = TestServer::builder().disable_https();
        let server = b.with_request_handler(handler).build().await;
        let mut errs = vec![];
        for c in &configs {
            if let Err(e) = server.client.create_query(*c).await {
                errs.push(format!("create_query({c:?}) failed: {e}"));
            }
            if let Err(e) = server.client.prepare_query(PrepareQuery { query_id: QueryId, config: *c, roles: roles.clone() }).await {
                errs.push(format!("prepare_query({c:?}) failed: {e}"));
            }
        }
        Ok::<Vec<String>, String>(errs)
    }));
    rt.shutdown_background();
    let errs = match result {
        Ok(r) => r.map_err(CaseErr::Reject)?,
        // no loopback sockets in this environment: the case cannot be run (counted as rejected, never a violation)
        Err((loc, msg)) if loc.contains("net/test.rs") || loc.contains("net/server") || msg.contains("bind") || msg.contains("ddress") || msg.contains("ermission") => {
            return Err(CaseErr::Reject(format!("test server could not be started: {loc}: {msg}")));
        }
        Err((loc, msg)) => {
            known_or_violation(env, "http-panic:QueryConfig", format!("panic at {loc}: {msg} while sending {configs:?}"), json!({}))?;
            vec![]
        }
    };
    let case = json!({"configs": configs.iter().map(|c| format!("{c:?}")).collect::<Vec<_>>()});
    if let Some(e) = errs.first() {
        known_or_violation(env, "http-roundtrip-rejected:QueryConfig", e.clone(), case.clone())?;
    }
    let seen = seen.lock().unwrap().clone();
    if errs.is_empty() {
        if seen.len() != 2 * n {
            return Err(violation("http-roundtrip-lost:QueryConfig", format!("{} requests reached the handler, {} were sent", seen.len(), 2 * n), case));
        }
        for (i, c) in configs.iter().enumerate() {
            let (kind, params) = &seen[2 * i];
            let got = serde_json::from_str::<QueryConfig>(params);
            if kind == "create" && got.as_ref().is_ok_and(|g| float_only(c, g)) {
                known_or_violation(env, "float-roundtrip:epsilon", format!("epsilon does not survive the trip to the request handler: create_query({c:?}) arrives as {params} which decodes to {got:?}"), case.clone())?;
            } else if kind != "create" || !got.as_ref().is_ok_and(|g| same_config(g, c)) {
                known_or_violation(env, "http-roundtrip-differs:QueryConfig", format!("create_query({c:?}) arrives as {kind} {params}"), case.clone())?;
            }
            let (kind, params) = &seen[2 * i + 1];
            let got = serde_json::from_str::<PrepareQuery>(params);
            if kind == "prepare" && got.as_ref().is_ok_and(|g| float_only(c, &g.config) && g.roles == roles) {
                known_or_violation(env, "float-roundtrip:epsilon", format!("epsilon does not survive the trip to the request handler: prepare_query({c:?}) arrives as {params}"), case.clone())?;
            } else if kind != "prepare" || !got.as_ref().is_ok_and(|g| same_config(&g.config, c) && g.roles == roles) {
                known_or_violation(env, "http-roundtrip-differs:PrepareQuery", format!("prepare_query({c:?}, {roles:?}) arrives as {kind} {params}"), case.clone())?;
            }
        }
    }
    Ok(CaseOk::new(true, &format!("{configs:?}"), json!({"configs": configs.iter().map(|c| format!("{c:?}")).collect::<Vec<_>>(), "received": seen.iter().map(|s| s.1.clone()).take(4).collect::<Vec<_>>()})).labels(labels))
}

// ------------------------------------------------------------------------------------------
// sub-check: executor result layout; plaintext reports and infos
// ------------------------------------------------------------------------------------------

fn result_layout_for<T: W + SharedValue>(env: &Env, src: &mut Src<'_>) -> Result<(usize, String), CaseErr>
where
    Share<T>: W + std::fmt::Debug + Send,
{
    use crate::query::ProtocolResult;
    let n = match src.below(5) {
        0 => 0,
        1 => 1,
        2 => 256,
        _ => src.urange(2, 60),
    };
    let (rows, want): (Vec<Share<T>>, Vec<u8>) = nested(src, 24 * n + 1, |s| {
        let mut rows = vec![];
        let mut bytes = vec![];
        for _ in 0..n {
            let (v, b) = Share::<T>::build(s);
            rows.push(v);
            bytes.extend(b);
        }
        (rows, bytes)
    });
    let name = format!("Vec<{}>", Share::<T>::tname());
    let got = ProtocolResult::to_bytes(&rows);
    if got != want {
        known_or_violation(
            env,
            &format!("result-layout:{name}"),
            format!("{name}::to_bytes of {n} rows = {} ({} bytes), concatenated element encodings = {} ({} bytes)", hexs(&got), got.len(), hexs(&want), want.len()),
            json!({"rows": n}),
        )?;
    }
    let back: Result<Vec<Share<T>>, _> = Share::<T>::from_byte_slice(&got).collect();
    match back {
        Ok(b) if b.len() == rows.len() && b.iter().zip(&rows).all(|(x, y)| Share::<T>::same(x, y)) => {}
        Ok(_) => known_or_violation(env, &format!("result-layout:{name}"), format!("{name}: from_byte_slice(to_bytes(rows)) differs from rows"), json!({"rows": n}))?,
        Err(e) => known_or_violation(env, &format!("result-layout:{name}"), format!("{name}: from_byte_slice(to_bytes(rows)) is rejected: {e}"), json!({"rows": n}))?,
    }
    Ok((n, name))
}

fn result_layout(env: &Env, src: &mut Src<'_>) -> CaseResult {
    let k = src.idx(6);
    let (n, name) = match k {
        0 => result_layout_for::<BA32>(env, src),
        1 => result_layout_for::<BA8>(env, src),
        2 => result_layout_for::<BA16>(env, src),
        3 => result_layout_for::<Fp31>(env, src),
        4 => result_layout_for::<Fp32BitPrime>(env, src),
        _ => result_layout_for::<BA3>(env, src),
    }?;
    Ok(CaseOk::new(n > 0, &(k, n, src.used(), src.raw()), json!({"type": name, "rows": n})).label(name).label(format!("rows:{}", if n == 0 { "0" } else if n == 1 { "1" } else { ">1" })))
}

fn report_plain(env: &Env, src: &mut Src<'_>) -> CaseResult {
    use bytes::Bytes;
    use crate::report::{
        hybrid::{HybridConversionReport, HybridImpressionReport},
        hybrid_info::{HybridConversionInfo, HybridImpressionInfo},
    };
    let mut labels = vec![];
    let fail = |sig: &str, msg: String| known_or_violation(env, sig, msg, json!({}));
    let k = src.below(4);
    let sample;
    match k {
        0 => {
            // impression info: value -> bytes -> value, and bytes -> value -> bytes
            let key = src.below(256) as u8;
            let info = HybridImpressionInfo::new(key);
            let b = info.to_bytes();
            if b.len() != info.byte_len() || &b[..] != [key] {
                fail("encode-differs:HybridImpressionInfo", format!("to_bytes = {b:?}, byte_len = {}", info.byte_len()))?;
            }
            match catch(|| HybridImpressionInfo::from_bytes(&b)) {
                Ok(Ok(i2)) if i2 == info => {}
                other => fail("roundtrip-differs:HybridImpressionInfo", format!("{info:?} -> {b:?} -> {:?}", other.map(|r| r.map_err(|e| e.to_string()))))?,
            }
            let extra = src.urange(1, 40);
            let mut longer = b.to_vec();
            longer.extend(src.bytes(extra));
            if let Ok(Ok(i3)) = catch(|| HybridImpressionInfo::from_bytes(&longer)) {
                if i3.to_bytes()[..] != longer[..] {
                    fail(
                        "noncanonical-accepted:HybridImpressionInfo",
                        format!("HybridImpressionInfo::from_bytes accepts the {}-byte string {} and returns {i3:?}, whose encoding is {}", longer.len(), hexs(&longer), hexs(&i3.to_bytes())),
                    )?;
                }
            }
            labels.push("impression-info".to_string());
            sample = json!({"kind": "impression-info", "key": key});
        }
        1 => {
            let key = src.below(256) as u8;
            let dl = [0usize, 1, 2, 255, 254, 20][src.idx(6)];
            let mut rng = StdRng::seed_from_u64(src.seed());
            let domain: String = (0..dl).map(|_| char::from(rng.gen_range(0x21u8..=0x7e))).collect();
            let (ts, eps, sens) = (src.bits_val(64) as u64, f64::from_bits(src.bits_val(64) as u64), f64::from_bits(src.bits_val(64) as u64));
            let info = HybridConversionInfo::new(key, &domain, ts, eps, sens).expect("ascii");
            let b = info.to_bytes();
            let mut want = domain.as_bytes().to_vec();
            want.push(0);
            want.push(key);
            want.extend(ts.to_be_bytes());
            want.extend(eps.to_bits().to_be_bytes());
            want.extend(sens.to_bits().to_be_bytes());
            if b.len() != info.byte_len() || b[..] != want[..] {
                fail("encode-differs:HybridConversionInfo", format!("to_bytes = {} (byte_len {}), reference {}", hexs(&b), info.byte_len(), hexs(&want)))?;
            }
            match catch(|| HybridConversionInfo::from_bytes(&b)) {
                Ok(Ok(i2)) if i2.to_bytes() == b && i2.conversion_site_domain == domain && i2.timestamp == ts && i2.epsilon.to_bits() == eps.to_bits() && i2.sensitivity.to_bits() == sens.to_bits() && i2.key_id == key => {}
                other => fail("roundtrip-differs:HybridConversionInfo", format!("{info:?} -> {} -> {:?}", hexs(&b), other.map(|r| r.map_err(|e| e.to_string()))))?,
            }
            // a non-UTF-8 domain of the right length must be rejected, not accepted lossily
            if dl > 0 {
                let mut bad = b.to_vec();
                bad[src.idx(dl)] = src.range(0x80, 0xff) as u8;
                if let Ok(Ok(i3)) = catch(|| HybridConversionInfo::from_bytes(&bad)) {
                    if i3.to_bytes()[..] != bad[..] {
                        fail("noncanonical-accepted:HybridConversionInfo", format!("from_bytes accepts {} and returns {i3:?} which encodes differently", hexs(&bad)))?;
                    }
                }
            }
            labels.push(format!("conversion-info:domain-len:{dl}"));
            sample = json!({"kind": "conversion-info", "domain_len": dl});
        }
        2 => {
            let (mk, mb) = Share::<BA64>::build(src);
            let (bk, bb) = Share::<BA8>::build(src);
            let key = src.below(256) as u8;
            let r = HybridImpressionReport::<BA8> { match_key: mk, breakdown_key: bk, info: HybridImpressionInfo::new(key) };
            let mut out = vec![];
            r.serialize(&mut out);
            let mut want = mb;
            want.extend(bb);
            want.push(key);
            if out != want {
                fail("encode-differs:HybridImpressionReport", format!("serialize = {}, reference {}", hexs(&out), hexs(&want)))?;
            }
            match catch(|| HybridImpressionReport::<BA8>::deserialize(&Bytes::from(out.clone()))) {
                Ok(Ok(r2)) if r2 == r => {}
                other => fail("roundtrip-differs:HybridImpressionReport", format!("{r:?} -> {} -> {:?}", hexs(&out), other.map(|x| x.map_err(|e| e.to_string()))))?,
            }
            labels.push("impression-report".to_string());
            sample = json!({"kind": "impression-report"});
        }
        _ => {
            let (mk, mb) = Share::<BA64>::build(src);
            let (v, vb) = Share::<BA3>::build(src);
            let info = HybridConversionInfo::new(src.below(256) as u8, "shop.example", src.bits_val(64) as u64, 1.5, 0.25).unwrap();
            let r = HybridConversionReport::<BA3> { match_key: mk, value: v, info: info.clone() };
            let mut out = vec![];
            r.serialize(&mut out);
            let mut want = mb;
            want.extend(vb);
            want.extend(info.to_bytes().iter());
            if out != want {
                fail("encode-differs:HybridConversionReport", format!("serialize = {}, reference {}", hexs(&out), hexs(&want)))?;
            }
            match catch(|| HybridConversionReport::<BA3>::deserialize(&Bytes::from(out.clone()))) {
                Ok(Ok(r2)) if r2 == r => {}
                other => fail("roundtrip-differs:HybridConversionReport", format!("{r:?} -> {} -> {:?}", hexs(&out), other.map(|x| x.map_err(|e| e.to_string()))))?,
            }
            // padding bits of the BA3 value shares set: must be rejected
            let mut bad = out.clone();
            let which = 16 + src.idx(2);
            bad[which] |= 1 << src.range(3, 7);
            if let Ok(Ok(r3)) = catch(|| HybridConversionReport::<BA3>::deserialize(&Bytes::from(bad.clone()))) {
                fail("noncanonical-accepted:BA3", format!("HybridConversionReport::deserialize accepts {} (padding bit of a BA3 share set): {r3:?}", hexs(&bad)))?;
            }
            labels.push("conversion-report".to_string());
            sample = json!({"kind": "conversion-report"});
        }
    }
    Ok(CaseOk::new(true, &(k, src.used(), src.raw(), src.raw()), sample).labels(labels))
}

// ------------------------------------------------------------------------------------------
// producers: every way the crate itself builds a bit-array value yields a canonical encoding
// ------------------------------------------------------------------------------------------

/// Values are not only built by deserialisation and `truncate_from`: `expand`, `!`, `+`, `*`,
/// `from_fn`, `from_iter`, `set`, `try_from(&BitSlice)`, `Expand` of shares ... produce them too,
/// and whatever they produce is sent over the wire as is. Each produced value must have zero
/// padding, serialise to the encoding of the value with the same BITS bits, and be accepted by
/// the decoder.
fn producers(env: &Env, src: &mut Src<'_>) -> CaseResult {
    use crate::{
        ff::{ArrayAccess, Expand, boolean::Boolean},
        secret_sharing::{SharedValue, SharedValueArray, replicated::{ReplicatedSecretSharing, semi_honest::AdditiveShare}},
    };
    fn go<B>(env: &Env, name: &'static str, src: &mut Src<'_>) -> Result<(&'static str, u64), CaseErr>
    where
        B: BooleanArray + Serializable + std::ops::Not<Output = B> + std::ops::Mul<Output = B> + std::ops::Mul<Boolean, Output = B> + SharedValueArray<Boolean> + Expand<Boolean>,
        AdditiveShare<B>: Expand<AdditiveShare<Boolean>> + Serializable + std::ops::Not<Output = AdditiveShare<B>>,
    {
        let bits = <B as SharedValue>::BITS as usize;
        let gen_bits = |src: &mut Src<'_>| -> Vec<bool> {
            match src.below(4) {
                0 => vec![false; bits],
                1 => vec![true; bits],
                _ => (0..bits).map(|_| src.bool()).collect(),
            }
        };
        let build = |v: &[bool]| -> B {
            let mut x = <B as SharedValue>::ZERO;
            for (i, b) in v.iter().enumerate() {
                x.set(i, Boolean::from(*b));
            }
            x
        };
        let (va, vb) = (gen_bits(src), gen_bits(src));
        let (a, b) = (build(&va), build(&vb));
        let bit = src.bool();
        let op = src.below(12);
        let (what, produced, want): (&'static str, B, Vec<bool>) = match op {
            0 => ("expand", B::expand(&Boolean::from(bit)), vec![bit; bits]),
            1 => ("not", !a, va.iter().map(|x| !x).collect()),
            2 => ("add", a + b, va.iter().zip(&vb).map(|(x, y)| x ^ y).collect()),
            3 => ("sub-of-not", !a - b, va.iter().zip(&vb).map(|(x, y)| !x ^ y).collect()),
            4 => ("mul", a * b, va.iter().zip(&vb).map(|(x, y)| x & y).collect()),
            5 => ("mul-boolean", a * Boolean::from(bit), va.iter().map(|x| x & bit).collect()),
            6 => ("from_fn", <B as SharedValueArray<Boolean>>::from_fn(|i| Boolean::from(va[i])), va.clone()),
            7 => ("from_iter", va.iter().map(|x| Boolean::from(*x)).collect::<B>(), va.clone()),
            8 => ("neg", -a, va.clone()),
            9 => ("expand-plus", B::expand(&Boolean::from(bit)) + a, va.iter().map(|x| x ^ bit).collect()),
            10 => ("not-of-expand", !B::expand(&Boolean::from(bit)), vec![!bit; bits]),
            _ => ("try_from-bitslice", B::try_from(a.as_bitslice()).map_err(|e| violation(format!("producer-error:{name}"), format!("{e:?}"), json!({})))?, va.clone()),
        };
        let reference = build(&want);
        let cj = json!({"type": name, "producer": what, "a": format!("{a:?}"), "b": format!("{b:?}"), "bit": bit});
        let mut got = GenericArray::<u8, <B as Serializable>::Size>::default();
        produced.serialize(&mut got);
        let mut exp = GenericArray::<u8, <B as Serializable>::Size>::default();
        reference.serialize(&mut exp);
        if got != exp || produced != reference {
            known_or_violation(env, &format!("noncanonical-produced:{what}:{name}"), format!("{name}: value produced by `{what}` encodes to {:?}, the value with the same {bits} bits encodes to {:?}", &got[..], &exp[..]), cj.clone())?;
        }
        if let Err(e) = B::deserialize(&got) {
            known_or_violation(env, &format!("noncanonical-produced:{what}:{name}"), format!("{name}: the decoder rejects the encoding of a value produced by `{what}`: {e}"), cj.clone())?;
        }
        // the same through shares: expanding a shared bit, complementing a share
        let sbit: AdditiveShare<Boolean> = AdditiveShare::new(Boolean::from(bit), Boolean::from(src.bool()));
        let sh: AdditiveShare<B> = match src.below(3) {
            0 => <AdditiveShare<B> as Expand<AdditiveShare<Boolean>>>::expand(&sbit),
            1 => !AdditiveShare::<B>::new(a, b),
            _ => !<AdditiveShare<B> as Expand<AdditiveShare<Boolean>>>::expand(&sbit),
        };
        let mut sb = GenericArray::<u8, <AdditiveShare<B> as Serializable>::Size>::default();
        sh.serialize(&mut sb);
        if AdditiveShare::<B>::deserialize(&sb).is_err() {
            known_or_violation(env, &format!("noncanonical-produced:share:{name}"), format!("{name}: the decoder rejects the encoding {:?} of a share produced by expand / not", &sb[..]), cj)?;
        }
        Ok((what, digest(&(va, vb, bit, op))))
    }
    const NAMES: [&str; 14] = ["BA3", "BA4", "BA5", "BA6", "BA7", "BA8", "BA16", "BA20", "BA32", "BA64", "BA96", "BA112", "BA144", "BA256"];
    let t = src.idx(14);
    let n = NAMES[t];
    let (what, dg) = match t {
        0 => go::<BA3>(env, n, src),
        1 => go::<BA4>(env, n, src),
        2 => go::<BA5>(env, n, src),
        3 => go::<BA6>(env, n, src),
        4 => go::<BA7>(env, n, src),
        5 => go::<BA8>(env, n, src),
        6 => go::<BA16>(env, n, src),
        7 => go::<BA20>(env, n, src),
        8 => go::<BA32>(env, n, src),
        9 => go::<BA64>(env, n, src),
        10 => go::<BA96>(env, n, src),
        11 => go::<BA112>(env, n, src),
        12 => go::<BA144>(env, n, src),
        _ => go::<BA256>(env, n, src),
    }?;
    Ok(CaseOk::new(true, &(t, dg), json!({"type": n, "producer": what})).label(format!("type:{n}")).label(format!("producer:{what}")))
}

/// The Galois-field types have a second byte-string decoder next to `Serializable::deserialize`:
/// `TryFrom<&[u8]>` (short slices are zero-extended by its documentation, long ones rejected).
/// Whatever it accepts is a value that is sent over the wire as is, so: it never panics, the
/// encoding of an accepted value decodes to that value, and a slice of the full encoding length
/// is accepted only if `deserialize` accepts the same bytes as the same value (rejecting is
/// always allowed).
fn slice_decoders(env: &Env, src: &mut Src<'_>) -> CaseResult {
    fn go<G>(env: &Env, name: &'static str, src: &mut Src<'_>) -> Result<(usize, &'static str, &'static str, u64), CaseErr>
    where
        G: Serializable + PartialEq + std::fmt::Debug + Copy + for<'a> TryFrom<&'a [u8]>,
    {
        let size = <G as Serializable>::Size::USIZE;
        let len = src.idx(size + 2);
        let class = src.below(6);
        let mut bytes: Vec<u8> = match class {
            0 => vec![0; len],
            1 => vec![0xff; len],
            _ => src.bytes(len),
        };
        let cname = match class {
            0 => "zero",
            1 => "ones",
            2 => "random",
            3 => {
                // exactly one bit of the last byte
                if let Some(l) = bytes.last_mut() {
                    *l = 1 << src.below(8);
                }
                "last-byte-one-bit"
            }
            4 => {
                if let Some(l) = bytes.last_mut() {
                    *l = src.below(256) as u8;
                }
                "last-byte-any"
            }
            _ => {
                for b in bytes.iter_mut().rev().skip(1) {
                    *b = 0;
                }
                "only-last-byte"
            }
        };
        let case = json!({"type": name, "slice": hexs(&bytes), "len": len, "size": size});
        let r = catch(|| <G as TryFrom<&[u8]>>::try_from(&bytes[..]))
            .map_err(|(loc, m)| violation(format!("slice-decoder-panics:{name}"), format!("{name}::try_from(&[u8]) of {} bytes panicked at {loc}: {m}", len), case.clone()))?;
        let Ok(v) = r else {
            return Ok((len, cname, "rejected", digest(&bytes)));
        };
        let mut enc = GenericArray::<u8, <G as Serializable>::Size>::default();
        v.serialize(&mut enc);
        match G::deserialize(&enc) {
            Ok(back) if back == v => {}
            Ok(back) => {
                return Err(violation(format!("slice-decoded-value-does-not-roundtrip:{name}"), format!("{name}: slice {} was accepted as {v:?}; its encoding {} decodes to the different value {back:?}", hexs(&bytes), hexs(&enc)), case));
            }
            Err(e) => {
                return Err(violation(format!("slice-decoded-value-does-not-roundtrip:{name}"), format!("{name}: slice {} was accepted as {v:?}, but deserialize rejects the encoding {} of that value: {e}", hexs(&bytes), hexs(&enc)), case));
            }
        }
        if len == size {
            match G::deserialize(GenericArray::from_slice(&bytes)) {
                Ok(d) if d == v => {}
                other => {
                    return Err(violation(format!("slice-decoder-accepts-noncanonical:{name}"), format!("{name}: the {size}-byte slice {} was accepted as {v:?}, deserialize of the same bytes gives {:?}", hexs(&bytes), other.map_err(|e| e.to_string())), case));
                }
            }
        }
        Ok((len, cname, "accepted", digest(&bytes)))
    }
    const NAMES: [&str; 7] = ["Gf2", "Gf3Bit", "Gf8Bit", "Gf9Bit", "Gf20Bit", "Gf32Bit", "Gf40Bit"];
    let t = src.idx(7);
    let n = NAMES[t];
    let (len, cname, outcome, dg) = match t {
        0 => go::<Gf2>(env, n, src),
        1 => go::<Gf3Bit>(env, n, src),
        2 => go::<Gf8Bit>(env, n, src),
        3 => go::<Gf9Bit>(env, n, src),
        4 => go::<Gf20Bit>(env, n, src),
        5 => go::<Gf32Bit>(env, n, src),
        _ => go::<Gf40Bit>(env, n, src),
    }?;
    Ok(CaseOk::new(len > 0, &(t, len, dg), json!({"type": n, "len": len, "class": cname, "outcome": outcome}))
        .label(format!("type:{n}")).label(format!("outcome:{outcome}")).label(format!("len:{}", len)).label(format!("class:{cname}")))
}

/// Conversions that build bit arrays from integers and bit vectors, and the lossless re-layout of a
/// bit array as 32-bit Galois-field words (what the malicious shuffle hashes): `try_from(u128)`
/// accepts exactly the integers of at most BITS bits (its documentation) and yields the value
/// with those bits, `truncate_from` keeps the low BITS bits, `try_from(Vec<Boolean>)` accepts
/// exactly BITS items, and `Vec<Gf32Bit>::try_from(ba)` is lossless (distinct arrays, distinct words).
fn conversions(env: &Env, src: &mut Src<'_>) -> CaseResult {
    fn enc<B: Serializable>(b: &B) -> Vec<u8> {
        let mut g = GenericArray::<u8, B::Size>::default();
        b.serialize(&mut g);
        g.to_vec()
    }
    fn ref_bytes(v: u128, bits: usize, size: usize) -> Vec<u8> {
        let m = if bits >= 128 { v } else { v & ((1u128 << bits) - 1) };
        let mut out = m.to_le_bytes().to_vec();
        out.resize(size.max(16), 0);
        out.truncate(size);
        out
    }
    fn gen_u128(src: &mut Src<'_>, bits: usize) -> (u128, &'static str) {
        let r = (u128::from(src.below(u64::MAX)) << 64) | u128::from(src.below(u64::MAX));
        let top = if bits >= 128 { u128::MAX } else { (1u128 << bits) - 1 };
        match src.below(8) {
            0 => (0, "zero"),
            1 => (top, "max"),
            2 => (top.wrapping_add(1), "max+1"),
            3 => (top.wrapping_add(2), "max+2"),
            4 => (u128::MAX, "u128::MAX"),
            5 => (r & top, "random-in-range"),
            6 => (1u128 << src.below(128), "single-bit"),
            _ => (r, "random"),
        }
    }
    fn small<B>(env: &Env, name: &'static str, src: &mut Src<'_>) -> Result<(&'static str, &'static str, &'static str, u64), CaseErr>
    where
        B: BooleanArray + Serializable + U128Conversions + TryFrom<u128> + TryFrom<Vec<Boolean>> + TryInto<Vec<Gf32Bit>> + PartialEq + std::fmt::Debug + Copy,
    {
        let bits = <B as SharedValue>::BITS as usize;
        let size = <B as Serializable>::Size::USIZE;
        let (v, cls) = gen_u128(src, bits);
        let cj = json!({"type": name, "integer": v.to_string(), "class": cls});
        let fits = bits >= 128 || v < (1u128 << bits);
        let what;
        match src.below(3) {
            0 => {
                what = "try_from-u128";
                match catch(|| <B as TryFrom<u128>>::try_from(v)).map_err(|(loc, m)| violation(format!("conversion-panics:{what}:{name}"), format!("{name}::try_from({v}) panicked at {loc}: {m}"), cj.clone()))? {
                    Ok(b) => {
                        if !fits {
                            return Err(violation(format!("try_from-u128-accepts-too-wide:{name}"), format!("{name}::try_from({v}) accepted an integer of more than {bits} bits"), cj));
                        }
                        if enc(&b) != ref_bytes(v, bits, size) || B::deserialize(GenericArray::from_slice(&enc(&b))).ok() != Some(b) || b.as_u128() != v {
                            known_or_violation(env, &format!("noncanonical-produced:{what}:{name}"), format!("{name}::try_from({v}) encodes to {:?}, expected {:?}; as_u128 = {}", enc(&b), ref_bytes(v, bits, size), b.as_u128()), cj.clone())?;
                        }
                    }
                    Err(_) => {
                        if fits {
                            return Err(violation(format!("try_from-u128-rejects-in-range:{name}"), format!("{name}::try_from({v}) rejected an integer of at most {bits} bits"), cj));
                        }
                    }
                }
            }
            1 => {
                what = "truncate_from";
                let b = catch(|| B::truncate_from(v)).map_err(|(loc, m)| violation(format!("conversion-panics:{what}:{name}"), format!("{name}::truncate_from({v}) panicked at {loc}: {m}"), cj.clone()))?;
                if enc(&b) != ref_bytes(v, bits, size) || B::deserialize(GenericArray::from_slice(&enc(&b))).ok() != Some(b) {
                    known_or_violation(env, &format!("noncanonical-produced:{what}:{name}"), format!("{name}::truncate_from({v}) encodes to {:?}, expected {:?}", enc(&b), ref_bytes(v, bits, size)), cj.clone())?;
                }
            }
            _ => {
                what = "vec-boolean";
                let len = match src.below(4) {
                    0 => bits.saturating_sub(1),
                    1 => bits + 1,
                    _ => bits,
                };
                let items: Vec<Boolean> = (0..len).map(|i| Boolean::from(i < 128 && (v >> i) & 1 == 1)).collect();
                let r = catch(|| <B as TryFrom<Vec<Boolean>>>::try_from(items)).map_err(|(loc, m)| violation(format!("conversion-panics:{what}:{name}"), format!("{name}::try_from(Vec<Boolean> of {len}) panicked at {loc}: {m}"), cj.clone()))?;
                match r {
                    Ok(b) => {
                        if len != bits {
                            return Err(violation(format!("vec-boolean-wrong-length-accepted:{name}"), format!("{name}::try_from(Vec<Boolean>) accepted {len} items for {bits} bits"), cj));
                        }
                        if enc(&b) != ref_bytes(v, bits, size) {
                            known_or_violation(env, &format!("noncanonical-produced:{what}:{name}"), format!("{name}::try_from(Vec<Boolean>) encodes to {:?}, expected {:?}", enc(&b), ref_bytes(v, bits, size)), cj.clone())?;
                        }
                    }
                    Err(_) => {
                        if len == bits {
                            return Err(violation(format!("vec-boolean-rejected:{name}"), format!("{name}::try_from(Vec<Boolean>) rejected exactly {bits} items"), cj));
                        }
                    }
                }
            }
        }
        // re-layout as 32-bit words of the value with the low bits of v. Only losslessness is
        // demanded (another bit flipped => other words); whether the words are laid out like the
        // wire encoding is recorded as a label.
        let b = B::truncate_from(v);
        let words_of = |x: B| -> Result<Vec<u8>, CaseErr> {
            match catch(|| <B as TryInto<Vec<Gf32Bit>>>::try_into(x)) {
                Ok(Ok(w)) => Ok(w.iter().flat_map(|w| enc(w)).collect()),
                Ok(Err(_)) => Err(violation(format!("gf32-words-error:{name}"), format!("Vec<Gf32Bit>::try_from({name}) failed for {x:?}"), cj.clone())),
                Err((loc, m)) => Err(violation(format!("conversion-panics:gf32-words:{name}"), format!("Vec<Gf32Bit>::try_from({name}) panicked at {loc}: {m}"), cj.clone())),
            }
        };
        let cat = words_of(b)?;
        let flip = src.idx(bits);
        let mut b2 = b;
        b2.set(flip, !b.get(flip).unwrap());
        let cat2 = words_of(b2)?;
        if cat == cat2 {
            return Err(violation(format!("gf32-words-lossy:{name}"), format!("{b:?} and the array with bit {flip} flipped are converted to the same 32-bit words {cat:?}"), cj));
        }
        let mut want = enc(&b);
        want.resize(want.len().div_ceil(4) * 4, 0);
        let layout = if cat == want { "gf32-words:encoding-layout" } else { "gf32-words:other-layout" };
        Ok((what, cls, layout, digest(&(v, what, flip))))
    }
    const NAMES: [&str; 12] = ["BA3", "BA4", "BA5", "BA6", "BA7", "BA8", "BA16", "BA20", "BA32", "BA64", "BA96", "BA112"];
    let t = src.idx(12);
    let n = NAMES[t];
    let (what, cls, layout, dg) = match t {
        0 => small::<BA3>(env, n, src),
        1 => small::<BA4>(env, n, src),
        2 => small::<BA5>(env, n, src),
        3 => small::<BA6>(env, n, src),
        4 => small::<BA7>(env, n, src),
        5 => small::<BA8>(env, n, src),
        6 => small::<BA16>(env, n, src),
        7 => small::<BA20>(env, n, src),
        8 => small::<BA32>(env, n, src),
        9 => small::<BA64>(env, n, src),
        10 => small::<BA96>(env, n, src),
        _ => small::<BA112>(env, n, src),
    }?;
    Ok(CaseOk::new(cls != "zero", &(t, dg), json!({"type": n, "conversion": what, "integer-class": cls}))
        .label(format!("type:{n}")).label(format!("conversion:{what}")).label(format!("integer:{cls}")).label(layout))
}

pub fn subs(_env: &Env) -> Vec<Sub> {
    let n_small = small_types(3).len() as u64;
    vec![
        Sub::exhaustive("small_exhaustive", small_total(2), small_total(3), small_exhaustive,
            "EVERY byte string of every Serializable type of at most 2 bytes (thorough: 3 bytes, i.e. all 2^24 strings of BA20 and Gf20Bit): deserialize accepts iff the reference model (integer < p, padding bits zero, Boolean byte 0/1, per component) calls the string canonical, an accepted string re-encodes to itself and that encoding decodes to the same value; non-trivial = non-canonical string or encoding of a non-zero value"),
        Sub::exhaustive("three_byte_sample", 2 * ((1 << 24) / 251 + 1), 1, three_byte_sample,
            "quick tier only: BA20 and Gf20Bit on every 251st of the 2^24 strings (every value of the byte that holds the padding bits), same oracle"),
        Sub::exhaustive("cardinality", n_small, n_small, cardinality,
            "one case per type of at most 3 bytes: the number of byte strings the implementation accepts, counted over all 256^size strings (all 2^24 for BA20/Gf20Bit in both tiers), equals the advertised number of values (31 for Fp31, 2 for Boolean/Gf2, 8 for BA3/Gf3Bit, 512 for Gf9Bit, 2^16 for BA16, 2^20 for BA20/Gf20Bit, products for shares)"),
        Sub::random("large_decode", 160, 1_500_000, 30_000_000, large_decode,
            "every Serializable type (fields, Gf*, BA3..BA256, Fp25519, RP25519, Hash, Seed pairs, UniqueTag, public key, PRF report, semi-honest and malicious shares, StdArray<_,1/16/32/64/256>, hash/proof arrays): canonical encodings of random values with up to three components replaced by boundary encodings {0, p-1, p, p+1, p+small, all-ones, 2^k; max value, one/all/only padding bits; Boolean 2,3,0x80,255; l-1, l, l+1, k*l, 2^252, 2^255; Ristretto identity, basepoint, k*B, odd s, s>=p, high bit, bit-flipped point}, plus all-zero/all-ones/random strings: accept iff canonical by the model (Ristretto: must-reject classes only), accepted strings re-encode to themselves, no panic; non-trivial = non-canonical or non-zero"),
        Sub::random("producers", 600, 300_000, 6_000_000, producers,
            "values produced by the crate's own operations on BA3..BA256 - expand, !, +, -, *, * Boolean, neg, from_fn, from_iter, try_from(&BitSlice), and expand / ! of shares - from all-zero / all-one / random operands: the produced value equals, and encodes exactly like, the value built bit by bit (padding zero), and the decoder accepts it"),
        Sub::random("slice_decoders", 16, 60_000, 2_000_000, slice_decoders,
            "the second byte-string decoder of the Galois-field types, TryFrom<&[u8]>, for Gf2/3/8/9/20/32/40 over slices of every length 0..=Size+1 filled with {zero, ones, random, one bit / any value in the last byte, only the last byte}: never panics; the encoding of an accepted value is accepted by deserialize and returns that value; a slice of the full encoding length is accepted only if deserialize accepts the same bytes as the same value (rejection is always allowed); non-trivial = non-empty slice"),
        Sub::random("conversions", 16, 60_000, 2_000_000, conversions,
            "BA3..BA112: try_from(u128) accepts exactly the integers of at most BITS bits and, like truncate_from, yields the value whose encoding is the little-endian low BITS bits (integers from {0, max, max+1, max+2, u128::MAX, single bit, random}); try_from(Vec<Boolean>) accepts exactly BITS items; Vec<Gf32Bit>::try_from(array) (the re-layout hashed by the malicious shuffle) is lossless: flipping any one bit of the array changes the words (whether the words follow the wire layout is a label); no panic; non-trivial = non-zero integer"),
        Sub::random("roundtrip", 200, 800_000, 15_000_000, roundtrip,
            "every type of the table: a value built through the public constructors (truncate_from of boundary-biased integers, bit-by-bit collection, Scalar/basepoint multiples, hashing, FromRandom, share and array constructors) encodes to the reference bytes (little-endian integer, components concatenated), serialize overwrites all Size bytes, and the encoding decodes to the same value; non-trivial = some non-zero byte"),
        Sub::random("transposes", 64, 40_000, 1_000_000, transposes,
            "every TransposeFrom impl (ba_to_ba 64/256; bool_to_ba 256x256, 8x256, 16x256, 16x32, 32x256, 8x32, 32x32, 8x8, 16x16, 8x16; ba_to_bool 256x64, 32x32, 32x16; ba_fn_to_bool 256x64; padded ba_to_bool 256x{32,16,8,5,3}, 32x{8,3}, 16x8; aggregation 256x256, 32x256) at array level and through the Vec/BitDecomposed shims, left and right share with independent matrices of classes {zero, ones, diagonal, single bit, one row, one column, corner, random}, destination pre-filled with ones: result equals the naive (i,j)->(j,i) transpose, shims agree and reject sources of the wrong length, and where the opposite impl exists rows -> bit-decomposed -> rows restores the input; non-trivial = not both matrices zero")
            .shrink_iters(60),
        Sub::random("packing", 64, 60_000, 2_000_000, packing,
            "join_fields/split_fields (through Shuffleable::left/right/new of IndistinguishableHybridReport) for (BK,V) in {(BA8,BA3),(BA5,BA3),(BA8,BA8),(BA32,BA16),(BA3,BA3),(BA20,BA20),(BA16,BA32)} with match key (112-bit share) and {(BA8,BA3),(BA8,BA8),(BA16,BA16),(BA5,BA8),(BA8,BA16),(BA20,BA8),(BA16,BA8)} without (32-bit share): split(join(r)) = r (lossless), join and split are GF(2)-linear (what the XOR-masking shuffle relies on) and split(join(split(s))) = split(s) for arbitrary share bits - the bit layout inside the share is NOT part of the oracle; BooleanArrayWriter/Reader over BA20/BA32/BA112/BA256 with up to 12 items of {Boolean, BA3, BA5, BA8, BA16, BA20, BA32, BA64}: container = concatenation (rest untouched), reader returns the items; field bits in {zero, ones, single/last bit, random}"),
        Sub::random("query_config_json", 64, 60_000, 2_000_000, query_config_json,
            "QueryConfig over size {1,2,10^9-1,10^9,random} x FieldType x {TestMultiply, TestAdd, TestShardedShuffle, MaliciousHybrid{max_breakdown_key, with_dp in {0,1,256,u32::MAX,random}, finite epsilon in {0,-0,subnormal,min,max,-max,5,0.1,1/3,1e-7,decimal,random bits}, plaintext_match_keys}} and PrepareQuery with all role permutations through serde_json: decode(encode(v)) = v (floats by bit pattern), re-encoding is identical; sizes 0, 10^9+1 .. u32::MAX, 2^32, k*2^32 + an in-range value, 2^63 + in-range, u64::MAX and negative sizes - through serde_json from a value and from text and through QuerySize::try_from(usize / i32) - and helper identities outside 1..3 are rejected"),
        Sub::random("query_config_http", 96, 200, 5_000, query_config_http,
            "6 generated QueryConfigs per case sent with IpaHttpClient::create_query and prepare_query (HTTP/2 without TLS, loopback) to a TestServer: the handler receives exactly the configuration and roles that were sent (query string built by the client, parsed by the server's extractor, then JSON route parameters)")
            .streams(4).shrink_iters(10),
        Sub::random("result_layout", 64, 20_000, 500_000, result_layout,
            "ProtocolResult::to_bytes of Vec<AdditiveShare<T>> (T in BA32, BA8, BA16, Fp31, Fp32BitPrime, BA3; 0, 1, 256 or up to 60 rows) equals the concatenation of the reference element encodings, and from_byte_slice restores the rows"),
        Sub::random("report_plain", 96, 40_000, 1_000_000, report_plain,
            "HybridImpressionInfo / HybridConversionInfo (domain length {0,1,2,20,254,255}) to_bytes = reference bytes of byte_len() bytes and from_bytes restores the value; strings with trailing bytes or a non-UTF-8 domain are accepted only if they re-encode to themselves; plaintext HybridImpressionReport<BA8> / HybridConversionReport<BA3> serialize = reference bytes, deserialize restores, BA3 padding bits are rejected"),
    ]
}
