// C10 - encrypted reports decrypt only if untouched; bad input never crashes a helper.
//
// Every case generates a valid hybrid report (impression or conversion) with generated shares and
// metadata, a per-case key registry, and the encrypted record exactly as the report collector
// would submit it (event-type byte + `encrypt_to` output, optionally length-delimited). The fault
// space of that record is then enumerated: every single-bit flip, every truncation length, every
// value of the key-identifier / event-type bytes, foreign key registries, garbage records, and the
// same through `LengthDelimitedStream` framing.
//
// Oracle: the untouched record decrypts to exactly the original shares and info; any edited record
// yields `Err` (never `Ok`, neither of a different nor of the same report); nothing panics. A
// panic located at a `debug_assert!` is classified separately (`debug-panic:<file>`), any other
// panic has the signature `panic:<file>:<Type>::<fn>:<kind>`.

use std::{
    collections::BTreeMap,
    sync::Mutex,
};

use bytes::Bytes;
use futures::StreamExt;
use rand::{SeedableRng, rngs::StdRng};
use serde_json::{Value, json};
use typenum::Unsigned;

use super::common::*;
use crate::{
    error::BoxError,
    ff::{
        U128Conversions,
        boolean_array::{BA3, BA8, BA64},
    },
    helpers::LengthDelimitedStream,
    hpke::{EncapsulationSize, KeyPair, KeyRegistry, PrivateKeyRegistry, TagSize},
    report::{
        hybrid::{
            EncryptedHybridConversionReport, EncryptedHybridImpressionReport, EncryptedHybridReport,
            HybridConversionReport, HybridImpressionReport, HybridReport,
        },
        hybrid_info::{HybridConversionInfo, HybridImpressionInfo},
    },
    secret_sharing::replicated::{ReplicatedSecretSharing, semi_honest::AdditiveShare},
};

pub const LEVEL: &str = "fault_enumeration";

type Report = HybridReport<BA8, BA3>;
type Registry = KeyRegistry<KeyPair>;

// ------------------------------------------------------------------------------------------
// record layout (reference, written down independently of the offsets in report/hybrid.rs)
// ------------------------------------------------------------------------------------------

const ENC: usize = 32; // X25519 encapsulated key
const TAG: usize = 16; // AES-GCM tag
const MK: usize = 16; // two BA64 shares
const BTT: usize = 2; // two BA8 shares (impression) or two BA3 shares (conversion), one byte each
/// offset of the key identifier inside a typed (no event byte) record
const KEY_OFF: usize = ENC + MK + TAG + ENC + BTT + TAG;
/// offset of the associated info inside a typed record
const INFO_OFF: usize = KEY_OFF + 1;

fn layout_sanity() -> Result<(), String> {
    let e = <EncapsulationSize as Unsigned>::USIZE;
    let t = <TagSize as Unsigned>::USIZE;
    if e != ENC || t != TAG || AdditiveShare::<BA64>::size() != MK || AdditiveShare::<BA8>::size() != BTT || AdditiveShare::<BA3>::size() != BTT {
        return Err(format!("layout constants of the harness do not match the crate: enc {e} tag {t}"));
    }
    Ok(())
}

/// region of byte `off` of a record; `generic` = record starts with the event-type byte
fn region(conv: bool, domain_len: usize, generic: bool, off: usize) -> &'static str {
    let off = if generic {
        if off == 0 {
            return "event";
        }
        off - 1
    } else {
        off
    };
    let mut o = off;
    for (len, name) in [(ENC, "encap-mk"), (MK, "ct-mk"), (TAG, "tag-mk"), (ENC, "encap-btt"), (BTT, "ct-btt"), (TAG, "tag-btt"), (1, "key-id")] {
        if o < len {
            return name;
        }
        o -= len;
    }
    if !conv {
        return if o == 0 { "info-key-id" } else { "trailing" };
    }
    if o < domain_len {
        return "info-domain";
    }
    o -= domain_len;
    match o {
        0 => "info-delimiter",
        1 => "info-key-id",
        2..=9 => "info-timestamp",
        10..=17 => "info-epsilon",
        18..=25 => "info-sensitivity",
        _ => "trailing",
    }
}

// ------------------------------------------------------------------------------------------
// generated report
// ------------------------------------------------------------------------------------------

#[derive(Clone, Debug)]
struct Spec {
    conv: bool,
    mk: (u64, u64),
    small: (u8, u8),
    nkeys: usize,
    lookup_key: u8,
    info_key: u8,
    domain: Vec<u8>,
    ts: u64,
    eps: u64,
    sens: u64,
    key_seed: u64,
    enc_seed: u64,
    labels: Vec<String>,
}

fn gen_f64(src: &mut Src<'_>) -> (u64, &'static str) {
    match src.below(14) {
        0 => (0.0f64.to_bits(), "zero"),
        1 => ((-0.0f64).to_bits(), "neg-zero"),
        2 => (1, "subnormal-min"),
        3 => (f64::MIN_POSITIVE.to_bits() - 1, "subnormal-max"),
        4 => (f64::INFINITY.to_bits(), "inf"),
        5 => (f64::NEG_INFINITY.to_bits(), "neg-inf"),
        6 => (f64::NAN.to_bits(), "nan"),
        7 => (0x7ff0_0000_0000_0001 | (src.u64() & 0x000f_ffff_ffff_ffff), "nan-payload"),
        8 => (f64::MAX.to_bits(), "max"),
        9 => (5.0f64.to_bits(), "five"),
        10 => (1.1f64.to_bits(), "1.1"),
        11 => (f64::MIN_POSITIVE.to_bits(), "min-positive"),
        _ => (src.u64(), "random-bits"),
    }
}

fn gen_ts(src: &mut Src<'_>) -> (u64, &'static str) {
    match src.below(8) {
        0 => (0, "0"),
        1 => (1, "1"),
        2 => (1 << 63, "2^63"),
        3 => (u64::MAX, "u64::MAX"),
        4 => (1_729_707_432, "epoch-seconds"),
        5 => (1 << 32, "2^32"),
        _ => (src.u64(), "random"),
    }
}

fn gen_domain(src: &mut Src<'_>) -> (Vec<u8>, String) {
    let (len, ll) = match src.below(10) {
        0 => (0, "0"),
        1 => (1, "1"),
        2 => (2, "2"),
        3 => (254, "254"),
        4 => (255, "255"),
        5 => (src.urange(100, 253), "100..253"),
        6 => (src.urange(3, 24), "3..24"),
        _ => (src.urange(3, 99), "3..99"),
    };
    // printable ASCII by default; one class uses every non-NUL ASCII code (control characters,
    // DEL), which `HybridConversionInfo::new` accepts as well
    let any_ascii = src.chance(1, 6);
    // the characters come from a generator seeded by one choice (a 255-character domain must not
    // use up the choice sequence)
    use rand::Rng as _;
    let mut rng = StdRng::seed_from_u64(src.seed());
    let mut d = Vec::with_capacity(len);
    for _ in 0..len {
        let c: u8 = if any_ascii { rng.gen_range(1..=127) } else { rng.gen_range(0x21..=0x7e) };
        d.push(c);
    }
    (d, format!("domain-len:{ll}{}", if any_ascii { ":any-ascii" } else { "" }))
}

fn gen_spec(src: &mut Src<'_>) -> Spec {
    let conv = src.bool();
    let mut labels = vec![if conv { "kind:conversion".to_string() } else { "kind:impression".to_string() }];
    let mk = (src.bits_val(64) as u64, src.bits_val(64) as u64);
    let small = if conv { (src.bits_val(3) as u8, src.bits_val(3) as u8) } else { (src.bits_val(8) as u8, src.bits_val(8) as u8) };
    let nkeys = src.urange(1, 4);
    let lookup_key = src.idx(nkeys) as u8;
    // the key id inside the info normally repeats the lookup id; the API lets them differ
    let (info_key, kl) = match src.below(8) {
        0 => (src.below(256) as u8, "info-key:independent"),
        1 => (255, "info-key:255"),
        _ => (lookup_key, "info-key:same"),
    };
    labels.push(kl.into());
    labels.push(format!("keys:{nkeys}"));
    let (domain, dl) = if conv { gen_domain(src) } else { (vec![], "domain-len:n/a".into()) };
    let (ts, tl) = gen_ts(src);
    let (eps, el) = gen_f64(src);
    let (sens, sl) = gen_f64(src);
    if conv {
        labels.push(dl);
        labels.push(format!("ts:{tl}"));
        labels.push(format!("eps:{el}"));
        labels.push(format!("sens:{sl}"));
    }
    Spec { conv, mk, small, nkeys, lookup_key, info_key, domain, ts, eps, sens, key_seed: src.seed(), enc_seed: src.seed(), labels }
}

fn build_report(s: &Spec) -> Report {
    let match_key = AdditiveShare::new(BA64::truncate_from(s.mk.0), BA64::truncate_from(s.mk.1));
    if s.conv {
        HybridReport::Conversion(HybridConversionReport::<BA3> {
            match_key,
            value: AdditiveShare::new(BA3::truncate_from(s.small.0), BA3::truncate_from(s.small.1)),
            info: HybridConversionInfo::new(
                s.info_key,
                std::str::from_utf8(&s.domain).expect("generated domains are ASCII"),
                s.ts,
                f64::from_bits(s.eps),
                f64::from_bits(s.sens),
            )
            .expect("generated domains are ASCII"),
        })
    } else {
        HybridReport::Impression(HybridImpressionReport::<BA8> {
            match_key,
            breakdown_key: AdditiveShare::new(BA8::truncate_from(s.small.0), BA8::truncate_from(s.small.1)),
            info: HybridImpressionInfo::new(s.info_key),
        })
    }
}

fn registry(nkeys: usize, seed: u64) -> Registry {
    KeyRegistry::<KeyPair>::random(nkeys, &mut StdRng::seed_from_u64(seed))
}

/// bit-exact comparison (f64 fields by bit pattern: NaN metadata must survive, too)
fn same_report(a: &Report, b: &Report) -> bool {
    match (a, b) {
        (HybridReport::Impression(x), HybridReport::Impression(y)) => {
            x.match_key == y.match_key && x.breakdown_key == y.breakdown_key && x.info.key_id == y.info.key_id
        }
        (HybridReport::Conversion(x), HybridReport::Conversion(y)) => {
            x.match_key == y.match_key
                && x.value == y.value
                && x.info.key_id == y.info.key_id
                && x.info.conversion_site_domain == y.info.conversion_site_domain
                && x.info.timestamp == y.info.timestamp
                && x.info.epsilon.to_bits() == y.info.epsilon.to_bits()
                && x.info.sensitivity.to_bits() == y.info.sensitivity.to_bits()
        }
        _ => false,
    }
}

fn hex(b: &[u8]) -> String {
    let mut s = String::with_capacity(2 * b.len());
    for x in b {
        s.push_str(&format!("{x:02x}"));
    }
    s
}

struct World {
    spec: Spec,
    reg: Registry,
    report: Report,
    /// record as submitted: event byte + encrypted report
    rec: Vec<u8>,
}

impl World {
    fn new(spec: Spec) -> Result<Self, CaseErr> {
        layout_sanity().map_err(|e| violation("harness-layout", e, json!({})))?;
        let reg = registry(spec.nkeys, spec.key_seed);
        let report = build_report(&spec);
        let mut rng = StdRng::seed_from_u64(spec.enc_seed);
        let rec = report
            .encrypt(spec.lookup_key, &reg, &mut rng)
            .map_err(|e| violation("encrypt-failed", format!("encrypting a valid report failed: {e}"), json!({"spec": format!("{spec:?}")})))?;
        let expect_len = 1 + INFO_OFF + if spec.conv { spec.domain.len() + 26 } else { 1 };
        if rec.len() != expect_len || usize::from(report.encrypted_len()) != expect_len {
            return Err(violation(
                "encrypted-length",
                format!("encrypted record has {} bytes, encrypted_len() says {}, layout says {expect_len}", rec.len(), report.encrypted_len()),
                json!({"spec": format!("{spec:?}")}),
            ));
        }
        Ok(Self { spec, reg, report, rec })
    }

    fn case_json(&self, what: &str, input: &[u8]) -> Value {
        let sks: Vec<String> = (0..self.spec.nkeys)
            .map(|i| {
                use crate::hpke::Serializable as _;
                hex(&self.reg.private_key(i as u8).unwrap().to_bytes())
            })
            .collect();
        json!({
            "edit": what,
            "input_record_hex": hex(input),
            "original_record_hex": hex(&self.rec),
            "private_keys_hex": sks,
            "registry": {"keys": self.spec.nkeys, "rng": "StdRng::seed_from_u64", "seed": self.spec.key_seed.to_string()},
            "report": format!("{:?}", self.report),
        })
    }

    fn region(&self, off: usize) -> &'static str {
        region(self.spec.conv, self.spec.domain.len(), true, off)
    }
}

enum Out {
    Ok(Report),
    Err(String),
    Panic(String, String),
}

/// What the query runner does with one record: `EncryptedHybridReport::try_from(Bytes)` then `decrypt`.
fn attempt<R: PrivateKeyRegistry>(bytes: &[u8], reg: &R) -> Out {
    let b = Bytes::copy_from_slice(bytes);
    match catch(|| EncryptedHybridReport::<BA8, BA3>::try_from(b).and_then(|e| e.decrypt(reg))) {
        Ok(Ok(r)) => Out::Ok(r),
        Ok(Err(e)) => Out::Err(e.to_string()),
        Err((loc, msg)) => Out::Panic(loc, msg),
    }
}

// ------------------------------------------------------------------------------------------
// panic classification
// ------------------------------------------------------------------------------------------

static SITES: Mutex<BTreeMap<String, (bool, String)>> = Mutex::new(BTreeMap::new());

fn panic_kind(msg: &str) -> &'static str {
    if msg.contains("not enough delimiters") {
        "no-delimiter"
    } else if msg.contains("index out of bounds") {
        "index"
    } else if msg.contains("range end index") || msg.contains("range start index") || msg.contains("out of range for slice") || msg.contains("slice index") {
        "slice"
    } else if msg.contains("called `Result::unwrap()`") || msg.contains("called `Option::unwrap()`") {
        "unwrap"
    } else if msg.contains("assertion") {
        "assert"
    } else {
        "other"
    }
}

/// `(is debug_assert, "Type::function")` of a panic location inside the repository, read from the source
fn site(loc: &str) -> (bool, String) {
    if let Some(v) = SITES.lock().unwrap().get(loc) {
        return v.clone();
    }
    let dbg = is_debug_assert_location(loc);
    let mut name = String::from("?");
    if let Some((file, line)) = loc.rsplit_once(':') {
        let root = std::env::var("VERIF_REPO").unwrap_or_else(|_| "/repo".into());
        let path = if file.starts_with('/') { file.to_string() } else { format!("{root}/{file}") };
        if let (Ok(line), Ok(txt)) = (line.parse::<usize>(), std::fs::read_to_string(path)) {
            let lines: Vec<&str> = txt.lines().collect();
            let mut f = None;
            let mut ty = None;
            for l in lines[..line.min(lines.len())].iter().rev() {
                let t = l.trim_start();
                if f.is_none() {
                    if let Some(p) = t.find("fn ") {
                        let head = &t[..p];
                        if head.is_empty() || head.trim_end().ends_with("pub") || head.contains("pub(") || head.trim_end().ends_with("async") || head.trim_end().ends_with("const") {
                            let rest = &t[p + 3..];
                            let end = rest.find(|c: char| !(c.is_alphanumeric() || c == '_')).unwrap_or(rest.len());
                            f = Some(rest[..end].to_string());
                        }
                    }
                } else if l.starts_with("impl") {
                    // `impl<..> Type<..>` or `impl<..> Trait for Type<..>`
                    let body = l.split(" where").next().unwrap_or(l);
                    let target = body.rsplit(" for ").next().unwrap_or(body);
                    let target = target.trim_start_matches("impl").trim();
                    // skip generic parameter list of `impl<...>`
                    let target = if target.starts_with('<') {
                        let mut depth = 0;
                        let mut idx = 0;
                        for (i, c) in target.char_indices() {
                            match c {
                                '<' => depth += 1,
                                '>' => {
                                    depth -= 1;
                                    if depth == 0 {
                                        idx = i + 1;
                                        break;
                                    }
                                }
                                _ => {}
                            }
                        }
                        target[idx..].trim()
                    } else {
                        target
                    };
                    let end = target.find(|c: char| !(c.is_alphanumeric() || c == '_')).unwrap_or(target.len());
                    ty = Some(target[..end].to_string());
                    break;
                }
            }
            name = match (ty, f) {
                (Some(t), Some(f)) => format!("{t}::{f}"),
                (None, Some(f)) => f,
                _ => "?".into(),
            };
        }
    }
    SITES.lock().unwrap().insert(loc.to_string(), (dbg, name.clone()));
    (dbg, name)
}

/// Classify a panic; listed known findings are counted and the search continues.
fn on_panic(env: &Env, loc: &str, msg: &str, case: impl FnOnce() -> Value) -> Result<&'static str, CaseErr> {
    let file = loc_file(loc);
    let (dbg, name) = site(loc);
    if dbg {
        known_or_violation(
            env,
            &format!("debug-panic:{file}"),
            format!("debug-only panic (debug_assert!, absent from production builds) at {loc} in {name}: {msg}"),
            case(),
        )?;
        Ok("debug-panic")
    } else {
        known_or_violation(env, &format!("panic:{file}:{name}:{}", panic_kind(msg)), format!("panic at {loc} in {name}: {msg}"), case())?;
        Ok("panic")
    }
}

/// An edited record must give `Err`.
fn expect_rejected(env: &Env, w: &World, edited: &[u8], what: &str, region: &str, out: Out) -> Result<&'static str, CaseErr> {
    match out {
        Out::Err(_) => Ok("err"),
        Out::Ok(r) => {
            let same = same_report(&r, &w.report);
            let sig = if same { format!("tamper-ignored:{region}") } else { format!("tamper-accepted:{region}") };
            known_or_violation(
                env,
                &sig,
                format!(
                    "{what}: decryption of an edited record returned Ok({}): {r:?}",
                    if same { "the original report" } else { "a DIFFERENT report" }
                ),
                w.case_json(what, edited),
            )?;
            Ok("accepted-known")
        }
        Out::Panic(loc, msg) => on_panic(env, &loc, &msg, || w.case_json(what, edited)),
    }
}

fn expect_original(env: &Env, w: &World, input: &[u8], what: &str, out: Out) -> Result<(), CaseErr> {
    match out {
        Out::Ok(r) if same_report(&r, &w.report) => Ok(()),
        Out::Ok(r) => Err(violation("roundtrip-different", format!("{what}: untouched record decrypts to a different report: {r:?}"), w.case_json(what, input))),
        Out::Err(e) => known_or_violation(env, "roundtrip-rejected", format!("{what}: untouched record is rejected: {e}"), w.case_json(what, input)),
        Out::Panic(loc, msg) => on_panic(env, &loc, &msg, || w.case_json(what, input)).map(|_| ()),
    }
}

struct Tally(BTreeMap<String, u64>);
impl Tally {
    fn new() -> Self {
        Self(BTreeMap::new())
    }
    fn add(&mut self, k: String) {
        *self.0.entry(k).or_default() += 1;
    }
    fn into_labels(self) -> Vec<String> {
        let mut v = vec![];
        for (k, n) in self.0 {
            for _ in 0..n {
                v.push(k.clone());
            }
        }
        v
    }
}

fn finish(w: &World, tally: Tally, extra: Value) -> CaseResult {
    let d = digest(&(&w.rec, &w.spec.key_seed));
    let mut sample = json!({
        "kind": if w.spec.conv {"conversion"} else {"impression"}, "record_len": w.rec.len(), "domain_len": w.spec.domain.len(),
        "keys": w.spec.nkeys, "lookup_key": w.spec.lookup_key, "info_key": w.spec.info_key,
        "timestamp": w.spec.ts.to_string(), "epsilon_bits": format!("{:#x}", w.spec.eps), "sensitivity_bits": format!("{:#x}", w.spec.sens),
    });
    if let (Some(o), Some(e)) = (sample.as_object_mut(), extra.as_object()) {
        for (k, v) in e {
            o.insert(k.clone(), v.clone());
        }
    }
    Ok(CaseOk::new(true, &d, sample).labels(w.spec.labels.clone()).labels(tally.into_labels()))
}

// ------------------------------------------------------------------------------------------
// sub-check: untouched records decrypt to exactly the original
// ------------------------------------------------------------------------------------------

fn roundtrip(env: &Env, src: &mut Src<'_>) -> CaseResult {
    let w = World::new(gen_spec(src))?;
    let mut t = Tally::new();
    // the path the query runner takes
    expect_original(env, &w, &w.rec, "untouched record through EncryptedHybridReport", attempt(&w.rec, &w.reg))?;
    t.add("path:generic".into());
    // the typed path (no event byte)
    let typed = &w.rec[1..];
    let out = match catch(|| -> Result<Report, String> {
        if w.spec.conv {
            EncryptedHybridConversionReport::<BA3>::from_bytes(Bytes::copy_from_slice(typed))
                .and_then(|e| e.decrypt(&w.reg))
                .map(HybridReport::Conversion)
                .map_err(|e| e.to_string())
        } else {
            EncryptedHybridImpressionReport::<BA8>::from_bytes(Bytes::copy_from_slice(typed))
                .and_then(|e| e.decrypt(&w.reg))
                .map(HybridReport::Impression)
                .map_err(|e| e.to_string())
        }
    }) {
        Ok(Ok(r)) => Out::Ok(r),
        Ok(Err(e)) => Out::Err(e),
        Err((l, m)) => Out::Panic(l, m),
    };
    expect_original(env, &w, typed, "untouched record through the typed Encrypted*Report", out)?;
    t.add("path:typed".into());
    // encryption is randomised: a second encryption of the same report differs and decrypts, too
    let mut rng = StdRng::seed_from_u64(w.spec.enc_seed ^ 0x5555);
    let rec2 = w.report.encrypt(w.spec.lookup_key, &w.reg, &mut rng).map_err(|e| violation("encrypt-failed", e.to_string(), json!({})))?;
    if rec2 == w.rec {
        return Err(violation("encryption-deterministic", "two encryptions with different randomness are identical", w.case_json("second encryption", &rec2)));
    }
    expect_original(env, &w, &rec2, "second encryption of the same report", attempt(&rec2, &w.reg))?;
    // length-delimited form: u16 length prefix + the same record
    let mut framed = vec![];
    let mut rng = StdRng::seed_from_u64(w.spec.enc_seed);
    w.report.delimited_encrypt_to(w.spec.lookup_key, &w.reg, &mut rng, &mut framed).map_err(|e| violation("encrypt-failed", e.to_string(), json!({})))?;
    let len = usize::from(u16::from_le_bytes([framed[0], framed[1]]));
    if len != w.rec.len() || framed[2..] != w.rec[..] {
        return Err(violation(
            "delimited-layout",
            format!("delimited_encrypt_to wrote length {len} and {} bytes; encrypt() with the same randomness gives {} bytes", framed.len() - 2, w.rec.len()),
            w.case_json("delimited_encrypt_to", &framed),
        ));
    }
    t.add("path:delimited".into());
    finish(&w, t, json!({}))
}

// ------------------------------------------------------------------------------------------
// sub-check: validly sealed records with arbitrary plaintext bytes
// ------------------------------------------------------------------------------------------

/// HPKE base mode authenticates nobody: whoever knows the helper's public key can seal any
/// plaintext. The two sealed sections of an honest record are replaced by seals (same public
/// key, same info) of generated plaintext bytes - canonical share encodings, share bytes with
/// padding bits set, random bytes. Canonical plaintext must decrypt to exactly those shares,
/// everything else must be an error value; nothing may panic.
fn sealed_plaintext(env: &Env, src: &mut Src<'_>) -> CaseResult {
    use crate::hpke::{PublicKeyRegistry, Serializable as _, seal_in_place};
    let w = World::new(gen_spec(src))?;
    expect_original(env, &w, &w.rec, "untouched record", attempt(&w.rec, &w.reg))?;
    let mut t = Tally::new();
    let Some(pk) = w.reg.public_key(w.spec.lookup_key) else {
        return Err(violation("harness-no-key", "record decrypts but its key is not in the registry".to_string(), json!({})));
    };
    let info_enc: Box<[u8]> = match &w.report {
        HybridReport::Conversion(r) => r.info.to_enc_bytes(),
        HybridReport::Impression(r) => r.info.to_enc_bytes(),
    };
    let mut rng = StdRng::seed_from_u64(w.spec.enc_seed ^ 0x5ea1);
    let variants = 6;
    for _ in 0..variants {
        // plaintext of the match key section: any 16 bytes are two BA64 shares
        let mut mk = [0u8; MK];
        for b in &mut mk {
            *b = src.below(256) as u8;
        }
        // plaintext of the second section: one byte per share (BA8 for impressions, BA3 for conversions)
        let class = src.pick(&["canonical", "one-padding-bit", "random"]);
        let mut btt = [0u8; BTT];
        let small_bits = if w.spec.conv { 3 } else { 8 };
        for b in &mut btt {
            *b = (src.below(256) as u8) & (((1u16 << small_bits) - 1) as u8);
        }
        match class {
            "one-padding-bit" => {
                let which = src.idx(BTT);
                btt[which] |= 1 << (3 + src.below(5) as u8);
            }
            "random" => {
                for b in &mut btt {
                    *b = src.below(256) as u8;
                }
            }
            _ => {}
        }
        let canonical = !w.spec.conv || btt.iter().all(|b| *b < 8);
        // assemble: event byte | encap, ct, tag (match key) | encap, ct, tag (value) | key id | info
        let mut rec = w.rec.clone();
        let (mut p_mk, mut p_btt) = (mk, btt);
        {
            let (encap, ct, tag) = seal_in_place(pk, &mut p_mk, &info_enc, &mut rng).map_err(|e| violation("harness-seal", e.to_string(), json!({})))?;
            let mut o = 1;
            rec[o..o + ENC].copy_from_slice(&encap.to_bytes());
            o += ENC;
            rec[o..o + MK].copy_from_slice(ct);
            o += MK;
            rec[o..o + TAG].copy_from_slice(&tag.to_bytes());
        }
        {
            let (encap, ct, tag) = seal_in_place(pk, &mut p_btt, &info_enc, &mut rng).map_err(|e| violation("harness-seal", e.to_string(), json!({})))?;
            let mut o = 1 + ENC + MK + TAG;
            rec[o..o + ENC].copy_from_slice(&encap.to_bytes());
            o += ENC;
            rec[o..o + BTT].copy_from_slice(ct);
            o += BTT;
            rec[o..o + TAG].copy_from_slice(&tag.to_bytes());
        }
        let what = format!("validly sealed record with plaintext match key {} and share bytes {} ({class})", hex(&mk), hex(&btt));
        let out = attempt(&rec, &w.reg);
        if canonical {
            // must decrypt to exactly the sealed shares, with the original metadata
            let mkv = |b: &[u8]| BA64::truncate_from(u128::from(u64::from_le_bytes(b.try_into().unwrap())));
            let match_key = AdditiveShare::new(mkv(&mk[..8]), mkv(&mk[8..]));
            let want: Report = match &w.report {
                HybridReport::Conversion(r) => HybridReport::Conversion(HybridConversionReport::<BA3> {
                    match_key,
                    value: AdditiveShare::new(BA3::truncate_from(u128::from(btt[0])), BA3::truncate_from(u128::from(btt[1]))),
                    info: r.info.clone(),
                }),
                HybridReport::Impression(r) => HybridReport::Impression(HybridImpressionReport::<BA8> {
                    match_key,
                    breakdown_key: AdditiveShare::new(BA8::truncate_from(u128::from(btt[0])), BA8::truncate_from(u128::from(btt[1]))),
                    info: r.info.clone(),
                }),
            };
            match out {
                Out::Ok(r) if same_report(&r, &want) => t.add("sealed:canonical:ok".into()),
                Out::Ok(r) => return Err(violation("sealed-different", format!("{what}: decrypts to a different report: {r:?}"), w.case_json(&what, &rec))),
                Out::Err(e) => known_or_violation(env, "sealed-canonical-rejected", format!("{what}: rejected: {e}"), w.case_json(&what, &rec))?,
                Out::Panic(loc, msg) => {
                    on_panic(env, &loc, &msg, || w.case_json(&what, &rec))?;
                }
            }
        } else {
            match out {
                Out::Err(_) => t.add(format!("sealed:{class}:err")),
                Out::Ok(r) => known_or_violation(env, "sealed-noncanonical-accepted", format!("{what}: a share byte with padding bits set was accepted: {r:?}"), w.case_json(&what, &rec))?,
                Out::Panic(loc, msg) => {
                    on_panic(env, &loc, &msg, || w.case_json(&what, &rec))?;
                }
            }
        }
    }
    finish(&w, t, json!({"sealed_variants": variants}))
}

// ------------------------------------------------------------------------------------------
// sub-check: every single-bit flip
// ------------------------------------------------------------------------------------------

fn bitflips(env: &Env, src: &mut Src<'_>) -> CaseResult {
    let w = World::new(gen_spec(src))?;
    expect_original(env, &w, &w.rec, "untouched record", attempt(&w.rec, &w.reg))?;
    let mut t = Tally::new();
    let mut m = w.rec.clone();
    for off in 0..w.rec.len() {
        let reg = w.region(off);
        for bit in 0..8 {
            m[off] ^= 1 << bit;
            let what = format!("flip bit {bit} of byte {off} ({reg})");
            let o = expect_rejected(env, &w, &m, &what, reg, attempt(&m, &w.reg))?;
            t.add(format!("flip:{reg}:{o}"));
            m[off] ^= 1 << bit;
        }
    }
    let flips = w.rec.len() * 8;
    finish(&w, t, json!({"bit_flips": flips}))
}

// ------------------------------------------------------------------------------------------
// sub-check: every truncation length (and a few extensions)
// ------------------------------------------------------------------------------------------

fn truncations(env: &Env, src: &mut Src<'_>) -> CaseResult {
    let w = World::new(gen_spec(src))?;
    let mut t = Tally::new();
    for len in 0..w.rec.len() {
        let cut = &w.rec[..len];
        let reg = if len == 0 { "empty" } else { w.region(len) }; // region of the first missing byte
        let what = format!("truncate to {len} of {} bytes (first missing byte: {reg})", w.rec.len());
        let o = expect_rejected(env, &w, cut, &what, &format!("truncated-at:{reg}"), attempt(cut, &w.reg))?;
        t.add(format!("truncate:{reg}:{o}"));
    }
    // the typed entry points see the same record without the event byte
    for len in 0..w.rec.len() - 1 {
        let cut = &w.rec[1..1 + len];
        let reg = if len == 0 { "empty" } else { w.region(len + 1) };
        let out = match catch(|| -> Result<Report, String> {
            if w.spec.conv {
                EncryptedHybridConversionReport::<BA3>::from_bytes(Bytes::copy_from_slice(cut))
                    .and_then(|e| e.decrypt(&w.reg))
                    .map(HybridReport::Conversion)
                    .map_err(|e| e.to_string())
            } else {
                EncryptedHybridImpressionReport::<BA8>::from_bytes(Bytes::copy_from_slice(cut))
                    .and_then(|e| e.decrypt(&w.reg))
                    .map(HybridReport::Impression)
                    .map_err(|e| e.to_string())
            }
        }) {
            Ok(Ok(r)) => Out::Ok(r),
            Ok(Err(e)) => Out::Err(e),
            Err((l, m)) => Out::Panic(l, m),
        };
        let what = format!("typed record truncated to {len} of {} bytes (first missing byte: {reg})", w.rec.len() - 1);
        let o = expect_rejected(env, &w, cut, &what, &format!("truncated-at:{reg}"), out)?;
        t.add(format!("truncate-typed:{reg}:{o}"));
    }
    expect_original(env, &w, &w.rec, "full length", attempt(&w.rec, &w.reg))?;
    finish(&w, t, json!({"truncations": 2 * w.rec.len() - 1}))
}

// ------------------------------------------------------------------------------------------
// sub-check: bytes appended to a valid record
// ------------------------------------------------------------------------------------------

fn extensions(env: &Env, src: &mut Src<'_>) -> CaseResult {
    let w = World::new(gen_spec(src))?;
    let mut t = Tally::new();
    let kind = if w.spec.conv { "conversion" } else { "impression" };
    for (n, nl) in [(1usize, "1"), (2, "2"), (8, "8"), (26, "26"), (src.urange(3, 400), "random")] {
        for fill in 0..3 {
            let mut m = w.rec.clone();
            let extra: Vec<u8> = match fill {
                0 => vec![0; n],
                1 => src.bytes(n.min(64)).into_iter().cycle().take(n).collect(),
                _ => w.rec[1 + INFO_OFF..].iter().copied().cycle().take(n).collect(),
            };
            m.extend_from_slice(&extra);
            let what = format!("{n} byte(s) appended to a valid {kind} record ({})", ["zeros", "random", "copy of the info"][fill]);
            let o = match attempt(&m, &w.reg) {
                Out::Err(_) => "err",
                Out::Ok(r) if same_report(&r, &w.report) => {
                    known_or_violation(
                        env,
                        &format!("trailing-bytes-accepted:{kind}"),
                        format!("{what}: the longer record decrypts to the original report - the record is not the canonical encoding of any report, yet it is accepted"),
                        w.case_json(&what, &m),
                    )?;
                    "accepted-known"
                }
                Out::Ok(r) => {
                    known_or_violation(env, "tamper-accepted:trailing", format!("{what}: decrypts to a DIFFERENT report {r:?}"), w.case_json(&what, &m))?;
                    "accepted-known"
                }
                Out::Panic(loc, msg) => on_panic(env, &loc, &msg, || w.case_json(&what, &m))?,
            };
            t.add(format!("append:{kind}:{nl}:{o}"));
        }
    }
    finish(&w, t, json!({}))
}

// ------------------------------------------------------------------------------------------
// sub-check: key identifiers and foreign keys
// ------------------------------------------------------------------------------------------

fn keys(env: &Env, src: &mut Src<'_>) -> CaseResult {
    let w = World::new(gen_spec(src))?;
    let mut t = Tally::new();
    let key_off = 1 + KEY_OFF;
    let info_key_off = if w.spec.conv { 1 + INFO_OFF + w.spec.domain.len() + 1 } else { 1 + INFO_OFF };
    if w.rec[key_off] != w.spec.lookup_key || w.rec[info_key_off] != w.spec.info_key {
        return Err(violation("harness-layout", "key id bytes are not where the reference layout puts them", w.case_json("layout", &w.rec)));
    }
    // every other value of the key identifier used for the registry lookup
    let mut m = w.rec.clone();
    for v in 0..=255u8 {
        if v == w.spec.lookup_key {
            continue;
        }
        m[key_off] = v;
        let class = if usize::from(v) < w.spec.nkeys { "other-registered-key" } else { "unknown-key-id" };
        let o = expect_rejected(env, &w, &m, &format!("key identifier byte {} -> {v} ({class})", w.spec.lookup_key), "key-id", attempt(&m, &w.reg))?;
        t.add(format!("{class}:{o}"));
    }
    m[key_off] = w.spec.lookup_key;
    // every other value of the key identifier bound into the HPKE info
    for v in 0..=255u8 {
        if v == w.spec.info_key {
            continue;
        }
        m[info_key_off] = v;
        let o = expect_rejected(env, &w, &m, &format!("info key id byte {} -> {v}", w.spec.info_key), "info-key-id", attempt(&m, &w.reg))?;
        t.add(format!("info-key-id-changed:{o}"));
    }
    // foreign registries: same shape but different keys; fewer keys; none
    let foreign = registry(w.spec.nkeys, w.spec.key_seed ^ 0xdead_beef);
    let o = expect_rejected(env, &w, &w.rec, "decrypt with a registry of different keys", "foreign-key", attempt(&w.rec, &foreign))?;
    t.add(format!("foreign-registry:{o}"));
    let empty = KeyRegistry::<KeyPair>::empty();
    let o = expect_rejected(env, &w, &w.rec, "decrypt with an empty registry", "missing-key", attempt(&w.rec, &empty))?;
    t.add(format!("empty-registry:{o}"));
    if w.spec.lookup_key > 0 {
        let fewer = registry(usize::from(w.spec.lookup_key), w.spec.key_seed);
        let o = expect_rejected(env, &w, &w.rec, "decrypt with a registry that ends before the key id", "missing-key", attempt(&w.rec, &fewer))?;
        t.add(format!("shorter-registry:{o}"));
    }
    // a registry with the same keys in another order: the id now names another key
    if w.spec.nkeys >= 2 {
        let mut rng = StdRng::seed_from_u64(w.spec.key_seed);
        let mut ks: Vec<KeyPair> = (0..w.spec.nkeys).map(|_| KeyPair::r#gen(&mut rng)).collect();
        ks.rotate_left(1);
        let rotated = match ks.len() {
            2 => {
                let b = ks.pop().unwrap();
                let a = ks.pop().unwrap();
                KeyRegistry::from_keys([a, b])
            }
            3 => {
                let c = ks.pop().unwrap();
                let b = ks.pop().unwrap();
                let a = ks.pop().unwrap();
                KeyRegistry::from_keys([a, b, c])
            }
            _ => {
                let d = ks.pop().unwrap();
                let c = ks.pop().unwrap();
                let b = ks.pop().unwrap();
                let a = ks.pop().unwrap();
                KeyRegistry::from_keys([a, b, c, d])
            }
        };
        let o = expect_rejected(env, &w, &w.rec, "decrypt with the same keys registered under rotated ids", "foreign-key", attempt(&w.rec, &rotated))?;
        t.add(format!("rotated-registry:{o}"));
    }
    expect_original(env, &w, &w.rec, "untouched record", attempt(&w.rec, &w.reg))?;
    finish(&w, t, json!({}))
}

// ------------------------------------------------------------------------------------------
// sub-check: event type byte
// ------------------------------------------------------------------------------------------

fn event_type(env: &Env, src: &mut Src<'_>) -> CaseResult {
    let w = World::new(gen_spec(src))?;
    let mut t = Tally::new();
    let orig = w.rec[0];
    if orig != u8::from(w.spec.conv) {
        return Err(violation("event-byte", format!("event byte of a {} report is {orig}", if w.spec.conv { "conversion" } else { "impression" }), w.case_json("layout", &w.rec)));
    }
    let mut m = w.rec.clone();
    for v in 0..=255u8 {
        if v == orig {
            continue;
        }
        m[0] = v;
        let class = if v <= 1 { "swapped" } else { "unknown" };
        let o = expect_rejected(env, &w, &m, &format!("event type byte {orig} -> {v}"), "event", attempt(&m, &w.reg))?;
        t.add(format!("event-{class}:{o}"));
    }
    // a record of the other kind spliced behind this event byte, and this body behind the other
    // record's event byte, both encrypted to the same keys
    let mut other_spec = w.spec.clone();
    other_spec.conv = !w.spec.conv;
    if other_spec.conv && other_spec.domain.is_empty() {
        other_spec.domain = b"example.com".to_vec();
    }
    other_spec.small = (other_spec.small.0 & 7, other_spec.small.1 & 7);
    other_spec.enc_seed ^= 0x77;
    let w2 = World::new(other_spec)?;
    let mut spliced = vec![w.rec[0]];
    spliced.extend_from_slice(&w2.rec[1..]);
    let o = expect_rejected(env, &w, &spliced, "valid record of the other kind behind this event type byte", "event", attempt(&spliced, &w.reg))?;
    t.add(format!("event-splice:{o}"));
    finish(&w, t, json!({}))
}

// ------------------------------------------------------------------------------------------
// sub-check: garbage records
// ------------------------------------------------------------------------------------------

fn garbage(env: &Env, src: &mut Src<'_>) -> CaseResult {
    let w = World::new(gen_spec(src))?;
    let mut t = Tally::new();
    let full = w.rec.len();
    let (len, ll) = match src.below(12) {
        0 => (0, "0"),
        1 => (1, "1"),
        2 => (2, "2"),
        3 => (1 + INFO_OFF - 1, "min-1"),
        4 => (1 + INFO_OFF, "min"),
        5 => (1 + INFO_OFF + 1, "min+1"),
        6 => (full, "same-as-valid"),
        7 => (src.urange(3, 1 + INFO_OFF), "short"),
        8 => (src.urange(1 + INFO_OFF, 1 + INFO_OFF + 300), "long-enough"),
        9 => (src.urange(600, 70_000), "huge"),
        _ => (src.urange(0, 400), "any"),
    };
    let mut g = src.bytes(len.min(700));
    g.resize(len, 0xa5);
    // make the interesting header bytes plausible in a share of the cases, so that parsing goes deep
    let shape = src.below(6);
    let sl = match shape {
        0 => "raw",
        1 => {
            if len > 0 {
                g[0] = 0;
            }
            "event=impression"
        }
        2 => {
            if len > 0 {
                g[0] = 1;
            }
            "event=conversion"
        }
        3 => {
            if len > 0 {
                g[0] = src.below(2) as u8;
            }
            if len > 1 + KEY_OFF {
                g[1 + KEY_OFF] = w.spec.lookup_key;
            }
            "event+key-id valid"
        }
        4 => {
            // valid ciphertext prefix, garbage info
            let n = g.len().min(1 + INFO_OFF).min(w.rec.len());
            g[..n].copy_from_slice(&w.rec[..n]);
            // the first info byte differs from the valid one, so that this is never "valid record +
            // trailing bytes" (that family is the `extensions` sub-check)
            if g.len() > 1 + INFO_OFF && g[1 + INFO_OFF] == w.rec[1 + INFO_OFF] {
                g[1 + INFO_OFF] ^= 0x80;
            }
            "valid-ciphertext+garbage-info"
        }
        _ => {
            // all zero / all ones
            let v = if src.bool() { 0xff } else { 0 };
            g.iter_mut().for_each(|b| *b = v);
            if len > 0 && src.bool() {
                g[0] = src.below(2) as u8;
            }
            "constant"
        }
    };
    if g == w.rec {
        return Err(CaseErr::Reject("garbage equals the valid record".into()));
    }
    let what = format!("garbage record of {len} bytes ({sl})");
    let o = expect_rejected(env, &w, &g, &what, "garbage", attempt(&g, &w.reg))?;
    t.add(format!("garbage-len:{ll}"));
    t.add(format!("garbage-shape:{sl}:{o}"));
    let d = digest(&g);
    Ok(CaseOk::new(true, &d, json!({"len": len, "shape": sl, "outcome": o})).labels(t.into_labels()))
}

// ------------------------------------------------------------------------------------------
// sub-check: NUL inside the site domain (accepted by the constructor, ASCII)
// ------------------------------------------------------------------------------------------

fn nul_domain(env: &Env, src: &mut Src<'_>) -> CaseResult {
    let mut spec = gen_spec(src);
    spec.conv = true;
    spec.small = (spec.small.0 & 7, spec.small.1 & 7);
    if spec.domain.is_empty() {
        spec.domain = b"a.example".to_vec();
    }
    let pos = src.idx(spec.domain.len());
    spec.domain[pos] = 0;
    spec.labels = vec![format!("nul-at:{}", if pos == 0 { "start" } else if pos + 1 == spec.domain.len() { "end" } else { "middle" })];
    let w = World::new(spec)?;
    let mut t = Tally::new();
    let fails = |how: String| -> Result<(), CaseErr> {
        known_or_violation(
            env,
            "roundtrip-fails:nul-in-domain",
            format!("HybridConversionInfo::new accepts a site domain containing NUL (it only demands ASCII) and encryption succeeds, but the untouched record does not decrypt to the original: {how}"),
            w.case_json("none (site domain contains NUL)", &w.rec),
        )
    };
    match attempt(&w.rec, &w.reg) {
        Out::Ok(r) if same_report(&r, &w.report) => t.add("nul-domain:roundtrip-ok".into()),
        Out::Ok(r) => {
            fails(format!("decrypts to a different report {r:?}"))?;
            t.add("nul-domain:different-known".into());
        }
        Out::Err(e) => {
            fails(format!("rejected with {e}"))?;
            t.add("nul-domain:rejected-known".into());
        }
        Out::Panic(loc, msg) if site(&loc).0 => {
            fails(format!("debug_assert at {loc} fires ({msg}); without debug assertions the first NUL is taken as the delimiter, the remaining fields are read shifted and the HPKE info no longer matches"))?;
            t.add("nul-domain:debug-panic-known".into());
        }
        Out::Panic(loc, msg) => {
            let o = on_panic(env, &loc, &msg, || w.case_json("none (site domain contains NUL)", &w.rec))?;
            t.add(format!("nul-domain:{o}"));
        }
    }
    finish(&w, t, json!({"nul_at": pos}))
}

// ------------------------------------------------------------------------------------------
// sub-check: the same through LengthDelimitedStream framing
// ------------------------------------------------------------------------------------------

#[derive(Debug, Clone, Copy, PartialEq)]
enum Frame {
    Valid,
    Tampered,
    GarbageLong,
    Zero,
    Short,
    BadEvent,
}

fn stream_frames(env: &Env, src: &mut Src<'_>) -> CaseResult {
    let w = World::new(gen_spec(src))?;
    let mut t = Tally::new();
    let nframes = src.urange(1, 5);
    let mut kinds = vec![];
    let mut bodies: Vec<Vec<u8>> = vec![];
    let mut originals: Vec<Option<Report>> = vec![];
    for i in 0..nframes {
        let k = match src.below(10) {
            0 => Frame::Zero,
            1 => Frame::Short,
            2 => Frame::GarbageLong,
            3 => Frame::Tampered,
            4 => Frame::BadEvent,
            _ => Frame::Valid,
        };
        // each valid frame is its own report (fresh encryption, alternating kind)
        let mut s = w.spec.clone();
        s.enc_seed = w.spec.enc_seed.wrapping_add(i as u64 + 1);
        if i % 2 == 1 {
            s.conv = !s.conv;
            s.small = (s.small.0 & 7, s.small.1 & 7);
        }
        let wi = World::new(s)?;
        let (body, orig) = match k {
            Frame::Valid => (wi.rec.clone(), Some(wi.report.clone())),
            Frame::Tampered => {
                let mut b = wi.rec.clone();
                let off = 1 + src.idx(b.len() - 1);
                b[off] ^= 1 << src.below(8);
                (b, None)
            }
            Frame::GarbageLong => {
                let n = 1 + INFO_OFF + src.urange(1, 60);
                let mut b = src.bytes(n);
                b[0] = src.below(2) as u8;
                (b, None)
            }
            Frame::Zero => (vec![], None),
            Frame::Short => {
                let n = src.urange(1, INFO_OFF);
                let mut b = src.bytes(n);
                b[0] = src.below(2) as u8;
                (b, None)
            }
            Frame::BadEvent => {
                let mut b = wi.rec.clone();
                b[0] = src.range(2, 255) as u8;
                (b, None)
            }
        };
        t.add(format!("frame:{k:?}"));
        kinds.push(k);
        bodies.push(body);
        originals.push(orig);
    }
    // stream tail
    let tail = src.below(8);
    let mut data = vec![];
    for b in &bodies {
        data.extend_from_slice(&(b.len() as u16).to_le_bytes());
        data.extend_from_slice(b);
    }
    let tl = match tail {
        0 => {
            data.push(7);
            "half-length-prefix"
        }
        1 => {
            let l = src.urange(2, 500);
            data.extend_from_slice(&(l as u16).to_le_bytes());
            let have = src.idx(l);
            data.extend(std::iter::repeat_n(1u8, have));
            "frame-longer-than-body"
        }
        2 => {
            data.extend_from_slice(&0xffffu16.to_le_bytes());
            "max-length-no-body"
        }
        _ => "clean",
    };
    t.add(format!("tail:{tl}"));
    // chunking
    let mut chunks: Vec<Vec<u8>> = vec![];
    let mode = src.below(4);
    let mut rest = &data[..];
    while !rest.is_empty() {
        let n = match mode {
            0 => rest.len(),
            1 => 1,
            2 => src.urange(1, 7),
            _ => src.urange(1, 200),
        }
        .min(rest.len());
        chunks.push(rest[..n].to_vec());
        rest = &rest[n..];
    }
    t.add(format!("chunking:{}", ["single", "bytewise", "tiny", "medium"][mode as usize]));

    // reference: the frames a parser may deliver are the leading ones that pass the (cheap)
    // structural test of `EncryptedHybridReport::from_bytes`
    // (how strict the structural test is - e.g. whether a record too short to hold its metadata
    // is refused by the parser or only later by the decryptor - is the code's choice; the
    // oracle only uses what can never be a report and what certainly is one)
    let impossible = |k: &Frame| matches!(k, Frame::Zero | Frame::Short | Frame::BadEvent);
    let deliverable = kinds.iter().take_while(|k| !impossible(k)).count();
    let all_valid = kinds.iter().all(|k| matches!(k, Frame::Valid)) && tl == "clean";
    let must_error = kinds.iter().any(impossible) || tl != "clean";

    let case = || {
        json!({
            "stream_hex": hex(&data), "chunk_sizes": chunks.iter().map(Vec::len).collect::<Vec<_>>(),
            "frames": kinds.iter().map(|k| format!("{k:?}")).collect::<Vec<_>>(), "tail": tl,
            "registry": {"keys": w.spec.nkeys, "seed": w.spec.key_seed.to_string()},
        })
    };

    let delivered = std::cell::RefCell::new(Vec::<EncryptedHybridReport<BA8, BA3>>::new());
    let ended = std::cell::Cell::new(0u8); // 0 = still running, 1 = clean end, 2 = error item
    let run = catch(|| {
        block_on(async {
            let input = futures::stream::iter(chunks.clone().into_iter().map(|c| Ok::<_, BoxError>(Bytes::from(c))));
            let mut s = LengthDelimitedStream::<EncryptedHybridReport<BA8, BA3>, _>::new(input);
            loop {
                match s.next().await {
                    None => {
                        ended.set(1);
                        break;
                    }
                    Some(Ok(items)) => delivered.borrow_mut().extend(items),
                    Some(Err(_)) => {
                        ended.set(2);
                        break;
                    }
                }
            }
        })
    });
    let mut outcome = "ok";
    if let Err((loc, msg)) = run {
        outcome = on_panic(env, &loc, &msg, case)?;
    } else {
        let n = delivered.borrow().len();
        if n > deliverable {
            return Err(violation("stream-delivers-invalid-frame", format!("{n} records delivered, but frame {deliverable} can never be a report (empty, shorter than the fixed-size fields, or unknown event type)"), case()));
        }
        if all_valid && (ended.get() != 1 || n != bodies.len()) {
            return Err(violation("stream-loses-records", format!("stream of {} valid reports: {n} delivered, end state {}", bodies.len(), ended.get()), case()));
        }
        if must_error && ended.get() != 2 {
            known_or_violation(
                env,
                "stream-error-swallowed",
                format!("malformed stream (frames {kinds:?}, tail {tl}) ended without an error item after {n} records"),
                case(),
            )?;
        }
    }
    // every delivered record is frame i; decrypting it gives the original for valid frames, Err otherwise
    for (i, enc) in delivered.borrow().iter().enumerate() {
        let out = match catch(|| enc.decrypt(&w.reg)) {
            Ok(Ok(r)) => Out::Ok(r),
            Ok(Err(e)) => Out::Err(e.to_string()),
            Err((l, m)) => Out::Panic(l, m),
        };
        match (&originals[i], out) {
            (Some(orig), Out::Ok(r)) if same_report(orig, &r) => {}
            (Some(_), Out::Ok(r)) => return Err(violation("stream-roundtrip-different", format!("frame {i} decrypts to a different report {r:?}"), case())),
            (Some(_), Out::Err(e)) => return Err(violation("stream-roundtrip-rejected", format!("valid frame {i} is rejected: {e}"), case())),
            (None, Out::Err(_)) => {}
            (None, Out::Ok(r)) => {
                known_or_violation(env, "tamper-accepted:stream-frame", format!("frame {i} ({:?}) decrypts to {r:?}", kinds[i]), case())?;
            }
            (_, Out::Panic(l, m)) => {
                on_panic(env, &l, &m, case)?;
            }
        }
    }
    t.add(format!("stream-outcome:{outcome}"));
    t.add(format!("delivered:{}", delivered.borrow().len().min(5)));
    let d = digest(&(&data, chunks.len()));
    Ok(CaseOk::new(true, &d, json!({"frames": kinds.iter().map(|k| format!("{k:?}")).collect::<Vec<_>>(), "tail": tl, "chunks": chunks.len(), "bytes": data.len()}))
        .labels(t.into_labels()))
}

pub fn subs(_env: &Env) -> Vec<Sub> {
    vec![
        Sub::random("roundtrip", 96, 3_000, 100_000, roundtrip,
            "generated impression/conversion reports (BA8 breakdown key / BA3 value, boundary-biased shares; site domain length {0,1,2,254,255,random}, printable or any non-NUL ASCII; timestamp {0,1,2^63,u64::MAX,..}; epsilon/sensitivity {0,-0,subnormal,inf,NaN(+payload),max,random bits}; 1..4 registered keys, info key id equal to or independent of the lookup id) encrypted with a per-case registry: the record decrypts through the runner's path and the typed path to exactly the original (floats compared by bit pattern), has the advertised length, a second encryption differs and decrypts, delimited form = u16 length + record; every case is non-trivial")
            .shrink_iters(100),
        Sub::random("sealed_plaintext", 160, 1_500, 60_000, sealed_plaintext,
            "an adversarial but well-formed sender: the two sealed sections of an honest record are replaced by valid HPKE seals (same public key and info, so both AEAD tags verify) of generated plaintext - canonical shares, share bytes with one padding bit set, random bytes; canonical plaintext must decrypt to exactly those shares with the original metadata, anything else must be an error value, nothing may panic; 6 variants per record"),
        Sub::random("bitflips", 96, 480, 20_000, bitflips,
            "one case = one generated report x EVERY single-bit flip at every byte offset of the submitted record (event byte, both encapsulated keys, both ciphertexts, both tags, key id, info bytes); each flipped record must give Err - Ok(original) = tamper-ignored, Ok(other) = tamper-accepted, panic = crash; classes count flips per region and outcome")
            .shrink_iters(40),
        Sub::random("truncations", 96, 480, 20_000, truncations,
            "one case = one generated report x every truncation length 0..len of the submitted record through EncryptedHybridReport and of the typed record through Encrypted{Impression,Conversion}Report; all must give Err, none may panic; classes name the first missing region")
            .shrink_iters(40),
        Sub::random("extensions", 96, 400, 20_000, extensions,
            "one case = one report x {1,2,8,26,random<=400} bytes {zeros, random, copy of the info} appended to the valid record: the longer string is not the encoding of any report and must give Err")
            .shrink_iters(40),
        Sub::random("keys", 96, 240, 10_000, keys,
            "one case = one report x all 255 other values of the lookup key-id byte, all 255 other values of the info key-id byte, a registry of different keys, an empty registry, a registry that ends before the id, the same keys under rotated ids; all must give Err")
            .shrink_iters(40),
        Sub::random("event_type", 96, 240, 10_000, event_type,
            "one case = one report x all 255 other values of the event-type byte (swap impression<->conversion, unknown types) and a valid record of the other kind behind this event byte; all must give Err")
            .shrink_iters(40),
        Sub::random("garbage", 256, 60_000, 3_000_000, garbage,
            "random records of length {0,1,2,min-1,min,min+1,same as valid,short,long,up to 70 kB}: raw, with a valid event byte, with valid event+key id, valid ciphertext prefix + garbage info, constant bytes; must give Err, never Ok or a panic"),
        Sub::random("nul_domain", 96, 200, 5_000, nul_domain,
            "conversion reports whose site domain contains a NUL byte (accepted by HybridConversionInfo::new, which only demands ASCII): the untouched record must still decrypt to the original")
            .shrink_iters(40),
        Sub::random("stream_frames", 600, 4_000, 200_000, stream_frames,
            "1..5 length-delimited frames {valid, bit-flipped, long garbage, zero-length, shorter than the minimum, unknown event type} + tail {clean, half a length prefix, frame longer than the body, 0xffff without body} cut into {one, 1-byte, tiny, medium} chunks through LengthDelimitedStream<EncryptedHybridReport>: no panic; delivered records are exactly the leading structurally valid frames in order, valid ones decrypt to the original, others give Err; a malformed stream ends with an error item, a well-formed one delivers everything")
            .shrink_iters(100),
    ]
}
