// C12 - privacy noise and dummy records follow the documented (epsilon, delta) law.
//
// Oracles (all written here, none uses the closed forms of the code under test):
//  * the normalised pmf  p(x) = exp(-eps*|x-n|) / Z  on 0..=2n, summed term by term (`Law`);
//  * rigorous finite-sample tests of a sample against that pmf (Chernoff bound per cell, prefix
//    and suffix; likelihood-ratio statistic with the Gamma(k-1) moment bound) - no asymptotics,
//    so the false-alarm probability is bounded, not estimated;
//  * a scripted `RngCore` that forces every support point through the real sampler;
//  * share reconstruction / consistency by XOR of the raw replicated shares;
//  * a twin `TestWorld` with the same seed that redraws the three pairwise PRSS streams.

use std::sync::{Mutex, OnceLock};

use ::rand::{Rng as _, SeedableRng, rngs::StdRng};
use rand_core::{CryptoRng, RngCore};
use serde_json::{Value, json};

use super::common::*;
use crate::{
    error::Error,
    ff::{
        U128Conversions,
        boolean::Boolean,
        boolean_array::{BA3, BA5, BA8, BA16, BA32, BA64},
    },
    helpers::{Direction, Role, query::DpMechanism},
    protocol::{
        context::{Context, MaliciousProtocolSteps, UpgradableContext, dzkp_validator::DZKPValidator},
        dp::{NoiseParams, dp_for_histogram, find_smallest_num_bernoulli, ipa_verif_h4::Stdl, step::DPStep},
        hybrid::{breakdown_reveal::breakdown_reveal_aggregation, step::HybridStep},
        ipa_prf::oprf_padding::{
            AggregationPadding, OPRFPadding, Paddable, PaddingParameters, apply_dp_padding,
            insecure::{Dp, OPRFPaddingDp},
        },
    },
    report::hybrid::{AggregateableHybridReport, IndistinguishableHybridReport},
    secret_sharing::{
        BitDecomposed, SharedValue, TransposeFrom,
        replicated::{ReplicatedSecretSharing, semi_honest::AdditiveShare as Replicated},
    },
    test_fixture::{Runner, TestWorld, TestWorldConfig, WithShards, hybrid::TestAggregateableHybridReport},
};

pub const LEVEL: &str = "exploration";

/// relative width of the band around delta inside which a truncation-point case is "undecided"
const TOL: f64 = 1e-9;
/// Chernoff exponent above which a binomial count is rejected: each such event has probability
/// <= exp(-50) ~ 1.9e-22 under the law (exact inequality, any N, any p)
const CHERNOFF_T: f64 = 50.0;
/// bound on the likelihood-ratio test's false-alarm probability per sample
const GTEST_LN_ALPHA: f64 = -29.93; // ln(1e-13)

// ------------------------------------------------------------------------------------------
// reference law
// ------------------------------------------------------------------------------------------

/// The documented law on 0..=2n: probability proportional to exp(-eps*|x-n|).
struct Law {
    eps: f64,
    n: u32,
    z: f64,
}

impl Law {
    fn new(eps: f64, n: u32) -> Self {
        // Z = sum_{x=0}^{2n} exp(-eps|x-n|); summed from the outermost (smallest) terms inwards
        let mut side = 0.0f64;
        for k in (1..=n).rev() {
            side += (-eps * f64::from(k)).exp();
        }
        Self { eps, n, z: 1.0 + 2.0 * side }
    }
    fn p(&self, x: u32) -> f64 {
        (-self.eps * (f64::from(x) - f64::from(self.n)).abs()).exp() / self.z
    }
    /// total probability of the `sens` outermost values on one side (x = 0..sens-1)
    fn tail(&self, sens: u32) -> f64 {
        let mut s = 0.0f64;
        for x in 0..sens.min(2 * self.n + 1) {
            s += (-self.eps * (f64::from(self.n) - f64::from(x)).abs()).exp();
        }
        s / self.z
    }
    fn pmf(&self) -> Vec<f64> {
        (0..=2 * self.n).map(|x| self.p(x)).collect()
    }
}

/// Own search for the documented truncation point. None when some evaluated tail is inside the
/// tolerance band (undecided) or the search exceeds `limit`.
fn ref_n(eps: f64, delta: f64, sens: u32, limit: u32) -> Option<u32> {
    let mut n = sens;
    loop {
        let t = Law::new(eps, n).tail(sens);
        if (t - delta).abs() <= delta * TOL {
            return None;
        }
        if t <= delta {
            return Some(n);
        }
        n += 1;
        if n > limit {
            return None;
        }
    }
}

// ------------------------------------------------------------------------------------------
// rigorous sample-vs-law tests
// ------------------------------------------------------------------------------------------

/// KL(Bernoulli(q) || Bernoulli(p)) in nats
fn kl_bern(q: f64, p: f64) -> f64 {
    if p <= 0.0 {
        return if q <= 0.0 { 0.0 } else { f64::INFINITY };
    }
    if p >= 1.0 {
        return if q >= 1.0 { 0.0 } else { f64::INFINITY };
    }
    let a = if q <= 0.0 { 0.0 } else { q * (q / p).ln() };
    let b = if q >= 1.0 { 0.0 } else { (1.0 - q) * ((1.0 - q) / (1.0 - p)).ln() };
    a + b
}

/// N * KL(count/N || p): P(deviation at least this large in that direction) <= exp(-value)
fn chernoff(count: u64, total: u64, p: f64) -> f64 {
    total as f64 * kl_bern(count as f64 / total as f64, p.clamp(0.0, 1.0))
}

struct FitReport {
    worst_cell: (f64, usize),
    worst_cum: (f64, usize),
    g_t: f64,
    g_bins: usize,
    g_ln_bound: f64,
    pearson_z: f64,
}

/// Compare counts (len = pmf.len()) with the pmf.
fn fit(counts: &[u64], pmf: &[f64]) -> FitReport {
    let total: u64 = counts.iter().sum();
    let m = pmf.len();
    let mut worst_cell = (0.0f64, 0usize);
    for i in 0..m {
        let e = chernoff(counts[i], total, pmf[i]);
        if e > worst_cell.0 {
            worst_cell = (e, i);
        }
    }
    // prefixes P(X <= i) for i < m-1 and suffixes P(X >= i) for i > 0
    let mut worst_cum = (0.0f64, 0usize);
    let (mut cp, mut cc) = (0.0f64, 0u64);
    for i in 0..m.saturating_sub(1) {
        cp += pmf[i];
        cc += counts[i];
        let e = chernoff(cc, total, cp);
        if e > worst_cum.0 {
            worst_cum = (e, i);
        }
    }
    let (mut cp, mut cc) = (0.0f64, 0u64);
    for i in (1..m).rev() {
        cp += pmf[i];
        cc += counts[i];
        let e = chernoff(cc, total, cp);
        if e > worst_cum.0 {
            worst_cum = (e, i);
        }
    }
    // likelihood-ratio statistic over at most 64 bins of adjacent cells
    let mut bins: Vec<(f64, u64)> = vec![];
    let (mut bp, mut bc) = (0.0f64, 0u64);
    for i in 0..m {
        bp += pmf[i];
        bc += counts[i];
        if bp >= 1.0 / 64.0 {
            bins.push((bp, bc));
            bp = 0.0;
            bc = 0;
        }
    }
    if bp > 0.0 || bc > 0 {
        if let Some(last) = bins.last_mut() {
            last.0 += bp;
            last.1 += bc;
        } else {
            bins.push((bp, bc));
        }
    }
    let psum: f64 = bins.iter().map(|b| b.0).sum();
    let k = bins.len();
    let (mut t, mut x2) = (0.0f64, 0.0f64);
    for (p, c) in &bins {
        let e = total as f64 * p / psum;
        if *c > 0 {
            t += *c as f64 * (*c as f64 / e).ln();
        }
        if e > 0.0 {
            x2 += (*c as f64 - e).powi(2) / e;
        }
    }
    // P(N*KL(emp||p) >= t) <= exp(-t) * (e*t/(k-1))^(k-1) for t > k-1: Chernoff bound from the
    // moment generating function of N*KL being dominated by that of Gamma(k-1, 1)
    // (R. Agrawal, "Finite-sample concentration of the multinomial in relative entropy", 2020)
    let g_ln_bound = if k >= 2 && t > (k - 1) as f64 {
        let d = (k - 1) as f64;
        -t + d * (1.0 + (t / d).ln())
    } else {
        0.0
    };
    let pearson_z = if k >= 2 { (x2 - (k - 1) as f64) / (2.0 * (k - 1) as f64).sqrt() } else { 0.0 };
    FitReport { worst_cell, worst_cum, g_t: t, g_bins: k, g_ln_bound, pearson_z }
}

impl FitReport {
    fn rejects(&self) -> Option<String> {
        if self.worst_cell.0 > CHERNOFF_T {
            return Some(format!("count of value {} has Chernoff exponent {:.1} > {CHERNOFF_T}", self.worst_cell.1, self.worst_cell.0));
        }
        if self.worst_cum.0 > CHERNOFF_T {
            return Some(format!("cumulative count at value {} has Chernoff exponent {:.1} > {CHERNOFF_T}", self.worst_cum.1, self.worst_cum.0));
        }
        if self.g_ln_bound < GTEST_LN_ALPHA {
            return Some(format!("likelihood-ratio statistic N*KL = {:.1} over {} bins: probability bound exp({:.1}) < 1e-13", self.g_t, self.g_bins, self.g_ln_bound));
        }
        None
    }
    fn z_label(&self) -> String {
        if self.g_bins < 3 {
            "fit:degenerate(<3 bins)".into()
        } else if self.pearson_z < 2.0 {
            "fit:pearson-z<2".into()
        } else if self.pearson_z < 4.0 {
            "fit:pearson-z 2..4".into()
        } else {
            "fit:pearson-z>=4".into()
        }
    }
}

// ------------------------------------------------------------------------------------------
// generators for admissible privacy configurations
// ------------------------------------------------------------------------------------------

fn unit(src: &mut Src<'_>) -> f64 {
    f64::from(src.raw()) / 4_294_967_296.0
}

fn eps_class(e: f64) -> &'static str {
    if e <= 0.01 {
        "eps=0.01"
    } else if e < 0.1 {
        "eps:(0.01,0.1)"
    } else if e < 1.0 {
        "eps:[0.1,1)"
    } else if e < 20.0 {
        "eps:[1,20)"
    } else {
        "eps=20"
    }
}

fn gen_eps(src: &mut Src<'_>) -> f64 {
    match src.below(8) {
        0 => 0.01,
        1 => 20.0,
        2 => src.pick(&[0.05, 0.1, 0.5, 1.0, 2.0, 5.0, 10.0]),
        _ => 0.01 * 2000f64.powf(unit(src)),
    }
}

fn gen_delta(src: &mut Src<'_>) -> f64 {
    match src.below(8) {
        0 => 1e-12,
        1 => 1e-2,
        2 => 10f64.powi(-(src.range(2, 12) as i32)),
        _ => 1e-12 * 1e10f64.powf(unit(src)),
    }
}

fn delta_class(d: f64) -> &'static str {
    if d <= 1e-12 {
        "delta=1e-12"
    } else if d < 1e-8 {
        "delta:(1e-12,1e-8)"
    } else if d < 1e-2 {
        "delta:[1e-8,1e-2)"
    } else {
        "delta=1e-2"
    }
}

fn gen_sens(src: &mut Src<'_>) -> u32 {
    (match src.below(8) {
        0 => 1,
        1 => 1000,
        2 => src.pick(&[2u64, 3, 8, 10, 999]),
        3 => src.range(1, 10),
        _ => src.range(1, 1000),
    }) as u32
}

fn sens_class(s: u32) -> &'static str {
    match s {
        1 => "sens=1",
        2..=10 => "sens:2..10",
        11..=999 => "sens:11..999",
        _ => "sens=1000",
    }
}

fn index(src: &mut Src<'_>) -> u64 {
    let lo = u64::from(src.raw());
    let hi = u64::from(src.raw());
    lo | (hi << 32)
}

// ------------------------------------------------------------------------------------------
// (a) truncation point
// ------------------------------------------------------------------------------------------

/// Returns (n, decided, labels)
fn check_truncation(env: &Env, eps: f64, delta: f64, sens: u32, extra_probe: Option<f64>) -> Result<(u32, bool, Vec<String>), CaseErr> {
    let case = json!({"epsilon": eps, "delta": delta, "sensitivity": sens});
    let d = match OPRFPaddingDp::new(eps, delta, sens) {
        Ok(d) => d,
        Err(e) => {
            known_or_violation(env, "admissible-config-rejected", format!("OPRFPaddingDp::new({eps}, {delta}, {sens}) = Err({e:?}) for an admissible configuration"), case)?;
            return Ok((0, false, vec!["rejected".into()]));
        }
    };
    let n = d.get_shift();
    let mut labels = vec![eps_class(eps).to_string(), delta_class(delta).to_string(), sens_class(sens).to_string()];
    let mut decided = true;
    if n < sens {
        known_or_violation(env, "truncation-below-sensitivity", format!("truncation point {n} is below the sensitivity {sens}"), case.clone())?;
        return Ok((n, false, labels));
    }
    let t = Law::new(eps, n).tail(sens);
    if t > delta * (1.0 + TOL) {
        known_or_violation(env, "truncation-tail-exceeds-delta", format!("n = {n}: probability of the {sens} outermost values is {t:e} > delta = {delta:e}"), case.clone())?;
    } else if t >= delta * (1.0 - TOL) {
        decided = false;
    }
    if n > sens {
        let t1 = Law::new(eps, n - 1).tail(sens);
        if t1 < delta * (1.0 - TOL) {
            known_or_violation(env, "truncation-not-smallest", format!("n = {n} is not the smallest: n-1 = {} already has tail {t1:e} <= delta = {delta:e}", n - 1), case.clone())?;
        } else if t1 <= delta * (1.0 + TOL) {
            decided = false;
        }
        // further points below n (the tail is strictly decreasing in n, so these are implied by
        // the n-1 probe; they guard the argument itself)
        let mut probes = vec![sens];
        if let Some(u) = extra_probe {
            probes.push(sens + ((f64::from(n - 1 - sens)) * u) as u32);
        }
        for m in probes {
            if m < n - 1 {
                let tm = Law::new(eps, m).tail(sens);
                if tm < delta * (1.0 - TOL) {
                    known_or_violation(env, "truncation-not-smallest", format!("n = {n} is not the smallest: n' = {m} has tail {tm:e} <= delta = {delta:e}"), case.clone())?;
                }
            }
        }
        labels.push("n>sens".into());
    } else {
        labels.push("n==sens".into());
    }
    if !decided {
        labels.push("undecided(tolerance band)".into());
    }
    Ok((n, decided, labels))
}

const GRID_EPS: [f64; 12] = [0.01, 0.02, 0.04, 0.08, 0.16, 0.32, 0.64, 1.28, 2.56, 5.12, 10.24, 20.0];
const GRID_DELTA: [f64; 11] = [1e-12, 1e-11, 1e-10, 1e-9, 1e-8, 1e-7, 1e-6, 1e-5, 1e-4, 1e-3, 1e-2];
const GRID_SENS: [u32; 10] = [1, 2, 3, 5, 10, 30, 100, 300, 999, 1000];
const GRID_TOTAL: u64 = (GRID_EPS.len() * GRID_DELTA.len() * GRID_SENS.len()) as u64;

fn trunc_grid(env: &Env, src: &mut Src<'_>) -> CaseResult {
    let i = index(src) as usize;
    let s = GRID_SENS[i % GRID_SENS.len()];
    let d = GRID_DELTA[(i / GRID_SENS.len()) % GRID_DELTA.len()];
    let e = GRID_EPS[i / (GRID_SENS.len() * GRID_DELTA.len())];
    let (n, decided, labels) = check_truncation(env, e, d, s, None)?;
    Ok(CaseOk::new(decided, &(e.to_bits(), d.to_bits(), s), json!({"epsilon": e, "delta": d, "sensitivity": s, "n": n})).labels(labels))
}

fn trunc_random(env: &Env, src: &mut Src<'_>) -> CaseResult {
    let (e, d, s) = (gen_eps(src), gen_delta(src), gen_sens(src));
    let u = unit(src);
    let (n, decided, labels) = check_truncation(env, e, d, s, Some(u))?;
    Ok(CaseOk::new(decided, &(e.to_bits(), d.to_bits(), s), json!({"epsilon": e, "delta": d, "sensitivity": s, "n": n})).labels(labels))
}

// ------------------------------------------------------------------------------------------
// (b) sampler law
// ------------------------------------------------------------------------------------------

fn sampler_law(env: &Env, src: &mut Src<'_>) -> CaseResult {
    // epsilon biased towards the region where the law is spread over many values
    let eps = match src.below(6) {
        0 => src.pick(&[0.01, 0.02, 0.05]),
        1 => src.pick(&[0.1, 0.2, 0.3, 0.5]),
        2 => src.pick(&[1.0, 2.0, 3.0, 5.0]),
        3 => src.pick(&[10.0, 20.0]),
        _ => gen_eps(src),
    };
    let delta = gen_delta(src);
    let sens = gen_sens(src);
    let seed = src.seed();
    let draws: u64 = if env.thorough() { 1_000_000 } else { 200_000 };
    let case = json!({"epsilon": eps, "delta": delta, "sensitivity": sens, "rng_seed": seed, "draws": draws});
    let d = match OPRFPaddingDp::new(eps, delta, sens) {
        Ok(d) => d,
        Err(e) => return Err(violation("admissible-config-rejected", format!("OPRFPaddingDp::new({eps}, {delta}, {sens}) = Err({e:?})"), case)),
    };
    let n = d.get_shift();
    let mut rng = StdRng::seed_from_u64(seed);
    let mut counts = vec![0u64; 2 * n as usize + 1];
    for _ in 0..draws {
        let x = d.sample(&mut rng);
        if x > 2 * n {
            known_or_violation(env, "sampler-support", format!("sample {x} outside the support 0..={}", 2 * n), case.clone())?;
            return Ok(CaseOk::new(false, &0u8, Value::Null));
        }
        counts[x as usize] += 1;
    }
    let law = Law::new(eps, n);
    let rep = fit(&counts, &law.pmf());
    if let Some(why) = rep.rejects() {
        known_or_violation(env, "sampler-law", format!("{draws} draws of OPRFPaddingDp({eps}, {delta}, {sens}) (n = {n}) do not follow exp(-eps|x-n|)/Z: {why}"), case.clone())?;
    }
    let seen = counts.iter().filter(|c| **c > 0).count();
    Ok(CaseOk::new(rep.g_bins >= 3, &(eps.to_bits(), delta.to_bits(), sens, seed), json!({"case": case, "n": n, "distinct_values_seen": seen, "bins": rep.g_bins, "N*KL": rep.g_t, "pearson_z": rep.pearson_z}))
        .label(eps_class(eps))
        .label(rep.z_label())
        .label(if seen == counts.len() { "every support point drawn" } else { "some support points not drawn (tiny probability)" }))
}

// ------------------------------------------------------------------------------------------
// (c) sample -> share mapping for every support point
// ------------------------------------------------------------------------------------------

/// `RngCore` whose `next_u64` answers are scripted. The sampler draws two geometric variables by
/// repeated `Bernoulli::sample`, which is `rng.next_u64() < p_int`: `u64::MAX` is a failure, `0` a
/// success. The script is: `a` failures, success, `b` failures, success, then successes only.
struct ScriptRng {
    a: u64,
    b: u64,
    pos: u64,
}

impl RngCore for ScriptRng {
    fn next_u32(&mut self) -> u32 {
        (self.next_u64() >> 32) as u32
    }
    fn next_u64(&mut self) -> u64 {
        let i = self.pos;
        self.pos += 1;
        let fail = i < self.a || (i > self.a && i < self.a + 1 + self.b);
        if fail { u64::MAX } else { 0 }
    }
    fn fill_bytes(&mut self, dest: &mut [u8]) {
        for c in dest.chunks_mut(8) {
            let v = self.next_u64().to_le_bytes();
            c.copy_from_slice(&v[..c.len()]);
        }
    }
    fn try_fill_bytes(&mut self, dest: &mut [u8]) -> Result<(), rand_core::Error> {
        self.fill_bytes(dest);
        Ok(())
    }
}
impl CryptoRng for ScriptRng {}

fn script_for(x: u32, n: u32) -> ScriptRng {
    ScriptRng { a: u64::from(x.saturating_sub(n)), b: u64::from(n.saturating_sub(x)), pos: 0 }
}

fn noise_params(eps: f64, delta: f64, sens: u32) -> NoiseParams {
    NoiseParams { epsilon: eps, delta, per_user_credit_cap: sens, ..Default::default() }
}

/// one forced support point: returns (hit, labels)
fn check_share_point(env: &Env, stdl: &Stdl, params: (f64, f64, u32), w: u32, dir: Direction, x: u32) -> Result<(bool, Vec<String>), CaseErr> {
    let n = stdl.shift();
    let case = json!({"epsilon": params.0, "delta": params.1, "sensitivity": params.2, "width": w, "direction_to_excluded": format!("{dir:?}"), "x": x, "n": n});
    if stdl.inner_shift() != n {
        known_or_violation(env, "shift-mismatch", format!("shift {n} differs from the distribution's truncation point {}", stdl.inner_shift()), case.clone())?;
    }
    let drawn = stdl.sample(&mut script_for(x, n));
    let mut labels = vec![format!("w{w}")];
    if drawn != x {
        // The script did not steer the sampler to x. Either the sampler consumes its RNG
        // differently from what the script assumes (then nothing can be said: measured, not
        // judged), or the sampler follows the model - calibrated on the neighbours of the centre,
        // which every correct truncation keeps - and refuses exactly this support point.
        let calibrated = n >= 1 && [n - 1, n, n + 1].iter().all(|&y| stdl.sample(&mut script_for(y, n)) == y);
        if calibrated && x <= 2 * n {
            known_or_violation(env, "support-point-unreachable", format!("support point x = {x} (noise {}) of 0..={} is never returned: the RNG answers that yield n-1, n, n+1 as modelled yield {drawn} instead of {x}", i64::from(x) - i64::from(n), 2 * n), case)?;
            labels.push("unreachable".into());
        } else {
            labels.push("script-miss".into());
        }
        return Ok((false, labels));
    }
    let mut rng = script_for(x, n);
    let (l, r) = match w {
        8 => {
            let s: Replicated<BA8> = stdl.sample_shares(&mut rng, dir);
            (s.left().as_u128(), s.right().as_u128())
        }
        16 => {
            let s: Replicated<BA16> = stdl.sample_shares(&mut rng, dir);
            (s.left().as_u128(), s.right().as_u128())
        }
        _ => {
            let s: Replicated<BA32> = stdl.sample_shares(&mut rng, dir);
            (s.left().as_u128(), s.right().as_u128())
        }
    };
    let noise = i64::from(x) - i64::from(n);
    let want = noise.rem_euclid(1i64 << w) as u128;
    let (value, zero_side) = match dir {
        Direction::Left => (r, l),
        Direction::Right => (l, r),
    };
    if zero_side != 0 {
        known_or_violation(env, &format!("share-excluded-side-nonzero:w{w}"), format!("the share held jointly with the excluded helper is {zero_side}, not 0"), case.clone())?;
    }
    if value != want {
        if w == 32 && noise == -1 && value == 0 {
            known_or_violation(env, "laplace-minus-one-w32", format!("width 32: sample x = n-1 = {x} (noise -1) is shared as 0 instead of 2^32-1 = {want} (modulus u32::MAX in ShiftedTruncatedDiscreteLaplace::new)"), case)?;
        } else {
            known_or_violation(env, &format!("share-mapping:w{w}"), format!("sample {x} with n = {n} (noise {noise}) is shared as {value}, expected {noise} mod 2^{w} = {want}"), case)?;
        }
    }
    match noise {
        -1 => labels.push("noise=-1".into()),
        0 => labels.push("noise=0".into()),
        _ if noise == -i64::from(n) => labels.push("noise=-n".into()),
        _ if noise == i64::from(n) => labels.push("noise=+n".into()),
        _ => {}
    }
    if noise.unsigned_abs() >= 1u64 << (w - 1) {
        labels.push("wraps(|noise|>=2^(w-1))".into());
    }
    Ok((true, labels))
}

/// parameter points whose whole support is enumerated; the last two only in the thorough tier
const SHARE_PARAMS: [(f64, f64, u32); 8] = [
    (1.0, 1e-6, 1),
    (5.0, 1e-6, 8),
    (0.1, 1e-6, 10),
    (0.5, 1e-7, 3),
    (20.0, 1e-12, 1),
    (2.0, 1e-2, 1000),
    (0.01, 1e-6, 1000),
    (0.01, 1e-12, 999),
];
const SHARE_QUICK: usize = 5;

fn share_shifts() -> &'static Vec<u32> {
    static S: OnceLock<Vec<u32>> = OnceLock::new();
    S.get_or_init(|| SHARE_PARAMS.iter().map(|&(e, d, s)| catch(|| OPRFPaddingDp::new(e, d, s).map(|o| o.get_shift()).unwrap_or(0)).unwrap_or(0)).collect())
}

fn share_total(thorough: bool) -> u64 {
    let k = if thorough { SHARE_PARAMS.len() } else { SHARE_QUICK };
    share_shifts()[..k].iter().map(|&n| (2 * u64::from(n) + 1) * 6).sum()
}

fn share_map_all(env: &Env, src: &mut Src<'_>) -> CaseResult {
    let mut i = index(src);
    let mut k = 0;
    loop {
        let block = (2 * u64::from(share_shifts()[k]) + 1) * 6;
        if i < block {
            break;
        }
        i -= block;
        k += 1;
    }
    let (e, d, s) = SHARE_PARAMS[k];
    let w = [8u32, 16, 32][(i % 3) as usize];
    let dir = if (i / 3) % 2 == 0 { Direction::Left } else { Direction::Right };
    let x = (i / 6) as u32;
    // the distribution objects are built once per (parameter point, width): construction runs the
    // truncation search, which would dominate the enumeration
    static CACHE: OnceLock<Vec<Option<Stdl>>> = OnceLock::new();
    let cache = CACHE.get_or_init(|| {
        SHARE_PARAMS.iter().flat_map(|&(e, d, s)| [8u32, 16, 32].map(|w| catch(|| Stdl::new(&noise_params(e, d, s), w).ok()).ok().flatten())).collect()
    });
    let Some(stdl) = cache[k * 3 + (i % 3) as usize].as_ref() else {
        return Err(violation("admissible-config-rejected", "ShiftedTruncatedDiscreteLaplace::new failed".to_string(), json!({"epsilon": e, "delta": d, "sensitivity": s, "width": w})));
    };
    let (hit, labels) = check_share_point(env, stdl, (e, d, s), w, dir, x)?;
    Ok(CaseOk::new(hit, &(k, w, i / 3 % 2, x), json!({"epsilon": e, "delta": d, "sensitivity": s, "width": w, "x": x, "n": stdl.shift()})).labels(labels))
}

fn share_map_random(env: &Env, src: &mut Src<'_>) -> CaseResult {
    let (e, d, s) = (gen_eps(src), gen_delta(src), gen_sens(src));
    let w = src.pick(&[8u32, 16, 32]);
    let dir = if src.bool() { Direction::Right } else { Direction::Left };
    let stdl = Stdl::new(&noise_params(e, d, s), w).map_err(|er| violation("admissible-config-rejected", format!("ShiftedTruncatedDiscreteLaplace::new: {er:?}"), json!({"epsilon": e, "delta": d, "sensitivity": s})))?;
    let n = stdl.shift();
    let x = match src.below(8) {
        0 => 0,
        1 => 2 * n,
        2 => n,
        3 => n.saturating_sub(1),
        4 => n + 1,
        _ => src.range(0, 2 * u64::from(n)) as u32,
    };
    let (hit, labels) = check_share_point(env, &stdl, (e, d, s), w, dir, x)?;
    Ok(CaseOk::new(hit, &(e.to_bits(), d.to_bits(), s, w, x), json!({"epsilon": e, "delta": d, "sensitivity": s, "width": w, "x": x, "n": n})).labels(labels).label(eps_class(e)))
}

// ------------------------------------------------------------------------------------------
// (d) constructors accept exactly the documented ranges
// ------------------------------------------------------------------------------------------

const NP_FIELDS: [&str; 8] = ["epsilon", "delta", "success_prob", "dimensions", "quantization_scale", "ell_1_sensitivity", "ell_2_sensitivity", "ell_infty_sensitivity"];
const NP_EPS: [f64; 9] = [-1.0, -0.0, 0.0, 1e-300, 0.01, 5.0, 10.0, 20.0, 1e6];
const NP_DELTA: [f64; 9] = [-1e-6, -0.0, 0.0, 1e-300, 1e-12, 1e-10, 1e-6, 1e-2, 0.5];
const NP_PROB: [f64; 9] = [-0.1, -0.0, 0.0, 1e-9, 0.25, 0.5, 1.0, 1.000_000_1, 2.0];
const NP_POS: [f64; 7] = [-1.0, -0.0, 0.0, 1e-300, 0.5, 1.0, 256.0];
const NP_DELTA_MSG: &str = "delta must be > 0.0";

fn np_candidates(field: usize) -> &'static [f64] {
    match field {
        0 => &NP_EPS,
        1 => &NP_DELTA,
        2 => &NP_PROB,
        _ => &NP_POS,
    }
}

/// documented range of each `NoiseParams::new` argument (error messages + `# Errors` section)
fn np_valid(field: usize, v: f64) -> bool {
    match field {
        2 => (0.0..=1.0).contains(&v),
        _ => v > 0.0,
    }
}

fn np_total() -> u64 {
    (0..8).map(|f| np_candidates(f).len() as u64).sum()
}

fn np_call(a: &[f64; 8]) -> Result<NoiseParams, String> {
    NoiseParams::new(a[0], a[1], 1, a[2], a[3], a[4], a[5], a[6], a[7])
}

fn ctor_noiseparams(env: &Env, src: &mut Src<'_>) -> CaseResult {
    let mut i = index(src) as usize;
    let mut field = 0;
    while i >= np_candidates(field).len() {
        i -= np_candidates(field).len();
        field += 1;
    }
    let v = np_candidates(field)[i];
    // base: every argument inside its documented range
    let mut args = [5.0, 1e-6, 0.5, 1.0, 1.0, 1.0, 1.0, 1.0];
    args[field] = v;
    let valid = np_valid(field, v);
    let case = json!({"field": NP_FIELDS[field], "value": v, "args(epsilon,delta,success_prob,dimensions,quantization_scale,ell_1,ell_2,ell_infty)": args.to_vec()});
    let got = np_call(&args);
    let mut labels = vec![format!("{}:{}", NP_FIELDS[field], if valid { "in-range" } else { "out-of-range" })];
    let delta_defect = matches!(&got, Err(m) if m == NP_DELTA_MSG) && args[1] > 0.0;
    if delta_defect {
        known_or_violation(env, "noiseparams-delta", format!("NoiseParams::new rejects delta = {} with \"{NP_DELTA_MSG}\" although delta > 0 (the test is `delta != 0.0`)", args[1]), case.clone())?;
        labels.push("delta-defect-hit".into());
        if field != 1 {
            // look past the defect: delta = 0.0 is the only value the inverted test lets through, so
            // with it the validation of the remaining arguments becomes observable
            let mut probe = args;
            probe[1] = 0.0;
            let got2 = np_call(&probe);
            if got2.is_ok() != valid {
                known_or_violation(env, &format!("noiseparams-range:{}", NP_FIELDS[field]), format!("NoiseParams::new with {} = {v} (delta = 0.0 to pass the inverted delta test): {:?}, documented range says {}", NP_FIELDS[field], got2.as_ref().map(|_| "Ok").map_err(String::clone), if valid { "accept" } else { "reject" }), case.clone())?;
            }
            labels.push("probed-behind-delta-defect".into());
        }
    } else if got.is_ok() != valid {
        let sig = if field == 1 { "noiseparams-delta".to_string() } else { format!("noiseparams-range:{}", NP_FIELDS[field]) };
        known_or_violation(env, &sig, format!("NoiseParams::new with {} = {v}: {:?}, documented range says {}", NP_FIELDS[field], got.as_ref().map(|_| "Ok").map_err(String::clone), if valid { "accept" } else { "reject" }), case.clone())?;
    } else if let Ok(p) = &got {
        let stored = [p.epsilon, p.delta, p.success_prob, p.dimensions, p.quantization_scale, p.ell_1_sensitivity, p.ell_2_sensitivity, p.ell_infty_sensitivity];
        if stored.iter().zip(args.iter()).any(|(a, b)| a.to_bits() != b.to_bits()) || p.per_user_credit_cap != 1 {
            known_or_violation(env, "noiseparams-fields", format!("constructed fields {stored:?} differ from the arguments {args:?}"), case.clone())?;
        }
    }
    Ok(CaseOk::new(true, &(field, v.to_bits()), case).labels(labels))
}

// OPRFPaddingDp::new / Dp::new: documented range eps > 0 (>= f64::MIN_POSITIVE), 0 < delta < 1
// (message: "within MIN_POSITIVE..1.0 - MIN_POSITIVE", comment "delta<1-min"), sensitivity <= 1M,
// and the resulting truncation point <= 1M (BadShiftValue).
const PD_EPS: [f64; 7] = [-1.0, -0.0, 0.0, 0.01, 1.0, 20.0, 100.0];
const PD_DELTA: [f64; 11] = [-1e-6, -0.0, 0.0, 1e-300, 1e-12, 1e-6, 0.5, 0.999_999_999_999_999_9, 1.0, 1.000_000_000_000_000_2, 2.0];
const PD_SENS: [u32; 6] = [1, 10, 1000, 1_000_000, 1_000_001, u32::MAX];
const PD_TOTAL: u64 = (PD_EPS.len() * PD_DELTA.len() * PD_SENS.len()) as u64;

fn ctor_padding_dp(env: &Env, src: &mut Src<'_>) -> CaseResult {
    let i = index(src) as usize;
    let sens = PD_SENS[i % PD_SENS.len()];
    let delta = PD_DELTA[(i / PD_SENS.len()) % PD_DELTA.len()];
    let eps = PD_EPS[i / (PD_SENS.len() * PD_DELTA.len())];
    let case = json!({"epsilon": eps, "delta": delta, "sensitivity": sens});
    let eps_ok = eps > 0.0;
    let delta_ok = delta > 0.0 && delta < 1.0;
    let sens_ok = sens <= 1_000_000;
    let mut labels = vec![
        format!("eps:{}", if eps_ok { "in" } else { "out" }),
        format!("delta:{}", if delta_ok { "in" } else if delta >= 1.0 { "out(>=1)" } else { "out(<=0)" }),
        format!("sens:{}", if sens_ok { "in" } else { "out" }),
    ];
    // Dp::new (no search inside): judged on every grid point
    for cap in [1.0, 100.0] {
        let got = Dp::new(eps, delta, cap).is_ok();
        if got != (eps_ok && delta_ok) {
            let sig = if got && eps_ok && delta == 1.0 { "delta-one-accepted:Dp".to_string() } else { "ctor-range:Dp".to_string() };
            known_or_violation(env, &sig, format!("Dp::new({eps}, {delta}, {cap}) is {}, documented range (eps > 0, 0 < delta < 1) says {}", if got { "Ok" } else { "Err" }, if got { "reject" } else { "accept" }), case.clone())?;
        }
    }
    // OPRFPaddingDp::new runs the truncation search when it accepts; skip the points where an
    // accepted input would make that search long (tiny delta with small eps, 1M sensitivity with
    // a search of more than a step)
    let all_ok = eps_ok && delta_ok && sens_ok;
    let slow = all_ok && ((delta < 1e-100 && eps < 1.0) || (sens == 1_000_000 && !(eps >= 20.0 && delta >= 1e-6)) || (sens >= 1000 && delta < 1e-100));
    if slow {
        labels.push("oprf-skipped(slow search)".into());
        return Ok(CaseOk::new(false, &(eps.to_bits(), delta.to_bits(), sens), case).labels(labels));
    }
    let expect_ok = if all_ok {
        match ref_n(eps, delta, sens, sens.saturating_add(200_000)) {
            Some(n) => n <= 1_000_000,
            None => {
                labels.push("oprf-undecided".into());
                return Ok(CaseOk::new(false, &(eps.to_bits(), delta.to_bits(), sens), case).labels(labels));
            }
        }
    } else {
        false
    };
    let got = OPRFPaddingDp::new(eps, delta, sens);
    if got.is_ok() != expect_ok {
        let sig = if got.is_ok() && eps_ok && sens_ok && delta == 1.0 { "delta-one-accepted:OPRFPaddingDp".to_string() } else { "ctor-range:OPRFPaddingDp".to_string() };
        known_or_violation(env, &sig, format!("OPRFPaddingDp::new({eps}, {delta}, {sens}) = {:?}, documented range (eps > 0, 0 < delta < 1, sensitivity <= 1M, shift <= 1M) says {}", got.as_ref().map(OPRFPaddingDp::get_shift), if expect_ok { "accept" } else { "reject" }), case.clone())?;
    }
    labels.push(format!("oprf-expected:{}", if expect_ok { "accept" } else { "reject" }));
    Ok(CaseOk::new(true, &(eps.to_bits(), delta.to_bits(), sens), case).labels(labels))
}

// ------------------------------------------------------------------------------------------
// MPC helpers
// ------------------------------------------------------------------------------------------

const MPC_TIMEOUT_S: u64 = 120;

fn world_config(seed: u64) -> TestWorldConfig {
    TestWorldConfig::default().with_seed(seed).with_timeout_secs(MPC_TIMEOUT_S)
}

/// raw replicated shares of one value on the three helpers, as (left, right) integers
type Raw3 = [(u128, u128); 3];

/// helper i holds (x_i, x_{i+1}): consistent iff right of i equals left of i+1
fn consistent(s: &Raw3) -> bool {
    s[0].1 == s[1].0 && s[1].1 == s[2].0 && s[2].1 == s[0].0
}

/// boolean-array sharings are additive over GF(2)^w
fn reconstruct(s: &Raw3) -> u128 {
    s[0].0 ^ s[1].0 ^ s[2].0
}

fn raw<T: U128Conversions + SharedValue>(s: &Replicated<T>) -> (u128, u128) {
    (s.left().as_u128(), s.right().as_u128())
}

/// consistent replicated sharing of `v` (bits wide), randomness from `rng`
fn share3<T: U128Conversions + SharedValue>(v: u128, bits: u32, rng: &mut StdRng) -> [Replicated<T>; 3] {
    let mask = if bits >= 128 { u128::MAX } else { (1u128 << bits) - 1 };
    let s1 = rng.r#gen::<u128>() & mask;
    let s2 = rng.r#gen::<u128>() & mask;
    let s3 = (v & mask) ^ s1 ^ s2;
    let t = |x: u128| T::truncate_from(x);
    [Replicated::new(t(s1), t(s2)), Replicated::new(t(s2), t(s3)), Replicated::new(t(s3), t(s1))]
}

fn vectorize<const B: usize>(bits: u32, values: &[u32]) -> BitDecomposed<[Boolean; B]> {
    let values: &[u32; B] = values.try_into().unwrap();
    BitDecomposed::decompose(bits as usize, |i: usize| values.map(|v| Boolean::from((v >> i) & 1 == 1)))
}

type DpOut = [Result<Vec<(u128, u128)>, String>; 3];

macro_rules! dp_run {
    ($world:expr, $mal:expr, $B:literal, $OV:ty, $SS:literal, $values:expr, $dp:expr) => {{
        let input = vectorize::<$B>(<$OV as SharedValue>::BITS, $values);
        let dp: DpMechanism = $dp;
        let res: [Result<Vec<Replicated<$OV>>, Error>; 3] = if $mal {
            $world.malicious(input, move |ctx, input| async move { dp_for_histogram::<_, $B, $OV, $SS>(ctx, input, dp).await }).await
        } else {
            $world.semi_honest(input, move |ctx, input| async move { dp_for_histogram::<_, $B, $OV, $SS>(ctx, input, dp).await }).await
        };
        res.map(|r| r.map(|v| v.iter().map(raw).collect::<Vec<_>>()).map_err(|e| format!("{e:?}")))
    }};
}

/// `dp_for_histogram::<_, b, BA{w}, 3>` under the world (per-user credit cap 2^3 = 8, as the query runner uses)
async fn run_dp(world: &TestWorld, mal: bool, b: usize, w: u32, values: &[u32], dp: DpMechanism) -> DpOut {
    match (b, w) {
        (32, 8) => dp_run!(world, mal, 32, BA8, 3, values, dp),
        (32, 16) => dp_run!(world, mal, 32, BA16, 3, values, dp),
        (32, 32) => dp_run!(world, mal, 32, BA32, 3, values, dp),
        (256, 8) => dp_run!(world, mal, 256, BA8, 3, values, dp),
        (256, 16) => dp_run!(world, mal, 256, BA16, 3, values, dp),
        (256, 32) => dp_run!(world, mal, 256, BA32, 3, values, dp),
        _ => unreachable!(),
    }
}
const SS_CAP: u32 = 8;
/// delta that `dp_for_histogram` documents as its default (`NoiseParams::default().delta`)
const DP_DELTA: f64 = 1e-6;

/// reconstruct the released histogram; Err(description) when shares are inconsistent / lengths differ
fn released(out: &DpOut, b: usize) -> Result<Vec<u128>, String> {
    let mut per = vec![];
    for (h, r) in out.iter().enumerate() {
        match r {
            Ok(v) if v.len() == b => per.push(v),
            Ok(v) => return Err(format!("helper {} returned {} buckets, expected {b}", h + 1, v.len())),
            Err(e) => return Err(format!("helper {} returned Err({e})", h + 1)),
        }
    }
    let mut res = vec![];
    for i in 0..b {
        let s: Raw3 = [per[0][i], per[1][i], per[2][i]];
        if !consistent(&s) {
            return Err(format!("bucket {i}: the three helpers' shares {s:?} are not a consistent replicated sharing"));
        }
        res.push(reconstruct(&s));
    }
    Ok(res)
}

// ------------------------------------------------------------------------------------------
// (d) continued: epsilon range of dp_for_histogram
// ------------------------------------------------------------------------------------------

const DH_CASES: [(&str, f64, bool); 11] = [
    // (mechanism, epsilon, documented to be accepted)
    ("binomial", -1.0, false),
    ("binomial", -0.0, false),
    ("binomial", 0.0, false),
    ("binomial", 20.5, false),
    ("binomial", 1e9, false),
    ("binomial", 10.0, true),
    ("laplace", -1.0, false),
    ("laplace", 0.0, false),
    ("laplace", 0.01, true),
    ("laplace", 20.0, true),
    ("nodp", 0.0, true),
];

fn ctor_dp_for_histogram(env: &Env, src: &mut Src<'_>) -> CaseResult {
    let i = index(src) as usize;
    let (mech, eps, accept) = DH_CASES[i];
    let dp = match mech {
        "binomial" => DpMechanism::Binomial { epsilon: eps },
        "laplace" => DpMechanism::DiscreteLaplace { epsilon: eps },
        _ => DpMechanism::NoDp,
    };
    let case = json!({"mechanism": mech, "epsilon": eps, "buckets": 32, "width": 16});
    let values: Vec<u32> = (0..32u32).map(|k| k * 1000 + 7).collect();
    let out = block_on(async {
        let world = TestWorld::new_with(world_config(0xC12D + i as u64));
        run_dp(&world, false, 32, 16, &values, dp).await
    });
    let oks = out.iter().filter(|r| r.is_ok()).count();
    if accept {
        match released(&out, 32) {
            Err(e) => known_or_violation(env, &format!("dp-for-histogram-range:{mech}"), format!("dp_for_histogram({mech}, epsilon = {eps}) inside the documented range failed: {e}"), case.clone())?,
            Ok(res) => {
                // support of the noise per mechanism (weak: this sub-check is about acceptance)
                let bound: u128 = match mech {
                    "nodp" => 0,
                    "binomial" => {
                        let np = NoiseParams { epsilon: eps, per_user_credit_cap: SS_CAP, ell_1_sensitivity: 8.0, ell_2_sensitivity: 8.0, ell_infty_sensitivity: 8.0, dimensions: 32.0, ..Default::default() };
                        u128::from(find_smallest_num_bernoulli(&np))
                    }
                    _ => 0,
                };
                if mech != "laplace" {
                    for (k, r) in res.iter().enumerate() {
                        let noise = (r + 65536 - u128::from(values[k])) % 65536;
                        if noise > bound {
                            known_or_violation(env, &format!("dp-for-histogram-noise:{mech}"), format!("bucket {k}: released {r}, exact {}, noise {noise} outside 0..={bound}", values[k]), case.clone())?;
                        }
                    }
                }
            }
        }
    } else if oks != 0 {
        known_or_violation(env, &format!("dp-for-histogram-range:{mech}"), format!("dp_for_histogram({mech}, epsilon = {eps}) outside the documented range (0, 20] / eps > 0 was accepted by {oks} helper(s)"), case.clone())?;
    }
    Ok(CaseOk::new(true, &i, case).label(format!("{mech}:{}", if accept { "in-range" } else { "out-of-range" })))
}

// ------------------------------------------------------------------------------------------
// (f) released buckets = exact + three pairwise noise draws (mod 2^w)
// ------------------------------------------------------------------------------------------

/// What each helper draws for the three passes, recomputed in a twin world: pass k excludes
/// helper k; the other two use the PRSS stream they share with each other.
/// For each of the three noise passes (their gates), the b samples this helper would draw from
/// the randomness it shares with its LEFT and with its RIGHT neighbour. Which pair generates in
/// which pass is the code's choice (the property only says that each bucket gets three
/// pairwise-generated draws), so the oracle tries every assignment of pairs to passes.
async fn twin_body<C: UpgradableContext>(ctx: C, b: usize, eps: f64) -> Vec<(Vec<u32>, Vec<u32>)> {
    let steps = MaliciousProtocolSteps { protocol: &HybridStep::DifferentialPrivacy, validate: &HybridStep::DifferentialPrivacyValidate };
    let v = ctx.dzkp_validator(steps, 1);
    let c = v.context();
    let dist = OPRFPaddingDp::new(eps, DP_DELTA, SS_CAP).unwrap();
    let mut out = vec![];
    for k in 0..3 {
        let pc = match k {
            0 => c.narrow(&DPStep::LaplacePass1),
            1 => c.narrow(&DPStep::LaplacePass2),
            _ => c.narrow(&DPStep::LaplacePass3),
        };
        let (mut left, mut right) = pc.prss_rng();
        out.push(((0..b).map(|_| dist.sample(&mut left)).collect(), (0..b).map(|_| dist.sample(&mut right)).collect()));
    }
    out
}

/// pooled second moment of the released noise, normalised by its theoretical value (run level)
static NOISE_POOL: Mutex<(f64, u64)> = Mutex::new((0.0, 0));

/// run-level check over everything `released_buckets` pooled: the mean of noise^2 / (3 Var) is 1 for
/// a sum of three independent draws of the documented law (2/3 if a pass is missing, 4/3 if one
/// is applied twice, ...). Thresholds are many standard errors away at the pooled sample sizes.
fn noise_moment(_env: &Env, _src: &mut Src<'_>) -> CaseResult {
    let (sum, count) = *NOISE_POOL.lock().unwrap();
    if count < 4000 {
        return Ok(CaseOk::new(false, &0u8, json!({"pooled_buckets": count})).label("too-few-samples"));
    }
    let ratio = sum / count as f64;
    let cj = json!({"pooled_buckets": count, "mean_of_noise_squared_over_three_variances": ratio});
    if !(0.8..=1.25).contains(&ratio) {
        return Err(violation("released-noise-second-moment", format!("over {count} released buckets the second moment of the noise is {ratio:.3} times that of a sum of three draws of the documented law"), cj));
    }
    Ok(CaseOk::new(true, &1u8, cj).label(format!("ratio:{:.2}", ratio)))
}

fn released_buckets(env: &Env, src: &mut Src<'_>) -> CaseResult {
    let b = src.pick(&[32usize, 256]);
    let w = src.pick(&[8u32, 16, 32]);
    let mal = src.chance(1, 3);
    let eps = match src.below(4) {
        0 => src.pick(&[0.5, 1.0, 2.0, 5.0]),
        _ => gen_eps(src),
    };
    let wseed = src.seed();
    let hseed = src.seed();
    let hist_kind = src.below(4);
    let mask: u64 = (1u64 << w) - 1;
    let mut hr = StdRng::seed_from_u64(hseed);
    let values: Vec<u32> = (0..b)
        .map(|_| {
            (match hist_kind {
                0 => 0,
                1 => mask - hr.gen_range(0..4),
                2 => hr.gen_range(0..16),
                _ => match hr.gen_range(0..6) {
                    0 => 0,
                    1 => mask,
                    2 => mask / 2 + 1,
                    3 => 1,
                    _ => hr.r#gen::<u64>() & mask,
                },
            }) as u32
        })
        .collect();
    let case = json!({"buckets": b, "width": w, "malicious": mal, "epsilon": eps, "world_seed": wseed, "histogram_seed": hseed, "histogram_kind": hist_kind});
    let dp = DpMechanism::DiscreteLaplace { epsilon: eps };
    let (out, twin) = block_on(async {
        let world = TestWorld::new_with(world_config(wseed));
        let out = run_dp(&world, mal, b, w, &values, dp).await;
        drop(world);
        let tw = TestWorld::new_with(world_config(wseed));
        let twin: [Vec<(Vec<u32>, Vec<u32>)>; 3] = if mal {
            tw.malicious((), move |ctx, ()| twin_body(ctx, b, eps)).await
        } else {
            tw.semi_honest((), move |ctx, ()| twin_body(ctx, b, eps)).await
        };
        (out, twin)
    });
    let res = match released(&out, b) {
        Ok(r) => r,
        Err(e) => {
            known_or_violation(env, "released-bucket:shares", format!("dp_for_histogram(DiscreteLaplace {eps}): {e}"), case.clone())?;
            return Ok(CaseOk::new(false, &0u8, Value::Null));
        }
    };
    let n = OPRFPaddingDp::new(eps, DP_DELTA, SS_CAP).map(|d| d.get_shift()).unwrap_or(0);
    let modulus: i128 = 1i128 << w;
    let mut labels: Vec<String> = vec![];
    // (1) black box: the released noise = released - exact (centred) is a sum of three draws from
    // [-n, n]: it lies in [-3n, 3n], and its second moment is three times that of one draw
    let centred: Vec<i128> = (0..b)
        .map(|i| {
            let d = (res[i] as i128 - i128::from(values[i])).rem_euclid(modulus);
            if d >= modulus / 2 { d - modulus } else { d }
        })
        .collect();
    if 3 * i128::from(n) < modulus / 2 {
        if let Some((i, c)) = centred.iter().enumerate().find(|(_, c)| c.abs() > 3 * i128::from(n)) {
            known_or_violation(env, &format!("released-bucket:noise-out-of-range:w{w}"), format!("bucket {i}: exact {}, released {}: noise {c} lies outside [-3n, 3n] (n = {n})", values[i], res[i]), case.clone())?;
        }
        let (mut z, mut v2) = (0.0f64, 0.0f64);
        for x in 0..=i64::from(n) {
            let p = (-eps * x as f64).exp() * if x == 0 { 1.0 } else { 2.0 };
            z += p;
            v2 += p * (x as f64) * (x as f64);
        }
        let var1 = v2 / z;
        // large epsilons (variance far below 1) make noise^2 / variance a rare-event statistic
        // (mostly 0, occasionally thousands): they are left out of the pooled moment
        if var1 >= 0.25 {
            let sum: f64 = centred.iter().map(|c| (*c as f64) * (*c as f64)).sum::<f64>() / (3.0 * var1);
            let mut g = NOISE_POOL.lock().unwrap();
            g.0 += sum;
            g.1 += b as u64;
        }
    } else {
        labels.push("noise-range-wraps".into());
    }
    // (2) white box, order-agnostic: pair p = (helper p, helper p+1) shares helper p's right stream;
    // some assignment of the three pairs to the three passes must explain every bucket
    let stream = |k: usize, p: usize| -> &Vec<u32> { &twin[p][k].1 };
    for k in 0..3 {
        for p in 0..3 {
            if twin[p][k].1 != twin[(p + 1) % 3][k].0 {
                known_or_violation(env, "released-bucket:twin-streams", format!("pass {}: helpers {} and {} do not derive one common stream from their shared randomness", k + 1, p + 1, (p + 1) % 3 + 1), case.clone())?;
                return Ok(CaseOk::new(false, &0u8, Value::Null));
            }
        }
    }
    const PERMS: [[usize; 3]; 6] = [[1, 2, 0], [0, 1, 2], [0, 2, 1], [1, 0, 2], [2, 0, 1], [2, 1, 0]];
    let want_for = |sig: &[usize; 3], i: usize| -> (u128, u32) {
        let noise: i128 = (0..3).map(|k| i128::from(stream(k, sig[k])[i]) - i128::from(n)).sum();
        let m1 = (0..3).filter(|&k| stream(k, sig[k])[i] + 1 == n).count() as u32;
        ((i128::from(values[i]) + noise).rem_euclid(modulus) as u128, m1)
    };
    let explains = PERMS.iter().position(|sig| (0..b).all(|i| want_for(sig, i).0 == res[i]));
    let mut minus_one_hits = 0u64;
    let mut wrapped = 0u64;
    match explains {
        Some(pi) => {
            labels.push(format!("twin:pairs-of-passes:{:?}", PERMS[pi]));
            for i in 0..b {
                let sig = &PERMS[pi];
                let noise: i128 = (0..3).map(|k| i128::from(stream(k, sig[k])[i]) - i128::from(n)).sum();
                if i128::from(values[i]) + noise < 0 || i128::from(values[i]) + noise >= modulus {
                    wrapped += 1;
                }
                if want_for(sig, i).1 > 0 {
                    minus_one_hits += 1;
                }
            }
        }
        None => {
            // width 32: every draw equal to -1 shared as 0 (the defect repaired by a `fix:` commit):
            // the bucket is too large by exactly the number of such draws, under some assignment
            let w32 = PERMS.iter().find(|sig| {
                w == 32 && (0..b).any(|i| want_for(sig, i).0 != res[i]) && (0..b).all(|i| {
                    let (want, m1) = want_for(sig, i);
                    res[i] == want || (m1 > 0 && res[i] == (want + u128::from(m1)) % (1u128 << 32))
                })
            });
            if let Some(sig) = w32 {
                let i = (0..b).find(|i| want_for(sig, *i).0 != res[*i]).unwrap();
                known_or_violation(env, "laplace-minus-one-w32", format!("width 32: bucket(s) released too large by exactly the number of noise draws equal to -1 (e.g. bucket {i}: exact {}, draws-n = {:?}, released {}, expected {})", values[i], (0..3).map(|k| i64::from(stream(k, sig[k])[i]) - i64::from(n)).collect::<Vec<_>>(), res[i], want_for(sig, i).0), case.clone())?;
            } else {
                // the model of how the draws are taken from the shared randomness (gate names,
                // one sample per bucket and pass) does not explain the output under any
                // assignment: that model is not part of the property - only the black-box checks
                // above and the run-level moment check decide
                labels.push("twin:cannot-explain".into());
            }
        }
    }
    Ok(CaseOk::new(true, &(b, w, mal, eps.to_bits(), wseed, hseed, hist_kind), json!({"case": case, "n": n, "buckets_with_a_minus_one_draw": minus_one_hits, "buckets_wrapping": wrapped})).labels(labels)
        .label(format!("B{b}"))
        .label(format!("w{w}"))
        .label(if mal { "malicious" } else { "semi-honest" })
        .label(if wrapped > 0 { "some bucket wraps mod 2^w" } else { "no bucket wraps" })
        .label(if minus_one_hits > 0 { "has noise=-1 draw" } else { "no noise=-1 draw" })
        .label(eps_class(eps)))
}

// ------------------------------------------------------------------------------------------
// (e) padding rows
// ------------------------------------------------------------------------------------------

async fn pad3<C: Context, T: Paddable + Send, const B: usize>(ctxs: [C; 3], inputs: [Vec<T>; 3], params: PaddingParameters) -> Result<[Result<Vec<T>, Error>; 3], String> {
    let [c1, c2, c3] = ctxs;
    let [i1, i2, i3] = inputs;
    let p = &params;
    let fut = async {
        let (a, b, c) = futures::join!(apply_dp_padding::<_, T, B>(c1, i1, p), apply_dp_padding::<_, T, B>(c2, i2, p), apply_dp_padding::<_, T, B>(c3, i3, p));
        [a, b, c]
    };
    tokio::time::timeout(std::time::Duration::from_secs(MPC_TIMEOUT_S), fut).await.map_err(|_| format!("no result after {MPC_TIMEOUT_S} s"))
}

/// a row reduced to raw shares per field: (match_key, value, breakdown_key); match_key absent for
/// aggregation rows
#[derive(Clone, PartialEq, Debug)]
struct RawRow {
    mk: Option<(u128, u128)>,
    v: (u128, u128),
    bk: (u128, u128),
}

fn gen_padding_cfg(src: &mut Src<'_>, agg: bool) -> (f64, f64, u32) {
    let eps = match src.below(4) {
        0 => src.pick(&[5.0, 10.0]), // the shipped defaults
        _ => (if agg { 0.3 * 30f64.powf(unit(src)) } else { 0.5 * 20f64.powf(unit(src)) }),
    };
    let delta = match src.below(4) {
        0 => src.pick(&[1e-6, 1e-4]),
        _ => 1e-9 * 1e7f64.powf(unit(src)),
    };
    let sens = src.range(1, if agg { 10 } else { 4 }) as u32;
    (eps, delta, sens)
}

/// Common part: lengths equal, input prefix untouched, every added row a consistent sharing.
/// Returns the reconstructed added rows as (mk, value, bk, excluded helper pattern).
fn check_padded(env: &Env, ins: &[Vec<RawRow>; 3], outs: &[Vec<RawRow>; 3], case: &Value, kind: &str) -> Result<Option<Vec<(Option<u128>, u128, u128, Option<usize>)>>, CaseErr> {
    let k = ins[0].len();
    if outs[0].len() != outs[1].len() || outs[0].len() != outs[2].len() {
        known_or_violation(env, &format!("padding-count-mismatch:{kind}"), format!("helpers hold {} / {} / {} rows after padding", outs[0].len(), outs[1].len(), outs[2].len()), case.clone())?;
        return Ok(None);
    }
    if outs[0].len() < k || (0..3).any(|h| outs[h][..k] != ins[h][..]) {
        known_or_violation(env, &format!("padding-input-changed:{kind}"), "the first rows of the padded vector are not the input rows".to_string(), case.clone())?;
        return Ok(None);
    }
    let mut rows = vec![];
    for j in k..outs[0].len() {
        let f = |g: fn(&RawRow) -> (u128, u128)| -> Raw3 { [g(&outs[0][j]), g(&outs[1][j]), g(&outs[2][j])] };
        let v = f(|r| r.v);
        let bk = f(|r| r.bk);
        let mk: Option<Raw3> = outs[0][j].mk.map(|_| f(|r| r.mk.unwrap()));
        if !consistent(&v) || !consistent(&bk) || mk.as_ref().is_some_and(|m| !consistent(m)) {
            known_or_violation(env, &format!("dummy-inconsistent-sharing:{kind}"), format!("added row {}: shares mk {mk:?} value {v:?} breakdown {bk:?} are not consistent replicated sharings", j - k), case.clone())?;
            return Ok(None);
        }
        // which helper contributed only zero shares to the identifying field
        let ident = mk.unwrap_or(bk);
        let zero: Vec<usize> = (0..3).filter(|&h| ident[h] == (0, 0)).collect();
        let excluded = if zero.len() == 1 { Some(zero[0]) } else { None };
        rows.push((mk.as_ref().map(reconstruct), reconstruct(&v), reconstruct(&bk), excluded));
    }
    Ok(Some(rows))
}

fn padding_rows_oprf(env: &Env, src: &mut Src<'_>) -> CaseResult {
    type R = IndistinguishableHybridReport<BA8, BA3>;
    let (eps, delta, sens) = gen_padding_cfg(src, false);
    let cap = src.range(1, 10) as u32;
    let mal = src.bool();
    let k = src.urange(0, 12);
    let (wseed, iseed) = (src.seed(), src.seed());
    let case = json!({"kind": "oprf", "oprf_epsilon": eps, "oprf_delta": delta, "oprf_padding_sensitivity": sens, "matchkey_cardinality_cap": cap, "malicious_ctx": mal, "input_rows": k, "world_seed": wseed, "input_seed": iseed});
    let Some(n) = ref_n(eps, delta, sens, 100_000) else { return Err(CaseErr::Reject("truncation point undecided".into())) };
    let mut ir = StdRng::seed_from_u64(iseed);
    let mut inputs: [Vec<R>; 3] = [vec![], vec![], vec![]];
    for _ in 0..k {
        let mk = share3::<BA64>(u128::from(ir.r#gen::<u64>()), 64, &mut ir);
        let v = share3::<BA3>(ir.gen_range(0..8), 3, &mut ir);
        let bk = share3::<BA8>(ir.gen_range(0..256), 8, &mut ir);
        for h in 0..3 {
            inputs[h].push(R { match_key: mk[h].clone(), value: v[h].clone(), breakdown_key: bk[h].clone() });
        }
    }
    let to_raw = |r: &R| RawRow { mk: Some(raw(&r.match_key)), v: raw(&r.value), bk: raw(&r.breakdown_key) };
    let ins: [Vec<RawRow>; 3] = [0, 1, 2].map(|h| inputs[h].iter().map(to_raw).collect());
    let params = PaddingParameters {
        aggregation_padding: AggregationPadding::NoAggPadding,
        oprf_padding: OPRFPadding::Parameters { oprf_epsilon: eps, oprf_delta: delta, matchkey_cardinality_cap: cap, oprf_padding_sensitivity: sens },
    };
    let res = block_on(async {
        let world = TestWorld::new_with(world_config(wseed));
        if mal { pad3::<_, R, 256>(world.malicious_contexts(), inputs, params).await } else { pad3::<_, R, 256>(world.contexts(), inputs, params).await }
    });
    let res = match res {
        Ok(r) => r,
        // a wall-clock limit is no verdict (a loaded or suspended machine hits it too)
        Err(e) if e.starts_with("no result after") => return Err(CaseErr::Reject(format!("inconclusive: apply_dp_padding: {e}"))),
        Err(e) => return Err(violation("padding-error:oprf", format!("apply_dp_padding: {e}"), case)),
    };
    let mut outs: [Vec<RawRow>; 3] = [vec![], vec![], vec![]];
    for (h, r) in res.iter().enumerate() {
        match r {
            Ok(v) => outs[h] = v.iter().map(to_raw).collect(),
            Err(e) => {
                known_or_violation(env, "padding-error:oprf", format!("helper {} : apply_dp_padding returned Err({e:?}) for an admissible configuration", h + 1), case.clone())?;
                return Ok(CaseOk::new(false, &0u8, Value::Null));
            }
        }
    }
    let Some(rows) = check_padded(env, &ins, &outs, &case, "oprf")? else { return Ok(CaseOk::new(false, &0u8, Value::Null)) };
    // inert: value 0 (pairs of dummies are summed into one attributed row: 0 stays 0) and, as
    // documented ("zeros for breakdown_key and value"), breakdown key 0
    for (j, (_, v, bk, _)) in rows.iter().enumerate() {
        if *v != 0 {
            known_or_violation(env, "dummy-nonzero-value:oprf", format!("dummy row {j} reconstructs to value {v}: it would add {v} to a bucket when matched"), case.clone())?;
        }
        if *bk != 0 {
            known_or_violation(env, "dummy-nonzero-breakdown:oprf", format!("dummy row {j} reconstructs to breakdown key {bk}, documented as zero"), case.clone())?;
        }
    }
    // per generating pair (identified by the helper that holds only zero shares): for every
    // cardinality c in 1..=cap the number of dummy match keys with c copies is a draw of the law,
    // hence in 0..=2n
    let mut groups: std::collections::BTreeMap<(usize, u128), u32> = std::collections::BTreeMap::new();
    let mut unclassified = 0;
    for (mk, _, _, ex) in &rows {
        match ex {
            Some(h) => *groups.entry((*h, mk.unwrap())).or_default() += 1,
            None => unclassified += 1,
        }
    }
    let mut per: std::collections::BTreeMap<(usize, u32), u32> = std::collections::BTreeMap::new();
    for ((h, _), c) in &groups {
        *per.entry((*h, *c)).or_default() += 1;
    }
    let passes: std::collections::BTreeSet<usize> = groups.keys().map(|k| k.0).collect();
    for ((h, c), cnt) in &per {
        if *c > cap {
            known_or_violation(env, "dummy-cardinality:oprf", format!("a dummy match key occurs {c} times, cardinality cap is {cap}"), case.clone())?;
        } else if *cnt > 2 * n {
            known_or_violation(env, "dummy-count-support:oprf", format!("pass excluding helper {}: {cnt} dummy match keys of cardinality {c}, support of the law is 0..={} (n = {n})", h + 1, 2 * n), case.clone())?;
        }
    }
    let added = rows.len();
    Ok(CaseOk::new(added > 0, &(eps.to_bits(), delta.to_bits(), sens, cap, wseed, iseed, k), json!({"case": case, "n": n, "rows_added": added}))
        .label(if mal { "malicious-ctx" } else { "semi-honest-ctx" })
        .label(format!("generating-pairs-seen:{}", passes.len()))
        .label(if k == 0 { "empty input" } else { "non-empty input" })
        .label(if unclassified == 0 { "all dummies classified" } else { "some dummy with zero match key share pattern" }))
}

macro_rules! agg_rows {
    ($BK:ty, $B:literal, $bkbits:literal, $eps:expr, $delta:expr, $sens:expr, $mal:expr, $k:expr, $wseed:expr, $iseed:expr) => {{
        type R = AggregateableHybridReport<$BK, BA3>;
        let mut ir = StdRng::seed_from_u64($iseed);
        let mut inputs: [Vec<R>; 3] = [vec![], vec![], vec![]];
        for _ in 0..$k {
            let v = share3::<BA3>(ir.gen_range(0..8), 3, &mut ir);
            let bk = share3::<$BK>(ir.gen_range(0..$B), $bkbits, &mut ir);
            for h in 0..3 {
                inputs[h].push(R { match_key: (), value: v[h].clone(), breakdown_key: bk[h].clone() });
            }
        }
        let to_raw = |r: &R| RawRow { mk: None, v: raw(&r.value), bk: raw(&r.breakdown_key) };
        let ins: [Vec<RawRow>; 3] = [0, 1, 2].map(|h| inputs[h].iter().map(to_raw).collect());
        let params = PaddingParameters {
            aggregation_padding: AggregationPadding::Parameters { aggregation_epsilon: $eps, aggregation_delta: $delta, aggregation_padding_sensitivity: $sens },
            oprf_padding: OPRFPadding::NoOPRFPadding,
        };
        let mal: bool = $mal;
        let res = block_on(async {
            let world = TestWorld::new_with(world_config($wseed));
            if mal { pad3::<_, R, $B>(world.malicious_contexts(), inputs, params).await } else { pad3::<_, R, $B>(world.contexts(), inputs, params).await }
        });
        (ins, res.map(|r| r.map(|x| x.map(|v| v.iter().map(to_raw).collect::<Vec<RawRow>>()).map_err(|e| format!("{e:?}")))))
    }};
}

fn padding_rows_agg(env: &Env, src: &mut Src<'_>) -> CaseResult {
    let (eps, delta, sens) = gen_padding_cfg(src, true);
    let b = src.pick(&[32u32, 256]);
    let mal = src.bool();
    let k = src.urange(0, 12);
    let (wseed, iseed) = (src.seed(), src.seed());
    let case = json!({"kind": "aggregation", "aggregation_epsilon": eps, "aggregation_delta": delta, "aggregation_padding_sensitivity": sens, "breakdowns": b, "malicious_ctx": mal, "input_rows": k, "world_seed": wseed, "input_seed": iseed});
    let Some(n) = ref_n(eps, delta, sens, 100_000) else { return Err(CaseErr::Reject("truncation point undecided".into())) };
    let (ins, res) = if b == 32 { agg_rows!(BA5, 32, 5, eps, delta, sens, mal, k, wseed, iseed) } else { agg_rows!(BA8, 256, 8, eps, delta, sens, mal, k, wseed, iseed) };
    let res = match res {
        Ok(r) => r,
        Err(e) if e.starts_with("no result after") => return Err(CaseErr::Reject(format!("inconclusive: apply_dp_padding: {e}"))),
        Err(e) => return Err(violation("padding-error:agg", format!("apply_dp_padding: {e}"), case)),
    };
    let mut outs: [Vec<RawRow>; 3] = [vec![], vec![], vec![]];
    for (h, r) in res.into_iter().enumerate() {
        match r {
            Ok(v) => outs[h] = v,
            Err(e) => {
                known_or_violation(env, "padding-error:agg", format!("helper {}: apply_dp_padding returned Err({e}) for an admissible configuration", h + 1), case.clone())?;
                return Ok(CaseOk::new(false, &0u8, Value::Null));
            }
        }
    }
    let Some(rows) = check_padded(env, &ins, &outs, &case, "agg")? else { return Ok(CaseOk::new(false, &0u8, Value::Null)) };
    let mut per: std::collections::BTreeMap<(usize, u128), u64> = std::collections::BTreeMap::new();
    let mut zero_bk = 0u64;
    for (j, (_, v, bk, ex)) in rows.iter().enumerate() {
        if *v != 0 {
            known_or_violation(env, "dummy-nonzero-value:agg", format!("dummy row {j} (breakdown {bk}) reconstructs to value {v}: it adds {v} to bucket {bk}"), case.clone())?;
        }
        if *bk >= u128::from(b) {
            known_or_violation(env, "dummy-breakdown-out-of-range:agg", format!("dummy row {j} has breakdown key {bk} >= {b}"), case.clone())?;
        }
        match (bk, ex) {
            (0, _) => zero_bk += 1,
            (_, Some(h)) => *per.entry((*h, *bk)).or_default() += 1,
            _ => {
                known_or_violation(env, "dummy-share-pattern:agg", format!("dummy row {j} (breakdown {bk}): no helper holds the all-zero share of a pairwise generated row"), case.clone())?;
            }
        }
    }
    // breakdown 0 rows look the same in all passes: only their total is judged
    if zero_bk > 6 * u64::from(n) {
        known_or_violation(env, "dummy-count-support:agg", format!("{zero_bk} dummy rows for breakdown 0 in three passes, support of one draw is 0..={}", 2 * n), case.clone())?;
    }
    // counts per (pass, breakdown key >= 1): draws of the law; absent keys are draws equal to 0
    let law = Law::new(eps, n);
    let mut counts = vec![0u64; 2 * n as usize + 1];
    for h in 0..3usize {
        for key in 1..u128::from(b) {
            let c = per.get(&(h, key)).copied().unwrap_or(0);
            if c > 2 * u64::from(n) {
                known_or_violation(env, "dummy-count-support:agg", format!("pass excluding helper {}: {c} dummy rows for breakdown {key}, support of the law is 0..={} (n = {n})", h + 1, 2 * n), case.clone())?;
                return Ok(CaseOk::new(false, &0u8, Value::Null));
            }
            counts[c as usize] += 1;
        }
    }
    let rep = fit(&counts, &law.pmf());
    if let Some(why) = rep.rejects() {
        known_or_violation(env, "dummy-count-law:agg", format!("the {} per-breakdown dummy counts (eps {eps}, delta {delta}, sensitivity {sens}, n = {n}) do not follow the law: {why}", 3 * (b - 1)), case.clone())?;
    }
    Ok(CaseOk::new(!rows.is_empty(), &(eps.to_bits(), delta.to_bits(), sens, b, wseed, iseed, k), json!({"case": case, "n": n, "rows_added": rows.len()}))
        .label(if mal { "malicious-ctx" } else { "semi-honest-ctx" })
        .label(format!("B{b}"))
        .label(if k == 0 { "empty input" } else { "non-empty input" })
        .label(rep.z_label()))
}

/// Aggregation dummies contribute nothing: breakdown_reveal_aggregation with padding on returns
/// the exact per-bucket sums.
fn agg_dummies_inert(env: &Env, src: &mut Src<'_>) -> CaseResult {
    let (eps, delta, sens) = (src.pick(&[3.0, 5.0, 10.0]), src.pick(&[1e-6, 1e-4, 1e-2]), src.range(1, 5) as u32);
    let mal = src.chance(1, 3);
    let k = src.urange(1, 60);
    let (wseed, iseed) = (src.seed(), src.seed());
    let case = json!({"aggregation_epsilon": eps, "aggregation_delta": delta, "aggregation_padding_sensitivity": sens, "malicious": mal, "input_rows": k, "world_seed": wseed, "input_seed": iseed});
    let mut ir = StdRng::seed_from_u64(iseed);
    let mut exact = vec![0u128; 32];
    let rows: Vec<TestAggregateableHybridReport> = (0..k)
        .map(|_| {
            let bk = if ir.gen_bool(0.3) { ir.gen_range(0..3u32) } else { ir.gen_range(0..32u32) };
            let v = ir.gen_range(0..8u32);
            exact[bk as usize] += u128::from(v);
            TestAggregateableHybridReport { match_key: (), value: v, breakdown_key: bk }
        })
        .collect();
    let params = PaddingParameters {
        aggregation_padding: AggregationPadding::Parameters { aggregation_epsilon: eps, aggregation_delta: delta, aggregation_padding_sensitivity: sens },
        oprf_padding: OPRFPadding::NoOPRFPadding,
    };
    type Out = Result<Vec<Replicated<BA16>>, Error>;
    let out: Vec<[Out; 3]> = block_on(async {
        let world = TestWorld::<WithShards<1>>::with_shards(world_config(wseed));
        if mal {
            world
                .malicious(rows.into_iter(), move |ctx, rows| async move {
                    let d = breakdown_reveal_aggregation::<_, BA5, BA3, BA16, 32>(ctx, rows, &params).await?;
                    Ok(Vec::transposed_from(&d)?)
                })
                .await
        } else {
            world
                .semi_honest(rows.into_iter(), move |ctx, rows| async move {
                    let d = breakdown_reveal_aggregation::<_, BA5, BA3, BA16, 32>(ctx, rows, &params).await?;
                    Ok(Vec::transposed_from(&d)?)
                })
                .await
        }
    });
    let per: DpOut = [0, 1, 2].map(|h| out[0][h].as_ref().map(|v| v.iter().map(raw).collect()).map_err(|e| format!("{e:?}")));
    match released(&per, 32) {
        Err(e) => known_or_violation(env, "agg-with-padding-failed", format!("breakdown_reveal_aggregation with aggregation padding: {e}"), case.clone())?,
        Ok(res) => {
            if let Some(i) = (0..32).find(|&i| res[i] != exact[i]) {
                known_or_violation(env, "dummy-contributes:agg", format!("bucket {i}: {} with padding, exact sum {}", res[i], exact[i]), case.clone())?;
            }
        }
    }
    Ok(CaseOk::new(true, &(eps.to_bits(), delta.to_bits(), sens, mal, wseed, iseed, k), case).label(if mal { "malicious" } else { "semi-honest" }))
}

// ------------------------------------------------------------------------------------------

pub fn subs(env: &Env) -> Vec<Sub> {
    let _ = env;
    vec![
        Sub::exhaustive("trunc_grid", GRID_TOTAL, GRID_TOTAL, trunc_grid,
            "(a) grid of 12 log-spaced eps in [0.01,20] x 11 delta in [1e-12,1e-2] x 10 sensitivities in 1..1000: n = OPRFPaddingDp::new(..).get_shift() satisfies n >= sens, tail(n) <= delta and tail(n-1) > delta (also tail(sens) > delta), tail = sum of the `sens` outermost pmf values computed term by term from exp(-eps|x-n|)/Z; non-trivial = decided (no tail within relative 1e-9 of delta)"),
        Sub::random("trunc_random", 16, 12_000, 300_000, trunc_random,
            "(a) boundary-biased random (eps, delta, sens) from the same ranges, plus one further random n' < n; non-trivial = decided"),
        Sub::random("sampler_law", 16, 320, 2_000, sampler_law,
            "(b) 2e5 (thorough 1e6) draws of OPRFPaddingDp::sample from StdRng(seed): support inside 0..=2n; every cell, prefix and suffix count within the Chernoff bound exp(-50); likelihood-ratio statistic over <=64 bins below the Gamma(k-1) bound at 1e-13 (rigorous bounds, no asymptotic p-values); non-trivial = at least 3 bins").shrink_iters(8),
        Sub::exhaustive("share_map_all", share_total(false), share_total(true), share_map_all,
            "(c) every support point x in 0..=2n of 5 (thorough 8) parameter points x widths 8/16/32 x both directions, forced through sample_shares by a scripted RngCore: share = (x-n) mod 2^w on the side shared with the generating peer, 0 on the side shared with the excluded helper; non-trivial = the script produced x"),
        Sub::random("share_map_random", 16, 6_000, 100_000, share_map_random,
            "(c) random admissible (eps, delta, sens), width, direction, x in {0, 2n, n, n-1, n+1, random}; same oracle"),
        Sub::exhaustive("ctor_noiseparams", np_total(), np_total(), ctor_noiseparams,
            "(d) NoiseParams::new: one argument at a time over boundary values (negative, -0.0, 0.0, tiny, interior, upper bound, beyond), the others in range: accepted iff documented (eps, delta, dimensions, quantization_scale, ell_* > 0; success_prob in [0,1])"),
        Sub::exhaustive("ctor_padding_dp", PD_TOTAL, PD_TOTAL, ctor_padding_dp,
            "(d) OPRFPaddingDp::new and Dp::new on the product grid eps {-1,-0,0,0.01,1,20,100} x delta {-1e-6,-0,0,1e-300,1e-12,1e-6,0.5,1-2^-53,1,1+2^-52,2} x sensitivity {1,10,1000,1e6,1e6+1,u32::MAX}: Ok iff eps > 0, 0 < delta < 1, sensitivity <= 1M (and own truncation point <= 1M); non-trivial = OPRFPaddingDp judged (not skipped for run time)"),
        Sub::exhaustive("ctor_dp_for_histogram", DH_CASES.len() as u64, DH_CASES.len() as u64, ctor_dp_for_histogram,
            "(d) dp_for_histogram under TestWorld (32 buckets, 16 bit): Binomial eps in {-1,-0,0,20.5,1e9} and DiscreteLaplace eps in {-1,0} rejected by all helpers; Binomial 10, DiscreteLaplace 0.01 / 20, NoDp accepted with consistent shares").streams(4),
        Sub::random("padding_rows_oprf", 40, 200, 2_000, padding_rows_oprf,
            "(e) apply_dp_padding on IndistinguishableHybridReport<BA8,BA3> in a TestWorld (semi-honest / malicious contexts, 0..12 input rows): equal row counts on the helpers, input prefix untouched, every added row a consistent sharing with value 0 and breakdown 0, per generating pair and cardinality at most 2n dummy match keys, none above the cap; non-trivial = rows were added").shrink_iters(8),
        Sub::random("padding_rows_agg", 40, 200, 2_000, padding_rows_agg,
            "(e) apply_dp_padding on AggregateableHybridReport (B = 32 / 256): as above with value 0, breakdown < B, per pass and breakdown at most 2n rows, and the 3(B-1) counts tested against the law (Chernoff / likelihood-ratio bounds); non-trivial = rows were added").shrink_iters(8),
        Sub::random("agg_dummies_inert", 24, 48, 400, agg_dummies_inert,
            "(e) breakdown_reveal_aggregation (1 shard, BA5/BA3/BA16, B = 32) with aggregation padding on returns exactly the per-bucket sums of the real rows").shrink_iters(4),
        Sub::random("released_buckets", 24, 400, 4_000, released_buckets,
            "(f) dp_for_histogram(DiscreteLaplace) for B in {32,256}, width in {8,16,32}, semi-honest / malicious, on histograms of zeros / near 2^w-1 / small / boundary-mixed values: consistent shares; black box: released - exact (centred) lies in [-3n, 3n] and is pooled for the run-level moment check; white box, order-agnostic: the draws are recomputed in a twin TestWorld with the same seed from the PRSS streams of the three pass gates, and SOME assignment of the three helper pairs to the three passes must explain every bucket = exact + sum of (draw - n) mod 2^w - if none does (the model of how draws are taken is not part of the property) only the black-box checks decide, except for the width-32 pattern of the repaired -1 defect").shrink_iters(8),
        Sub::exhaustive("noise_moment", 1, 1, noise_moment,
            "run level: mean over all pooled released buckets of noise^2 / (3 Var[one draw]) within [0.8, 1.25] (1 for three independent draws of the documented law)"),
    ]
}
