// C13 - each record sent on a channel reaches exactly the matching receive, in any order.
//
// Generated scenarios: a TestWorld (1..3 shards) with k <= 4 logical channels over helper pairs
// and shard pairs that are deliberately "confusable" (same step with another peer, reverse
// direction, same step on another shard, helper channel and shard channel with the same step).
// Every record of every channel is one tokio task for the send and one for the receive (helper
// channels; shard channels have one FIFO consumer); a task performs a generated number of
// `yield_now` before it enters the active window and before it issues its operation, which is the
// schedule under tokio's current-thread scheduler. The harness enforces the precondition of the
// deadlock clause - at most `active` records outstanding per side - and nothing else.
//
// Oracle: payload = f(channel salt, record index), so the expected value of every receive is
// known independently; receive(total) must fail with EndOfStream, send(>= total) with
// TooManyRecords; every operation completes. Deadlock detection is exact: the runtime's
// `on_thread_park` hook fires only when no task is runnable and no harness timer is pending, and
// with no I/O, no other threads and the stall detector's timer pushed out of reach nothing can
// make progress after that. A wall-clock limit maps to "inconclusive" (rejected case), never to a
// violation.

use super::common::{Env, Sub};

pub const LEVEL: &str = "exploration";

/// The check needs the in-memory world on a tokio runtime and free-form step names: it exists in
/// the default (descriptive gate, no shuttle) build only.
#[cfg(not(all(not(feature = "shuttle"), descriptive_gate)))]
pub fn subs(_env: &Env) -> Vec<Sub> {
    vec![]
}

#[cfg(all(not(feature = "shuttle"), descriptive_gate))]
pub use imp::subs;

#[cfg(all(not(feature = "shuttle"), descriptive_gate))]
mod imp {
use std::{
    convert::Infallible,
    fmt::{Debug, Formatter},
    future::Future,
    panic::AssertUnwindSafe,
    pin::Pin,
    sync::{
        Arc, Mutex,
        atomic::{AtomicBool, AtomicUsize, Ordering},
    },
    task::{Poll, Waker},
    time::Duration,
};

use futures::{FutureExt, StreamExt};
use generic_array::{ArrayLength, GenericArray};
use serde_json::{Value, json};
use typenum::{U1, U2, U3, U4, U5, U7, U8, U14, U18, U32};

use super::super::common::*;
use crate::{
    ff::Serializable,
    helpers::{ChannelId, Error as HelperError, GatewayConfig, Role, TotalRecords},
    protocol::{Gate, RecordId},
    secret_sharing::Sendable,
    sharding::ShardIndex,
    test_fixture::{TestWorld, TestWorldConfig, WithShards},
};



// ------------------------------------------------------------------------------------------
// payload type
// ------------------------------------------------------------------------------------------

pub struct Payload<N: ArrayLength>(pub GenericArray<u8, N>);

impl<N: ArrayLength> Debug for Payload<N> {
    fn fmt(&self, f: &mut Formatter<'_>) -> std::fmt::Result {
        write!(f, "Payload{:?}", self.0.as_slice())
    }
}

impl<N: ArrayLength> Serializable for Payload<N> {
    type Size = N;
    type DeserializationError = Infallible;

    fn serialize(&self, buf: &mut GenericArray<u8, Self::Size>) {
        buf.copy_from_slice(&self.0);
    }

    fn deserialize(buf: &GenericArray<u8, Self::Size>) -> Result<Self, Self::DeserializationError> {
        Ok(Self(buf.clone()))
    }
}

impl<N: ArrayLength> Sendable for Payload<N> {}

/// the bytes of record `i` on the channel with salt `salt`
fn payload_bytes(salt: u64, i: usize, size: usize) -> Vec<u8> {
    let mut x = digest(&(salt, i as u64, "c13-payload"));
    let mut v = Vec::with_capacity(size);
    for _ in 0..size {
        // splitmix64
        x = x.wrapping_add(0x9E37_79B9_7F4A_7C15);
        let mut z = x;
        z = (z ^ (z >> 30)).wrapping_mul(0xBF58_476D_1CE4_E5B9);
        z = (z ^ (z >> 27)).wrapping_mul(0x94D0_49BB_1331_11EB);
        v.push((z ^ (z >> 31)) as u8);
    }
    v
}

fn payload<N: ArrayLength>(salt: u64, i: usize) -> Payload<N> {
    Payload(GenericArray::<u8, N>::from_slice(&payload_bytes(salt, i, N::USIZE)).clone())
}

const SIZES: [usize; 10] = [1, 2, 3, 4, 5, 7, 8, 14, 18, 32];

macro_rules! by_size {
    ($s:expr, $f:ident ( $($a:expr),* )) => {
        match $s {
            1 => $f::<U1>($($a),*),
            2 => $f::<U2>($($a),*),
            3 => $f::<U3>($($a),*),
            4 => $f::<U4>($($a),*),
            5 => $f::<U5>($($a),*),
            7 => $f::<U7>($($a),*),
            8 => $f::<U8>($($a),*),
            14 => $f::<U14>($($a),*),
            18 => $f::<U18>($($a),*),
            32 => $f::<U32>($($a),*),
            other => unreachable!("message size {other}"),
        }
    };
}

// ------------------------------------------------------------------------------------------
// scenario
// ------------------------------------------------------------------------------------------

#[derive(Clone, Copy, Debug, PartialEq, Eq, Hash)]
enum Kind {
    /// helper `from` -> helper `to`, both on shard `shard`
    Mpc { shard: usize, from: usize, to: usize },
    /// helper `role`: shard `from` -> shard `to`
    Shard { role: usize, from: usize, to: usize },
}

#[derive(Clone, Debug)]
struct Chan {
    kind: Kind,
    gate: String,
    size: usize,
    /// declared total (None = indeterminate, closed explicitly after `n` records)
    total: Option<usize>,
    /// records actually sent (= total when specified)
    n: usize,
    salt: u64,
    /// (yields before entering the window, yields before the operation) per send / per receive
    send_delay: Vec<(u8, u8)>,
    recv_delay: Vec<(u8, u8)>,
    /// the receive for record i is first polled once and abandoned (`now_or_never`), then issued
    /// again: the request is repeated with another waker
    recv_peek: Vec<bool>,
    /// the same on the sending side: send(i) is first attempted once without blocking (a
    /// throw-away poll while it is not its turn), then issued for real from the task
    send_peek: Vec<bool>,
    /// receive(n): must see the end of the stream
    ask_eos: bool,
    /// send(total + k) on a specified channel: must be rejected
    send_past: Option<usize>,
    /// create the receiving end before the sending end
    recv_end_first: bool,
    /// > 0: the sending end is created (and the stream registered with the transport) only after
    /// the scenario's main task has yielded this many times; the receivers start right away
    open_late: u8,
    /// indeterminate channels: the close is issued like record `n` inside the window (true) or
    /// sequentially after all sends have completed (false)
    close_in_window: bool,
}

#[derive(Clone, Debug)]
struct Scn {
    shards: usize,
    active: usize,
    read_size: usize,
    seed: u64,
    chans: Vec<Chan>,
}

const ROLES: [Role; 3] = [Role::H1, Role::H2, Role::H3];

fn kind_json(k: &Kind) -> Value {
    match k {
        Kind::Mpc { shard, from, to } => json!({"helper_channel": format!("{:?}->{:?}", ROLES[*from], ROLES[*to]), "shard": shard}),
        Kind::Shard { role, from, to } => json!({"shard_channel": format!("shard {from}->{to}"), "helper": format!("{:?}", ROLES[*role])}),
    }
}

impl Scn {
    fn json(&self) -> Value {
        json!({
            "shards": self.shards, "active": self.active, "read_size": self.read_size,
            "channels": self.chans.iter().map(|c| json!({
                "kind": kind_json(&c.kind), "step": c.gate, "message_size": c.size,
                "total_records": c.total.map_or(json!("indeterminate"), |t| json!(t)), "records": c.n,
                "send_yields": c.send_delay.iter().map(|d| [d.0, d.1]).collect::<Vec<_>>(),
                "recv_yields": c.recv_delay.iter().map(|d| [d.0, d.1]).collect::<Vec<_>>(),
                "recv_peek_first": c.recv_peek, "send_attempted_first": c.send_peek,
                "receive_past_total": c.ask_eos, "send_past_total": c.send_past, "receiver_created_first": c.recv_end_first, "sender_opened_after_yields": c.open_late,
                "close_in_window": c.close_in_window,
            })).collect::<Vec<_>>(),
        })
    }
}

fn gen_delay(src: &mut Src<'_>, style: u64) -> u8 {
    match style {
        0 => 0,
        1 => src.below(3) as u8,
        2 => src.below(8) as u8,
        _ => {
            if src.chance(1, 6) {
                src.range(8, 40) as u8
            } else {
                src.below(4) as u8
            }
        }
    }
}

fn gen_scenario(src: &mut Src<'_>) -> Scn {
    let shards = src.pick(&[1usize, 1, 1, 2, 2, 3]);
    let active = src.pick(&[2usize, 2, 4, 4, 16]);
    let read_size = src.pick(&[1usize, 3, 16, 16, 2048]);
    let seed = src.seed();
    let k = src.urange(1, 4);
    let mut chans: Vec<Chan> = vec![];
    let gates = ["c13-a", "c13-b", "c13-a/x"];
    for ci in 0..k {
        // derive the channel from an earlier one with one coordinate changed, or draw a fresh one
        let mut kind;
        let mut gate;
        let mut tries = 0;
        loop {
            let base = if !chans.is_empty() && src.chance(3, 4) { Some(chans[src.idx(chans.len())].clone()) } else { None };
            match base {
                Some(b) => {
                    gate = b.gate.clone();
                    kind = b.kind;
                    match (src.below(6), b.kind) {
                        (0, Kind::Mpc { shard, from, to }) => kind = Kind::Mpc { shard, from: to, to: from },
                        (1, Kind::Mpc { shard, from, to }) => kind = Kind::Mpc { shard, from, to: 3 - from - to },
                        (2, Kind::Mpc { shard, from, to }) => kind = Kind::Mpc { shard, from: 3 - from - to, to },
                        (3, Kind::Mpc { shard, from, to }) if shards > 1 => kind = Kind::Mpc { shard: (shard + 1 + src.idx(shards - 1)) % shards, from, to },
                        (4, Kind::Mpc { shard, from, .. }) if shards > 1 => kind = Kind::Shard { role: from, from: shard, to: (shard + 1 + src.idx(shards - 1)) % shards },
                        (0, Kind::Shard { role, from, to }) => kind = Kind::Shard { role, from: to, to: from },
                        (1, Kind::Shard { role, from, to }) => kind = Kind::Shard { role: (role + 1 + src.idx(2)) % 3, from, to },
                        (2, Kind::Shard { role, from, to }) if shards > 2 => kind = Kind::Shard { role, from, to: 3 - from - to },
                        (3, Kind::Shard { role, from, .. }) => kind = Kind::Mpc { shard: from, from: role, to: (role + 1 + src.idx(2)) % 3 },
                        _ => gate = gates[src.idx(gates.len())].to_string(),
                    }
                }
                None => {
                    gate = gates[src.idx(gates.len())].to_string();
                    if shards > 1 && src.chance(1, 3) {
                        let from = src.idx(shards);
                        kind = Kind::Shard { role: src.idx(3), from, to: (from + 1 + src.idx(shards - 1)) % shards };
                    } else {
                        let from = src.idx(3);
                        kind = Kind::Mpc { shard: src.idx(shards), from, to: (from + 1 + src.idx(2)) % 3 };
                    }
                }
            }
            if !chans.iter().any(|c| c.kind == kind && c.gate == gate) {
                break;
            }
            tries += 1;
            if tries > 8 {
                gate = format!("c13-u{ci}");
                break;
            }
        }
        let size = src.pick(&SIZES);
        let indeterminate = src.chance(1, 5);
        let n = src.pick(&[1usize, 1, 2, 3, 4, 5, 7, 8, 9, 15, 16, 17, 23, 32, 33, 40]);
        let style = src.below(4);
        let recv_late = src.pick(&[0u8, 0, 0, 12, 40]);
        let send_late = src.pick(&[0u8, 0, 0, 12, 40]);
        let ask_eos = src.chance(2, 3);
        let send_delay = (0..=n).map(|_| (gen_delay(src, style).saturating_add(send_late), gen_delay(src, style))).collect();
        let recv_delay = (0..=n).map(|_| (gen_delay(src, style).saturating_add(recv_late), gen_delay(src, style))).collect();
        let peeks = src.chance(1, 4);
        let recv_peek: Vec<bool> = (0..=n).map(|_| peeks && src.chance(1, 3)).collect();
        let speeks = src.chance(1, 4);
        let send_peek: Vec<bool> = (0..=n).map(|_| speeks && src.chance(1, 3)).collect();
        chans.push(Chan {
            kind,
            gate,
            size,
            total: if indeterminate { None } else { Some(n) },
            n,
            salt: digest(&(seed, ci as u64, "c13-salt")),
            send_delay,
            recv_delay,
            recv_peek,
            send_peek,
            ask_eos,
            send_past: if !indeterminate && src.chance(1, 3) { Some(src.pick(&[0usize, 0, 1, 5])) } else { None },
            recv_end_first: src.bool(),
            open_late: src.pick(&[0u8, 0, 0, 3, 10, 30]),
            close_in_window: src.bool(),
        });
    }
    Scn { shards, active, read_size, seed, chans }
}

// ------------------------------------------------------------------------------------------
// execution
// ------------------------------------------------------------------------------------------

enum World {
    S1(TestWorld),
    S2(TestWorld<WithShards<2>>),
    S3(TestWorld<WithShards<3>>),
}

impl World {
    fn new(shards: usize, cfg: &TestWorldConfig) -> Self {
        match shards {
            1 => World::S1(TestWorld::new_with(cfg)),
            2 => World::S2(TestWorld::<WithShards<2>>::with_shards(cfg)),
            _ => World::S3(TestWorld::<WithShards<3>>::with_shards(cfg)),
        }
    }
    fn gateway(&self, shard: usize, role: usize) -> &crate::helpers::Gateway {
        let s = ShardIndex::try_from(shard).unwrap();
        match self {
            World::S1(w) => w.gateway(ROLES[role]),
            World::S2(w) => w.gateway(ROLES[role], s),
            World::S3(w) => w.gateway(ROLES[role], s),
        }
    }
}

#[derive(Clone, Debug, PartialEq, Eq)]
enum OpRes {
    /// send/close completed
    Done,
    /// received bytes
    Bytes(Vec<u8>),
    /// the stream of a shard channel ended
    End,
    TooManyRecords,
    EndOfStream,
    OtherErr(String),
    Panicked(String, String),
}

#[derive(Clone, Debug, Default)]
struct OpLog {
    issued: Option<u64>,
    completed: Option<u64>,
    res: Option<OpRes>,
}

#[derive(Default)]
struct ChanLog {
    sends: Vec<OpLog>,
    recvs: Vec<OpLog>,
    close: OpLog,
    past: OpLog,
}

struct Shared {
    logs: Mutex<Vec<ChanLog>>,
    seq: AtomicUsize,
    remaining: AtomicUsize,
    idle: AtomicBool,
    main_waker: Mutex<Option<Waker>>,
}

impl Shared {
    fn tick(&self) -> u64 {
        self.seq.fetch_add(1, Ordering::SeqCst) as u64
    }
    fn finish_task(&self) {
        self.remaining.fetch_sub(1, Ordering::SeqCst);
        if let Some(w) = self.main_waker.lock().unwrap().as_ref() {
            w.wake_by_ref();
        }
    }
}

#[derive(Clone, Copy)]
enum Slot {
    Send(usize),
    Recv(usize),
    Close,
    Past,
}

fn with_log<R>(sh: &Shared, c: usize, slot: Slot, f: impl FnOnce(&mut OpLog) -> R) -> R {
    let mut g = sh.logs.lock().unwrap();
    let l = &mut g[c];
    match slot {
        Slot::Send(i) => f(&mut l.sends[i]),
        Slot::Recv(i) => f(&mut l.recvs[i]),
        Slot::Close => f(&mut l.close),
        Slot::Past => f(&mut l.past),
    }
}

async fn yields(n: u8) {
    for _ in 0..n {
        tokio::task::yield_now().await;
    }
}

/// Spawn one harness task: `pre` yields, wait for the window (`gate`), `post` yields, the
/// operation; panics of the operation are recorded, not propagated.
fn spawn_op<F>(sh: &Arc<Shared>, c: usize, slot: Slot, delay: (u8, u8), gate: Option<(Arc<Prefix>, usize, usize)>, done: Option<Arc<Prefix>>, idx: usize, op: F)
where
    F: Future<Output = OpRes> + Send + 'static,
{
    sh.remaining.fetch_add(1, Ordering::SeqCst);
    let sh = Arc::clone(sh);
    tokio::spawn(async move {
        yields(delay.0).await;
        if let Some((prefix, i, window)) = gate {
            // at most `window` records outstanding: record i waits until records 0..=i-window are complete
            prefix.wait_until(i + 1 - window.min(i + 1)).await;
        }
        yields(delay.1).await;
        let t = sh.tick();
        with_log(&sh, c, slot, |l| l.issued = Some(t));
        let res = match AssertUnwindSafe(op).catch_unwind().await {
            Ok(r) => r,
            Err(p) => {
                let msg = panic_message(&p);
                let (loc, m2) = take_last_panic().unwrap_or_else(|| ("?".into(), msg.clone()));
                OpRes::Panicked(strip_repo_prefix(&loc), if m2.is_empty() { msg } else { m2 })
            }
        };
        let t = sh.tick();
        with_log(&sh, c, slot, |l| {
            l.completed = Some(t);
            l.res = Some(res);
        });
        if let Some(p) = done {
            p.complete(idx);
        }
        sh.finish_task();
    });
}

/// Contiguous-prefix counter with FIFO waiters. (tokio's watch/Notify pick a waiter list at
/// random, which would make a case depend on more than its choice sequence.)
struct Prefix {
    st: Mutex<PrefixState>,
}

struct PrefixState {
    done: Vec<bool>,
    prefix: usize,
    waiters: Vec<(usize, Waker)>,
}

impl Prefix {
    fn new(n: usize) -> Arc<Self> {
        Arc::new(Self { st: Mutex::new(PrefixState { done: vec![false; n], prefix: 0, waiters: vec![] }) })
    }
    fn complete(&self, i: usize) {
        let woken: Vec<Waker> = {
            let mut g = self.st.lock().unwrap();
            if i < g.done.len() {
                g.done[i] = true;
            }
            while g.prefix < g.done.len() && g.done[g.prefix] {
                g.prefix += 1;
            }
            let p = g.prefix;
            let (ready, rest): (Vec<_>, Vec<_>) = std::mem::take(&mut g.waiters).into_iter().partition(|(need, _)| *need <= p);
            g.waiters = rest;
            ready.into_iter().map(|(_, w)| w).collect()
        };
        for w in woken {
            w.wake();
        }
    }
    /// resolves once at least `need` operations 0..need have completed
    fn wait_until(self: &Arc<Self>, need: usize) -> impl Future<Output = ()> + Send + 'static {
        let this = Arc::clone(self);
        std::future::poll_fn(move |cx| {
            let mut g = this.st.lock().unwrap();
            if g.prefix >= need {
                Poll::Ready(())
            } else {
                g.waiters.push((need, cx.waker().clone()));
                Poll::Pending
            }
        })
    }
}

fn classify_send<I: crate::helpers::TransportIdentity>(r: Result<(), HelperError<I>>) -> OpRes {
    match r {
        Ok(()) => OpRes::Done,
        Err(HelperError::TooManyRecords { .. }) => OpRes::TooManyRecords,
        Err(e) => OpRes::OtherErr(format!("{e}")),
    }
}

/// `part`: 0 = both ends, 1 = receiving end (and its operations) only, 2 = sending end only
fn spawn_channel<N: ArrayLength>(world: &World, scn: &Scn, c: usize, sh: &Arc<Shared>, part: u8) {
    let (want_tx, want_rx) = (part != 1, part != 2);
    let ch = &scn.chans[c];
    let gate = Gate::from(ch.gate.as_str());
    let total = match ch.total {
        Some(t) => TotalRecords::specified(t).unwrap(),
        None => TotalRecords::Indeterminate,
    };
    let window = scn.active;
    let n = ch.n;
    let salt = ch.salt;
    // operation n of the sending side is the close of an indeterminate channel
    let send_prefix = Prefix::new(n + 1);
    let recv_prefix = Prefix::new(n + 1);
    match ch.kind {
        Kind::Mpc { shard, from, to } => {
            let mk_tx = || Arc::new(world.gateway(shard, from).get_mpc_sender::<Payload<N>>(&ChannelId::new(ROLES[to], gate.clone()), total, scn.active.try_into().unwrap()));
            let mk_rx = || Arc::new(world.gateway(shard, to).get_mpc_receiver::<Payload<N>>(&ChannelId::new(ROLES[from], gate.clone())));
            let (tx, rx) = match (want_tx, want_rx) {
                (true, true) if ch.recv_end_first => {
                    let rx = mk_rx();
                    (Some(mk_tx()), Some(rx))
                }
                (true, true) => {
                    let tx = mk_tx();
                    (Some(tx), Some(mk_rx()))
                }
                (true, false) => (Some(mk_tx()), None),
                _ => (None, Some(mk_rx())),
            };
            if let Some(tx) = tx {
            for i in 0..n {
                let tx = Arc::clone(&tx);
                let peek = ch.send_peek[i];
                spawn_op(sh, c, Slot::Send(i), ch.send_delay[i], Some((Arc::clone(&send_prefix), i, window)), Some(Arc::clone(&send_prefix)), i, async move {
                    // "can it go out right now?": one poll in a throw-away context, then the real send
                    let early = if peek { futures::FutureExt::now_or_never(tx.send(RecordId::from(i), payload::<N>(salt, i))) } else { None };
                    if peek && early.is_none() {
                        tokio::task::yield_now().await;
                    }
                    classify_send(match early {
                        Some(r) => r,
                        None => tx.send(RecordId::from(i), payload::<N>(salt, i)).await,
                    })
                });
            }
            if ch.total.is_none() {
                let tx = Arc::clone(&tx);
                let gate_at = if ch.close_in_window { (Arc::clone(&send_prefix), n, window) } else { (Arc::clone(&send_prefix), n, 1) };
                spawn_op(sh, c, Slot::Close, ch.send_delay[n], Some(gate_at), Some(Arc::clone(&send_prefix)), n, async move {
                    tx.close(RecordId::from(n)).await;
                    OpRes::Done
                });
            }
            if let Some(extra) = ch.send_past {
                let tx = Arc::clone(&tx);
                spawn_op(sh, c, Slot::Past, ch.send_delay[n], None, None, 0, async move {
                    classify_send(tx.send(RecordId::from(n + extra), payload::<N>(salt, n + extra)).await)
                });
            }
            }
            let n_recv = if ch.ask_eos { n + 1 } else { n };
            let Some(rx) = rx else { return };
            for i in 0..n_recv {
                let rx = Arc::clone(&rx);
                let peek = ch.recv_peek[i];
                spawn_op(sh, c, Slot::Recv(i), ch.recv_delay[i], Some((Arc::clone(&recv_prefix), i, window)), Some(Arc::clone(&recv_prefix)), i, async move {
                    // "is it there yet?": one poll in a throw-away context, then the real request
                    let early = if peek { futures::FutureExt::now_or_never(rx.receive(RecordId::from(i))) } else { None };
                    if peek && early.is_none() {
                        tokio::task::yield_now().await;
                    }
                    let res = match early {
                        Some(r) => r,
                        None => rx.receive(RecordId::from(i)).await,
                    };
                    match res {
                        Ok(v) => OpRes::Bytes(v.0.to_vec()),
                        Err(HelperError::EndOfStream { .. }) => OpRes::EndOfStream,
                        Err(e) => OpRes::OtherErr(format!("{e}")),
                    }
                });
            }
        }
        Kind::Shard { role, from, to } => {
            let (from_s, to_s) = (ShardIndex::try_from(from).unwrap(), ShardIndex::try_from(to).unwrap());
            let mk_tx = || Arc::new(world.gateway(from, role).get_shard_sender::<Payload<N>>(&ChannelId::new(to_s, gate.clone()), total));
            let mk_rx = || world.gateway(to, role).get_shard_receiver::<Payload<N>>(&ChannelId::new(from_s, gate.clone()));
            let (tx, rx) = match (want_tx, want_rx) {
                (true, true) if ch.recv_end_first => {
                    let rx = mk_rx();
                    (Some(mk_tx()), Some(rx))
                }
                (true, true) => {
                    let tx = mk_tx();
                    (Some(tx), Some(mk_rx()))
                }
                (true, false) => (Some(mk_tx()), None),
                _ => (None, Some(mk_rx())),
            };
            if let Some(tx) = tx {
            for i in 0..n {
                let tx = Arc::clone(&tx);
                let peek = ch.send_peek[i];
                spawn_op(sh, c, Slot::Send(i), ch.send_delay[i], Some((Arc::clone(&send_prefix), i, window)), Some(Arc::clone(&send_prefix)), i, async move {
                    // "can it go out right now?": one poll in a throw-away context, then the real send
                    let early = if peek { futures::FutureExt::now_or_never(tx.send(RecordId::from(i), payload::<N>(salt, i))) } else { None };
                    if peek && early.is_none() {
                        tokio::task::yield_now().await;
                    }
                    classify_send(match early {
                        Some(r) => r,
                        None => tx.send(RecordId::from(i), payload::<N>(salt, i)).await,
                    })
                });
            }
            if ch.total.is_none() {
                let tx = Arc::clone(&tx);
                let gate_at = if ch.close_in_window { (Arc::clone(&send_prefix), n, window) } else { (Arc::clone(&send_prefix), n, 1) };
                spawn_op(sh, c, Slot::Close, ch.send_delay[n], Some(gate_at), Some(Arc::clone(&send_prefix)), n, async move {
                    tx.close(RecordId::from(n)).await;
                    OpRes::Done
                });
            }
            if let Some(extra) = ch.send_past {
                let tx = Arc::clone(&tx);
                spawn_op(sh, c, Slot::Past, ch.send_delay[n], None, None, 0, async move {
                    classify_send(tx.send(RecordId::from(n + extra), payload::<N>(salt, n + extra)).await)
                });
            }
            }
            let Some(rx) = rx else { return };
            let mut rx = Box::pin(rx);
            // one FIFO consumer: item j is logged as receive j; the item after the last record
            // must be the end of the stream
            sh.remaining.fetch_add(1, Ordering::SeqCst);
            let sh2 = Arc::clone(sh);
            let delays = ch.recv_delay.clone();
            let ask_eos = ch.ask_eos;
            tokio::spawn(async move {
                let n_recv = if ask_eos { n + 1 } else { n };
                for j in 0..n_recv {
                    yields(delays[j].0).await;
                    let t = sh2.tick();
                    with_log(&sh2, c, Slot::Recv(j), |l| l.issued = Some(t));
                    let res = match AssertUnwindSafe(rx.next()).catch_unwind().await {
                        Ok(Some(Ok(v))) => OpRes::Bytes(v.0.to_vec()),
                        Ok(Some(Err(e))) => OpRes::OtherErr(format!("{e}")),
                        Ok(None) => OpRes::End,
                        Err(p) => {
                            let msg = panic_message(&p);
                            let (loc, m2) = take_last_panic().unwrap_or_else(|| ("?".into(), msg.clone()));
                            OpRes::Panicked(strip_repo_prefix(&loc), if m2.is_empty() { msg } else { m2 })
                        }
                    };
                    let stop = !matches!(res, OpRes::Bytes(_));
                    let t = sh2.tick();
                    with_log(&sh2, c, Slot::Recv(j), |l| {
                        l.completed = Some(t);
                        l.res = Some(res);
                    });
                    if stop {
                        break;
                    }
                }
                sh2.finish_task();
            });
            let _ = recv_prefix;
        }
    }
}

enum Verdict {
    Done,
    Quiescent,
    Timeout,
}

const CASE_TIMEOUT: Duration = Duration::from_secs(120);

fn run_scenario(scn: &Scn) -> (Verdict, Vec<ChanLog>, Option<(String, String)>) {
    let sh = Arc::new(Shared {
        logs: Mutex::new(
            scn.chans
                .iter()
                .map(|c| ChanLog { sends: vec![OpLog::default(); c.n], recvs: vec![OpLog::default(); c.n + 1], close: OpLog::default(), past: OpLog::default() })
                .collect(),
        ),
        seq: AtomicUsize::new(0),
        remaining: AtomicUsize::new(0),
        idle: AtomicBool::new(false),
        main_waker: Mutex::new(None),
    });
    let rt = tokio::runtime::Builder::new_current_thread()
        .enable_time()
        .on_thread_park({
            let sh = Arc::clone(&sh);
            move || {
                // called only when the scheduler has no runnable task, no deferred wake-up and
                // the main future has not been woken: everything is idle
                sh.idle.store(true, Ordering::SeqCst);
                if let Some(w) = sh.main_waker.lock().unwrap().as_ref() {
                    w.wake_by_ref();
                }
            }
        })
        .build()
        .unwrap();
    let _ = take_last_panic();
    let verdict = rt.block_on(async {
        let mut gateway_config = GatewayConfig { active: scn.active.try_into().unwrap(), read_size: scn.read_size.try_into().unwrap(), ..Default::default() };
        // the stall detector's timer must never fire during a case (it would only log)
        #[cfg(feature = "stall-detection")]
        {
            gateway_config.progress_check_interval = Duration::from_secs(10_000_000);
        }
        let cfg = TestWorldConfig { gateway_config, seed: scn.seed, ..Default::default() };
        let world = World::new(scn.shards, &cfg);
        for c in 0..scn.chans.len() {
            let part = if scn.chans[c].open_late > 0 { 1 } else { 0 };
            by_size!(scn.chans[c].size, spawn_channel(&world, scn, c, &sh, part));
        }
        // sending ends that are opened late: the receivers (and their early peeks) run while the
        // peer's stream is not even registered with the transport
        let mut late: Vec<usize> = (0..scn.chans.len()).filter(|c| scn.chans[*c].open_late > 0).collect();
        late.sort_by_key(|c| scn.chans[*c].open_late);
        let mut waited = 0u8;
        for c in late {
            yields(scn.chans[c].open_late - waited).await;
            waited = scn.chans[c].open_late;
            by_size!(scn.chans[c].size, spawn_channel(&world, scn, c, &sh, 2));
        }
        let mut sleep = Box::pin(tokio::time::sleep(CASE_TIMEOUT));
        let v = std::future::poll_fn(|cx| {
            *sh.main_waker.lock().unwrap() = Some(cx.waker().clone());
            if sh.remaining.load(Ordering::SeqCst) == 0 {
                return Poll::Ready(Verdict::Done);
            }
            if sh.idle.swap(false, Ordering::SeqCst) {
                return Poll::Ready(Verdict::Quiescent);
            }
            if sleep.as_mut().poll(cx).is_ready() {
                return Poll::Ready(Verdict::Timeout);
            }
            Poll::Pending
        })
        .await;
        *sh.main_waker.lock().unwrap() = None;
        // keep the world alive until the verdict; it is dropped with the runtime's tasks below
        (v, world)
    });
    let (v, world) = verdict;
    // a panic in a task owned by the code under test (transport loops) shows up here
    let stray_panic = take_last_panic();
    drop(rt);
    drop(world);
    let logs = std::mem::take(&mut *sh.logs.lock().unwrap());
    (v, logs, stray_panic)
}

// ------------------------------------------------------------------------------------------
// the case
// ------------------------------------------------------------------------------------------

/// which (channel, index) of the scenario has these bytes as its payload
fn whose_payload(scn: &Scn, bytes: &[u8]) -> Option<(usize, usize)> {
    for (c, ch) in scn.chans.iter().enumerate() {
        if ch.size != bytes.len() {
            continue;
        }
        for i in 0..=ch.n + 6 {
            if payload_bytes(ch.salt, i, ch.size) == bytes {
                return Some((c, i));
            }
        }
    }
    None
}

fn inversions(seq: &[Option<u64>]) -> bool {
    // out of order = some record was issued before a record with a smaller index
    let mut max_seen: Option<u64> = None;
    for s in seq.iter().flatten() {
        if let Some(m) = max_seen {
            if *s < m {
                return true;
            }
        }
        max_seen = Some(max_seen.map_or(*s, |m| m.max(*s)));
    }
    false
}

fn channels_case(env: &Env, src: &mut Src<'_>) -> CaseResult {
    let scn = gen_scenario(src);
    let (verdict, logs, stray_panic) = run_scenario(&scn);
    let status = |l: &OpLog| match (&l.issued, &l.res) {
        (None, _) => "not issued".to_string(),
        (Some(_), None) => "PENDING".to_string(),
        (_, Some(r)) => match r {
            OpRes::Bytes(b) => format!("ok {} bytes", b.len()),
            other => format!("{other:?}"),
        },
    };
    let case = |logs: &[ChanLog]| {
        let mut c = scn.json();
        c["outcome"] = json!(
            logs.iter()
                .map(|l| json!({
                    "sends": l.sends.iter().map(&status).collect::<Vec<_>>(),
                    "receives": l.recvs.iter().map(&status).collect::<Vec<_>>(),
                    "close": status(&l.close), "send_past_total": status(&l.past),
                }))
                .collect::<Vec<_>>()
        );
        c
    };
    // panics first: they explain everything else
    for (c, l) in logs.iter().enumerate() {
        for op in l.sends.iter().chain(l.recvs.iter()).chain([&l.close, &l.past]) {
            if let Some(OpRes::Panicked(loc, msg)) = &op.res {
                known_or_violation(env, &format!("panic:{}", loc_file(loc)), format!("channel {c}: operation panicked at {loc}: {msg}"), case(&logs))?;
            }
        }
    }
    match verdict {
        Verdict::Timeout => {
            // inconclusive, never a violation; keep the scenario so that it can be examined
            let path = format!("{}/C13-timeout-{:016x}.json", env.replay_dir, digest(&format!("{}", scn.json())));
            let _ = std::fs::create_dir_all(&env.replay_dir);
            let _ = std::fs::write(&path, serde_json::to_string_pretty(&case(&logs)).unwrap_or_default());
            return Err(CaseErr::Reject("case exceeded the wall-clock limit (inconclusive)".into()));
        }
        Verdict::Quiescent => {
            if let Some((loc, msg)) = &stray_panic {
                known_or_violation(env, &format!("panic:{}", loc_file(&strip_repo_prefix(loc))), format!("a task of the infrastructure panicked at {loc}: {msg}; the exchange then stalled"), case(&logs))?;
            } else {
                let mut stuck = vec![];
                for (c, l) in logs.iter().enumerate() {
                    for (i, op) in l.sends.iter().enumerate() {
                        if op.issued.is_some() && op.res.is_none() {
                            stuck.push(format!("ch{c}.send({i})"));
                        }
                    }
                    for (i, op) in l.recvs.iter().enumerate() {
                        if op.issued.is_some() && op.res.is_none() {
                            stuck.push(format!("ch{c}.receive({i})"));
                        }
                    }
                    if l.close.issued.is_some() && l.close.res.is_none() {
                        stuck.push(format!("ch{c}.close"));
                    }
                }
                let msg = format!(
                    "no task is runnable and nothing is pending in the runtime, but these operations have not completed although at most active={} records are outstanding per side: {}",
                    scn.active,
                    stuck.join(", ")
                );
                known_or_violation(env, "c13:deadlock", msg, case(&logs))?;
            }
            return Ok(CaseOk::new(false, &0u8, Value::Null).label("known_finding_case"));
        }
        Verdict::Done => {}
    }
    // all operations completed: compare with the expectation
    let mut ooo_send = false;
    let mut ooo_recv = false;
    let mut recv_before_send = false;
    for (c, (ch, l)) in scn.chans.iter().zip(&logs).enumerate() {
        for (i, op) in l.sends.iter().enumerate() {
            if op.res != Some(OpRes::Done) {
                known_or_violation(env, "c13:send-failed", format!("channel {c}: send({i}) of {} returned {:?}", ch.n, op.res), case(&logs))?;
            }
        }
        if ch.total.is_none() && l.close.res != Some(OpRes::Done) {
            known_or_violation(env, "c13:close-failed", format!("channel {c}: close({}) returned {:?}", ch.n, l.close.res), case(&logs))?;
        }
        // "sending beyond the count is an error": any error value will do, the variant is the code's choice
        if ch.send_past.is_some() && !matches!(l.past.res, Some(OpRes::TooManyRecords | OpRes::OtherErr(_))) {
            known_or_violation(
                env,
                "c13:send-past-total-accepted",
                format!("channel {c}: send({}) on a channel of {} records returned {:?} instead of an error", ch.n + ch.send_past.unwrap(), ch.n, l.past.res),
                case(&logs),
            )?;
        }
        let is_shard = matches!(ch.kind, Kind::Shard { .. });
        for i in 0..ch.n {
            let want = payload_bytes(ch.salt, i, ch.size);
            match &l.recvs[i].res {
                Some(OpRes::Bytes(b)) if *b == want => {}
                Some(OpRes::Bytes(b)) => {
                    let (sig, what) = match whose_payload(&scn, b) {
                        Some((c2, i2)) if c2 == c => ("c13:wrong-record".to_string(), format!("the payload of record {i2} of the same channel")),
                        Some((c2, i2)) => (
                            format!(
                                "c13:leak:{}",
                                match (ch.kind, scn.chans[c2].kind) {
                                    (Kind::Mpc { shard: s1, .. }, Kind::Mpc { shard: s2, .. }) if s1 != s2 => "other-shard",
                                    (Kind::Mpc { .. }, Kind::Mpc { .. }) if ch.gate != scn.chans[c2].gate => "other-step",
                                    (Kind::Mpc { .. }, Kind::Mpc { .. }) => "other-peer",
                                    (Kind::Shard { .. }, Kind::Shard { .. }) => "other-shard-channel",
                                    _ => "helper-vs-shard-channel",
                                }
                            ),
                            format!("the payload of record {i2} of channel {c2}"),
                        ),
                        None => ("c13:corrupt-payload".to_string(), "no payload of this scenario".to_string()),
                    };
                    known_or_violation(env, &sig, format!("channel {c}: receive({i}) returned {b:?} = {what}; sent for this record: {want:?}"), case(&logs))?;
                }
                other => {
                    known_or_violation(env, "c13:receive-failed", format!("channel {c}: receive({i}) of {} returned {other:?}", ch.n), case(&logs))?;
                }
            }
        }
        if ch.ask_eos {
            let want = if is_shard { OpRes::End } else { OpRes::EndOfStream };
            // the channel is closed after its records: the receive past them must say so - end of
            // the stream or an error value of whatever variant - and must neither hang nor yield data
            if !matches!(l.recvs[ch.n].res, Some(OpRes::End | OpRes::EndOfStream | OpRes::OtherErr(_))) {
                known_or_violation(
                    env,
                    "c13:no-end-of-stream",
                    format!("channel {c}: receive({}) past the {} records of the channel returned {:?}, expected {want:?}", ch.n, ch.n, l.recvs[ch.n].res),
                    case(&logs),
                )?;
            }
        }
        ooo_send |= inversions(&l.sends.iter().map(|o| o.issued).collect::<Vec<_>>());
        if !is_shard {
            ooo_recv |= inversions(&l.recvs[..ch.n].iter().map(|o| o.issued).collect::<Vec<_>>());
        }
        recv_before_send |= (0..ch.n).any(|i| l.recvs[i].issued < l.sends[i].issued);
    }
    if let Some((loc, msg)) = &stray_panic {
        known_or_violation(env, &format!("panic:{}", loc_file(&strip_repo_prefix(loc))), format!("a task of the infrastructure panicked at {loc}: {msg}"), case(&logs))?;
    }
    let nontrivial = ooo_send || ooo_recv;
    let fingerprint: Vec<(Vec<Option<u64>>, Vec<Option<u64>>)> = logs.iter().map(|l| (l.sends.iter().map(|o| o.issued).collect(), l.recvs.iter().map(|o| o.issued).collect())).collect();
    let mut ok = CaseOk::new(nontrivial, &(scn.shards, scn.active, scn.read_size, format!("{:?}", scn.chans.iter().map(|c| (c.kind, &c.gate, c.size, c.total, c.n)).collect::<Vec<_>>()), fingerprint), scn.json());
    let mut l = |c: bool, s: &str| {
        if c {
            ok.labels.push(s.to_string());
        }
    };
    let ch = &scn.chans;
    l(ooo_send, "out_of_order_send");
    l(ooo_recv, "out_of_order_receive");
    l(recv_before_send, "receive_issued_before_send");
    l(ch.iter().any(|c| matches!(c.kind, Kind::Shard { .. })), "shard_channel");
    l(ch.iter().any(|c| matches!(c.kind, Kind::Mpc { .. })), "helper_channel");
    l(ch.iter().any(|c| c.total.is_none()), "indeterminate_total");
    l(ch.iter().any(|c| c.ask_eos), "receive_past_total");
    l(ch.iter().any(|c| c.send_past.is_some()), "send_past_total");
    l(ch.iter().any(|c| c.n > scn.active), "more_records_than_window");
    l(ch.iter().any(|c| !c.size.is_power_of_two()), "size_not_power_of_two");
    l(ch.iter().any(|c| c.total.is_some() && (c.n * c.size) % chunk_bytes(&scn, c) != 0), "partial_last_chunk");
    l(ch.iter().any(|c| c.n * c.size > chunk_bytes(&scn, c)), "several_chunks");
    l(ch.len() > 1, "several_channels");
    l(ch.iter().any(|c| c.open_late > 0), "sender_opened_late");
    l(ch.iter().any(|c| c.send_peek.iter().any(|p| *p)), "send_attempted_before_its_turn");
    l(ch.iter().any(|c| c.open_late > 0 && c.recv_peek.iter().any(|p| *p)), "peek_before_stream_is_registered");
    let pairs = || ch.iter().enumerate().flat_map(|(a, x)| ch.iter().skip(a + 1).map(move |y| (x, y)));
    l(
        pairs().any(|(x, y)| matches!((x.kind, y.kind), (Kind::Mpc { shard: s1, from: f1, to: t1 }, Kind::Mpc { shard: s2, from: f2, to: t2 }) if s1 == s2 && x.gate == y.gate && (f1, t1) != (f2, t2))),
        "same_step_other_peer",
    );
    l(
        pairs().any(|(x, y)| matches!((x.kind, y.kind), (Kind::Mpc { shard: s1, from: f1, to: t1 }, Kind::Mpc { shard: s2, from: f2, to: t2 }) if s1 == s2 && x.gate != y.gate && (f1, t1) == (f2, t2))),
        "same_peers_other_step",
    );
    l(
        pairs().any(|(x, y)| matches!((x.kind, y.kind), (Kind::Mpc { shard: s1, from: f1, to: t1 }, Kind::Mpc { shard: s2, from: f2, to: t2 }) if s1 != s2 && x.gate == y.gate && (f1, t1) == (f2, t2))),
        "same_channel_other_shard",
    );
    l(pairs().any(|(x, y)| x.gate == y.gate && matches!((x.kind, y.kind), (Kind::Mpc { .. }, Kind::Shard { .. }) | (Kind::Shard { .. }, Kind::Mpc { .. }))), "helper_and_shard_channel_same_step");
    ok.labels.push(format!("active:{}", scn.active));
    ok.labels.push(format!("read_size:{}", scn.read_size));
    Ok(ok)
}

/// bytes per network chunk as documented for the gateway: the largest power-of-two multiple of
/// the record size not above read_size (at least one record, at most the buffer), one record for
/// indeterminate totals. Used for labels only.
fn chunk_bytes(scn: &Scn, c: &Chan) -> usize {
    if c.total.is_none() {
        return c.size;
    }
    let mut m = 1;
    while m * 2 * c.size <= scn.read_size {
        m *= 2;
    }
    (m * c.size).min(scn.active * c.size)
}

pub fn subs(env: &Env) -> Vec<Sub> {
    let _ = env;
    vec![
        Sub::random(
            "channels",
            1400,
            30_000,
            1_500_000,
            channels_case,
            "TestWorld with 1..3 shards, active in {2,4,16}, read_size in {1,3,16,2048}, 1..4 channels (helper pairs and shard pairs; later channels differ from an earlier one in one coordinate: peer, direction, step, shard, helper-vs-shard), message size in {1,2,3,4,5,7,8,14,18,32}, 1..40 records, specified or indeterminate total; one task per send and per receive with generated yield_now counts before entering the active window and before the operation (at most `active` records outstanding per side), optional late receivers / late senders, sends and receives that are first attempted once without blocking (a throw-away poll) and then issued for real, sending ends that are only opened after the receivers (and their throw-away peeks) have run, i.e. before the peer's stream is registered with the transport, receive(total) and send(>=total) probes; oracle: receive(i) = f(channel, i), end-of-stream or an error (any variant) on the receive-past-the-end probe and an error (any variant) on the send-past-the-total probe, every operation completes (exact quiescence detection through the runtime's park hook; wall-clock limit = rejected case); non-trivial = at least one send or receive issued out of index order",
        )
        .shrink_iters(300),
    ]
}

}
