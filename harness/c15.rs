// C15 - sequential join returns results in input order within a bounded window.
//
// Tasks are gate futures: task i completes when the harness has opened gate i (and, in the
// dependency scenarios, when the task it waits for has completed). The source stream returns
// Pending a generated number of times (self-waking or until the harness releases it). The join
// under test is polled by a driver owned by the harness: it is polled when (and only when) its
// waker fired, harness actions (open the next gates of the completion order, release the source)
// happen in between, and "not woken and no action left" is an exact deadlock / lost wake-up verdict.
//
// Oracles (from the property text, not from the implementation):
//  * every result exactly once and in input order; the stream ends after exactly n items;
//  * whenever the join returns Pending while the source has an item ready, at least w tasks are
//    in flight (pulled from the source and not yet yielded);
//  * every in-flight task that needs a poll (never polled, or its wake condition fired before the
//    round started) has been polled when the join returns Pending;
//  * consequently tasks that wait for a task at most w-1 positions away complete (no deadlock);
//  * the fallible variant resolves to the first error in input order without needing any later
//    task, and to all values in order otherwise;
//  * the parallel join returns all values in input order, or an error of a task that failed.

pub use imp::{LEVEL, subs};

/// true when the spawn-based implementation (`--features multi-threading`, engine e4) is under test:
/// tasks are then polled by the tokio workers, not inside `poll_next`, so the driver is a tokio
/// runtime, the per-round polling oracle does not apply and a deadlock is detected by a (generous)
/// timeout instead of exactly.
const MT: bool = cfg!(feature = "multi-threading");

mod imp {
    use std::{
        future::Future,
        num::NonZeroUsize,
        pin::Pin,
        sync::{
            Arc, Mutex,
            atomic::{AtomicBool, Ordering},
        },
        task::{Context, Poll, Wake, Waker},
    };

    use futures::{Stream, StreamExt, TryStreamExt};
    use serde_json::{Value, json};

    use super::{MT, super::common::*};
    use crate::seq_join::{SeqJoin, seq_join, seq_try_join_all};

    pub const LEVEL: &str = "exploration";

    type Out = Result<u64, u64>;

    fn value(i: usize, err: bool) -> Out {
        if err { Err(2000 + i as u64) } else { Ok(1000 + i as u64) }
    }

    // --------------------------------------------------------------------------------------
    // the world shared by the source, the tasks, the probe and the driver
    // --------------------------------------------------------------------------------------

    #[derive(Default, Clone)]
    struct Task {
        gate_open: bool,
        /// the gate is never opened (only tasks after the first error of a fallible join)
        never: bool,
        created: bool,
        done: bool,
        err: bool,
        dep: Option<usize>,
        waker: Option<Waker>,
        polls: u32,
        /// stamp of the event since which the task needs a poll (cleared by a poll)
        need: Option<u64>,
        done_at: u64,
    }

    struct World {
        tasks: Vec<Task>,
        w: usize,
        /// per source position 0..=n (n = before the end of the stream): number of Pending returns
        /// and whether they wake themselves (true) or wait for the harness (false)
        pend: Vec<(u32, bool)>,
        pulled: usize,
        /// what the source says about itself: `size_hint` = (min(lo, remaining), up.map(|e| remaining + e)).
        /// Always a *valid* hint (lower bound <= remaining <= upper bound).
        hint: (usize, Option<usize>),
        src_waker: Option<Waker>,
        src_blocked: bool,
        src_pending_this_round: bool,
        src_ended: bool,
        round: u64,
        in_round: bool,
        probed: bool,
        yielded: usize,
        finished: bool,
        violation: Option<(String, String)>,
        // statistics
        clock: u64,
        max_window: usize,
        pending_rounds: u32,
        ooo: bool,
        src_pending_seen: bool,
        src_blocked_seen: bool,
    }

    impl World {
        fn new(n: usize, w: usize) -> Self {
            Self {
                tasks: vec![Task::default(); n],
                w,
                pend: vec![(0, true); n + 1],
                pulled: 0,
                hint: (0, None),
                src_waker: None,
                src_blocked: false,
                src_pending_this_round: false,
                src_ended: false,
                round: 0,
                in_round: false,
                probed: false,
                yielded: 0,
                finished: false,
                violation: None,
                clock: 0,
                max_window: 0,
                pending_rounds: 0,
                ooo: false,
                src_pending_seen: false,
                src_blocked_seen: false,
            }
        }
        fn n(&self) -> usize {
            self.tasks.len()
        }
        /// events during round r are stamped 2r, events after it 2r+1
        fn stamp(&self) -> u64 {
            2 * self.round + u64::from(!self.in_round)
        }
        fn fail(&mut self, sig: &str, msg: String) {
            if self.violation.is_none() {
                self.violation = Some((sig.to_string(), msg));
            }
        }
        fn snapshot(&self) -> Value {
            json!({
                "pulled": self.pulled, "yielded": self.yielded, "round": self.round,
                "done": self.tasks.iter().map(|t| u8::from(t.done)).collect::<Vec<_>>(),
                "gate_open": self.tasks.iter().map(|t| u8::from(t.gate_open)).collect::<Vec<_>>(),
                "polls": self.tasks.iter().map(|t| t.polls).collect::<Vec<_>>(),
                "source_blocked": self.src_blocked,
            })
        }
    }

    type Shared = Arc<Mutex<World>>;

    struct GateFut {
        w: Shared,
        i: usize,
    }

    impl Future for GateFut {
        type Output = Out;
        fn poll(self: Pin<&mut Self>, cx: &mut Context<'_>) -> Poll<Out> {
            let mut wake = vec![];
            let r = {
                let mut guard = self.w.lock().unwrap();
                let g: &mut World = &mut guard;
                let i = self.i;
                let stamp = g.stamp();
                g.clock += 1;
                let clock = g.clock;
                let t = &mut g.tasks[i];
                t.polls += 1;
                t.need = None;
                if t.done {
                    // polled again after completion: answer consistently
                    return Poll::Ready(value(i, t.err));
                }
                let dep_ok = g.tasks[i].dep.is_none_or(|d| g.tasks[d].done);
                if g.tasks[i].gate_open && dep_ok {
                    g.tasks[i].done = true;
                    g.tasks[i].done_at = clock;
                    if (0..i).any(|j| !g.tasks[j].done) {
                        g.ooo = true;
                    }
                    for k in 0..g.tasks.len() {
                        let t = &mut g.tasks[k];
                        if t.dep == Some(i) && t.created && !t.done {
                            if t.need.is_none() {
                                t.need = Some(stamp);
                            }
                            if let Some(w) = t.waker.take() {
                                wake.push(w);
                            }
                        }
                    }
                    Poll::Ready(value(i, g.tasks[i].err))
                } else {
                    g.tasks[i].waker = Some(cx.waker().clone());
                    Poll::Pending
                }
            };
            for w in wake {
                w.wake();
            }
            r
        }
    }

    /// pull the next task out of the world (shared by the stream and the iterator source)
    fn pull(g: &mut World, w: &Shared) -> Option<GateFut> {
        let pos = g.pulled;
        if pos == g.n() {
            g.src_ended = true;
            return None;
        }
        g.pulled += 1;
        let stamp = g.stamp();
        g.tasks[pos].created = true;
        g.tasks[pos].need = Some(stamp);
        Some(GateFut { w: Arc::clone(w), i: pos })
    }

    struct SourceStream {
        w: Shared,
    }

    impl Stream for SourceStream {
        type Item = GateFut;
        fn poll_next(self: Pin<&mut Self>, cx: &mut Context<'_>) -> Poll<Option<GateFut>> {
            let mut self_wake = false;
            let r = {
                let mut guard = self.w.lock().unwrap();
                let g: &mut World = &mut guard;
                g.clock += 1;
                let pos = g.pulled;
                if g.pend[pos].0 > 0 {
                    g.src_pending_this_round = true;
                    g.src_pending_seen = true;
                    if g.pend[pos].1 {
                        g.pend[pos].0 -= 1;
                        self_wake = true;
                    } else {
                        g.src_blocked = true;
                        g.src_blocked_seen = true;
                        g.src_waker = Some(cx.waker().clone());
                    }
                    Poll::Pending
                } else {
                    Poll::Ready(pull(g, &self.w))
                }
            };
            if self_wake {
                cx.waker().wake_by_ref();
            }
            r
        }

        fn size_hint(&self) -> (usize, Option<usize>) {
            let g = self.w.lock().unwrap();
            let rem = g.n() - g.pulled;
            (g.hint.0.min(rem), g.hint.1.map(|e| rem + e))
        }
    }

    struct SourceIter {
        w: Shared,
    }

    impl Iterator for SourceIter {
        type Item = GateFut;
        fn next(&mut self) -> Option<GateFut> {
            let mut g = self.w.lock().unwrap();
            pull(&mut g, &self.w)
        }

        fn size_hint(&self) -> (usize, Option<usize>) {
            let g = self.w.lock().unwrap();
            let rem = g.n() - g.pulled;
            (g.hint.0.min(rem), g.hint.1.map(|e| rem + e))
        }
    }

    /// Wrapper that observes every `poll_next` of the join and applies the per-round oracles.
    struct Probe<S> {
        inner: Pin<Box<S>>,
        w: Shared,
    }

    impl<S: Stream<Item = Out>> Stream for Probe<S> {
        type Item = Out;
        fn poll_next(mut self: Pin<&mut Self>, cx: &mut Context<'_>) -> Poll<Option<Out>> {
            {
                let mut g = self.w.lock().unwrap();
                g.round += 1;
                g.in_round = true;
                g.probed = true;
                g.src_pending_this_round = false;
            }
            let r = self.inner.as_mut().poll_next(cx);
            let shared = Arc::clone(&self.w);
            let mut guard = shared.lock().unwrap();
            let g: &mut World = &mut guard;
            g.in_round = false;
            let n = g.n();
            match &r {
                Poll::Ready(Some(v)) => {
                    let k = g.yielded;
                    if g.finished || k >= n {
                        g.fail("extra-item", format!("item {v:?} after {k} of {n} results"));
                    } else {
                        let want = value(k, g.tasks[k].err);
                        if *v != want {
                            g.fail("order", format!("output position {k}: got {v:?}, task {k} returns {want:?}"));
                        } else if !g.tasks[k].done {
                            g.fail("order", format!("output position {k} yielded before task {k} completed"));
                        }
                    }
                    g.yielded += 1;
                }
                Poll::Ready(None) => {
                    if g.yielded != n {
                        let y = g.yielded;
                        g.fail("ended-early", format!("stream ended after {y} of {n} results"));
                    }
                    g.finished = true;
                }
                Poll::Pending => {
                    g.pending_rounds += 1;
                    let window = g.pulled - g.yielded;
                    let w = g.w;
                    if g.pulled < n && !g.src_pending_this_round && window < w {
                        let (p, y) = (g.pulled, g.yielded);
                        g.fail("window-underfilled", format!("join returned Pending with {window} task(s) in flight (pulled {p}, yielded {y}) although the source has an item ready and the window is {w}"));
                    }
                    let limit = 2 * g.round;
                    let missed: Vec<usize> = (0..n).filter(|&i| g.tasks[i].created && !g.tasks[i].done && g.tasks[i].need.is_some_and(|s| s < limit)).collect();
                    if !MT && !missed.is_empty() {
                        g.fail("active-task-not-polled", format!("join returned Pending without polling in-flight task(s) {missed:?} that needed a poll since before the round"));
                    }
                }
            }
            let window = g.pulled - g.yielded.min(g.pulled);
            g.max_window = g.max_window.max(window);
            r
        }
    }

    struct J(NonZeroUsize);
    impl SeqJoin for J {
        fn active_work(&self) -> NonZeroUsize {
            self.0
        }
    }

    // --------------------------------------------------------------------------------------
    // driver
    // --------------------------------------------------------------------------------------

    struct Flag(AtomicBool);
    impl Wake for Flag {
        fn wake(self: Arc<Self>) {
            self.0.store(true, Ordering::SeqCst);
        }
        fn wake_by_ref(self: &Arc<Self>) {
            self.0.store(true, Ordering::SeqCst);
        }
    }

    #[derive(Clone, Copy, PartialEq, Eq, Debug, Hash)]
    enum Release {
        /// release the source as soon as it blocks
        Eager,
        /// release the source only when no gate is left / nothing else can make progress
        Lazy,
        /// decided by the choice source at every step
        Random,
    }

    struct Plan {
        /// tasks whose gate is opened, in this order
        order: Vec<usize>,
        /// gates opened between two polls (1..): taken cyclically
        batch: Vec<usize>,
        release: Release,
        /// out of 8: chance of polling the join although its waker did not fire
        spurious: u64,
    }

    enum Stop<T> {
        Done(T),
        /// not woken, nothing left to do
        Stuck,
        /// a per-round oracle failed
        Violation,
        Livelock,
    }

    /// One harness action: release the held source, or open the next gate(s) of the completion
    /// order. Returns false when nothing is left to do.
    fn act(world: &Shared, plan: &Plan, next_gate: &mut usize, step: &mut usize, src: &mut Src<'_>) -> bool {
        let can_gate = *next_gate < plan.order.len();
        let can_release = world.lock().unwrap().src_blocked;
        if !can_gate && !can_release {
            return false;
        }
        let do_release = can_release
            && match plan.release {
                Release::Eager => true,
                Release::Lazy => !can_gate,
                Release::Random => !can_gate || src.bool(),
            };
        let mut wake = vec![];
        {
            let mut guard = world.lock().unwrap();
            let g: &mut World = &mut guard;
            g.clock += 1;
            if do_release {
                let pos = g.pulled;
                g.pend[pos].0 = g.pend[pos].0.saturating_sub(1);
                g.src_blocked = false;
                wake.extend(g.src_waker.take());
            } else {
                let b = plan.batch[*step % plan.batch.len()].max(1);
                for _ in 0..b {
                    if *next_gate < plan.order.len() {
                        let i = plan.order[*next_gate];
                        *next_gate += 1;
                        let stamp = g.stamp();
                        let t = &mut g.tasks[i];
                        t.gate_open = true;
                        if t.created && !t.done {
                            if t.need.is_none() {
                                t.need = Some(stamp);
                            }
                            wake.extend(t.waker.take());
                        }
                    }
                }
            }
        }
        for w in wake {
            w.wake();
        }
        *step += 1;
        true
    }

    /// Deterministic driver (single-threaded implementation): the join is polled exactly when its
    /// waker fired; "not woken and no action left" is an exact deadlock verdict.
    #[cfg(not(feature = "multi-threading"))]
    fn drive<T>(mut fut: Pin<Box<dyn Future<Output = T> + '_>>, world: &Shared, plan: &Plan, src: &mut Src<'_>) -> Stop<T> {
        let flag = Arc::new(Flag(AtomicBool::new(true)));
        let waker = Waker::from(Arc::clone(&flag));
        let mut cx = Context::from_waker(&waker);
        let mut next_gate = 0usize;
        let mut step = 0usize;
        let mut polls = 0usize;
        loop {
            while flag.0.swap(false, Ordering::SeqCst) {
                if let Poll::Ready(v) = fut.as_mut().poll(&mut cx) {
                    return if world.lock().unwrap().violation.is_some() { Stop::Violation } else { Stop::Done(v) };
                }
                if world.lock().unwrap().violation.is_some() {
                    return Stop::Violation;
                }
                polls += 1;
                if polls > 20_000 {
                    return Stop::Livelock;
                }
            }
            if !act(world, plan, &mut next_gate, &mut step, src) {
                return Stop::Stuck;
            }
            if plan.spurious > 0 && src.below(8) < plan.spurious {
                flag.0.store(true, Ordering::SeqCst);
            }
        }
    }

    /// Driver for the spawn-based implementation: the join runs on a multi-thread tokio runtime
    /// (its tasks on the workers), the harness actions run concurrently in the same `block_on`
    /// with a generated number of yields in between. Deadlock verdict: every action is done, the
    /// join has not finished and nothing (no task poll, no source poll, no harness action) has
    /// happened for 20 s (polls of the join itself do not count: the driver re-polls it whenever the
    /// harness loop wakes up), and `run_scenario` sees that in three executions of the case in a row;
    /// once one deadlock has been confirmed that way, the idle limit in the same process drops to 3 s
    /// so that shrinking stays affordable.
    #[cfg(feature = "multi-threading")]
    fn drive<T>(fut: Pin<Box<dyn Future<Output = T> + '_>>, world: &Shared, plan: &Plan, src: &mut Src<'_>) -> Stop<T> {
        use std::time::{Duration, Instant};
        thread_local! {
            static RT: tokio::runtime::Runtime = tokio::runtime::Builder::new_multi_thread().worker_threads(2).enable_time().build().unwrap();
        }
        let res = RT.with(|rt| {
            rt.block_on(async {
                let harness = async {
                    let mut next_gate = 0usize;
                    let mut step = 0usize;
                    let mut last = (u64::MAX, Instant::now());
                    let started = Instant::now();
                    loop {
                        if started.elapsed() > Duration::from_secs(120) {
                            return;
                        }
                        let yields = src.below(4);
                        for _ in 0..yields {
                            tokio::task::yield_now().await;
                        }
                        if !act(world, plan, &mut next_gate, &mut step, src) {
                            // nothing to do right now (the source may block again later)
                            let c = world.lock().unwrap().clock;
                            if c != last.0 {
                                last = (c, Instant::now());
                            } else {
                                let limit = if MT_CONFIRMED.load(Ordering::SeqCst) { Duration::from_secs(3) } else { Duration::from_secs(20) };
                                if last.1.elapsed() > limit {
                                    return;
                                }
                            }
                            tokio::time::sleep(Duration::from_micros(100)).await;
                        }
                    }
                };
                tokio::select! {
                    biased;
                    v = fut => Some(v),
                    () = harness => None,
                }
            })
        });
        let bad = world.lock().unwrap().violation.is_some();
        match res {
            _ if bad => Stop::Violation,
            Some(v) => Stop::Done(v),
            None => Stop::Stuck,
        }
    }

    // --------------------------------------------------------------------------------------
    // one scenario
    // --------------------------------------------------------------------------------------

    #[derive(Clone, Copy, PartialEq, Eq, Debug, Hash)]
    enum Variant {
        /// seq_join as a stream of results (infallible use: Err items are ordinary values)
        Stream,
        /// seq_join(..).try_collect() over a (possibly pending) source stream, with the probe inside
        TryCollect,
        /// seq_try_join_all over an iterator
        TryJoinAll,
        /// SeqJoin::try_join
        TraitTryJoin,
        /// SeqJoin::parallel_join
        Parallel,
    }

    impl Variant {
        fn name(self) -> &'static str {
            match self {
                Variant::Stream => "seq_join",
                Variant::TryCollect => "seq_join+try_collect",
                Variant::TryJoinAll => "seq_try_join_all",
                Variant::TraitTryJoin => "SeqJoin::try_join",
                Variant::Parallel => "SeqJoin::parallel_join",
            }
        }
        fn fallible(self) -> bool {
            !matches!(self, Variant::Stream)
        }
        fn stream_source(self) -> bool {
            matches!(self, Variant::Stream | Variant::TryCollect)
        }
    }

    struct Scenario {
        variant: Variant,
        n: usize,
        w: usize,
        /// completion order over all tasks (tasks marked `never` are skipped)
        perm: Vec<usize>,
        errs: Vec<bool>,
        never: Vec<bool>,
        deps: Vec<Option<usize>>,
        pend: Vec<(u32, bool)>,
        plan_batch: Vec<usize>,
        release: Release,
        spurious: u64,
        /// the source's size hint: (cap of the lower bound, slack of the upper bound or None)
        hint: (usize, Option<usize>),
    }

    impl Scenario {
        fn json(&self) -> Value {
            json!({
                "variant": self.variant.name(), "n": self.n, "window": self.w, "completion_order": self.perm,
                "errors": self.errs.iter().enumerate().filter(|(_, e)| **e).map(|(i, _)| i).collect::<Vec<_>>(),
                "never_completing": self.never.iter().enumerate().filter(|(_, e)| **e).map(|(i, _)| i).collect::<Vec<_>>(),
                "waits_for": self.deps.iter().enumerate().filter_map(|(i, d)| d.map(|d| json!([i, d]))).collect::<Vec<_>>(),
                "source_pending": self.pend.iter().map(|(c, s)| if *c == 0 { json!(0) } else { json!(format!("{c}{}", if *s { "self" } else { "held" })) }).collect::<Vec<_>>(),
                "gates_per_step": self.plan_batch, "release": format!("{:?}", self.release), "spurious_polls": self.spurious,
                "source_size_hint": format!("(min({}, remaining), {})", self.hint.0, self.hint.1.map_or("None".to_string(), |e| format!("remaining+{e}"))),
            })
        }
    }

    enum Outcome {
        Items(Vec<Out>),
        Tried(Result<Vec<u64>, u64>),
    }

    thread_local! {
        static MT_RETRY: std::cell::Cell<u32> = const { std::cell::Cell::new(0) };
    }
    /// set once a violation was seen under e4 (a deadlock confirmed by three stalled executions of
    /// one case, or any other violation): from then on the idle limit is 3 s instead of 20 s
    static MT_CONFIRMED: AtomicBool = AtomicBool::new(false);

    fn run_scenario(env: &Env, sc: &Scenario, src: &mut Src<'_>) -> CaseResult {
        let n = sc.n;
        let (src_all, src_start) = (src.all(), src.used());
        let mut world = World::new(n, sc.w);
        for i in 0..n {
            world.tasks[i].err = sc.errs[i];
            world.tasks[i].never = sc.never[i];
            world.tasks[i].dep = sc.deps[i];
        }
        world.pend = sc.pend.clone();
        world.hint = sc.hint;
        let shared: Shared = Arc::new(Mutex::new(world));
        let active = NonZeroUsize::new(sc.w).unwrap();
        let plan = Plan {
            order: sc.perm.iter().copied().filter(|&i| !sc.never[i]).collect(),
            batch: sc.plan_batch.clone(),
            release: sc.release,
            spurious: sc.spurious,
        };
        let fut: Pin<Box<dyn Future<Output = Outcome>>> = match sc.variant {
            Variant::Stream => {
                let mut st = Probe { inner: Box::pin(seq_join(active, SourceStream { w: Arc::clone(&shared) })), w: Arc::clone(&shared) };
                Box::pin(async move {
                    let mut out = vec![];
                    while let Some(v) = st.next().await {
                        out.push(v);
                    }
                    Outcome::Items(out)
                })
            }
            Variant::TryCollect => {
                let st = Probe { inner: Box::pin(seq_join(active, SourceStream { w: Arc::clone(&shared) })), w: Arc::clone(&shared) };
                Box::pin(async move { Outcome::Tried(st.try_collect::<Vec<u64>>().await) })
            }
            Variant::TryJoinAll => {
                let it = SourceIter { w: Arc::clone(&shared) };
                Box::pin(async move { Outcome::Tried(seq_try_join_all(active, it).await) })
            }
            Variant::TraitTryJoin => {
                let it = SourceIter { w: Arc::clone(&shared) };
                Box::pin(async move { Outcome::Tried(J(active).try_join(it).await) })
            }
            Variant::Parallel => {
                let it = SourceIter { w: Arc::clone(&shared) };
                Box::pin(async move { Outcome::Tried(J(active).parallel_join(it).await) })
            }
        };
        let stop = drive(fut, &shared, &plan, src);
        let g = shared.lock().unwrap();
        let case = || json!({"scenario": sc.json(), "state": g.snapshot()});
        let vname = sc.variant.name();
        match stop {
            Stop::Violation => {
                if MT {
                    // the run ends with exit 1 anyway: keep the remaining cases and shrinking affordable
                    MT_CONFIRMED.store(true, Ordering::SeqCst);
                }
                let (sig, msg) = g.violation.clone().unwrap();
                known_or_violation(env, &format!("{sig}:{vname}"), msg, case())?;
            }
            Stop::Stuck if MT && MT_RETRY.with(|r| r.get()) < 2 => {
                // Under e4 the verdict is idle-based, i.e. it depends on the OS scheduling the
                // runtime's workers. It only counts when the same case (same harness choices)
                // stalls in three executions in a row; a stall that does not repeat is a label.
                drop(g);
                MT_RETRY.with(|r| r.set(r.get() + 1));
                let mut again = Src::new(src_all);
                for _ in 0..src_start {
                    again.raw();
                }
                let r = run_scenario(env, sc, &mut again);
                MT_RETRY.with(|r| r.set(r.get() - 1));
                return r.map(|ok| ok.label("mt:stall-not-reproduced"));
            }
            Stop::Stuck => {
                if MT {
                    MT_CONFIRMED.store(true, Ordering::SeqCst);
                }
                let not_done: Vec<usize> = (0..n).filter(|&i| !g.tasks[i].done && !g.tasks[i].never).collect();
                known_or_violation(
                    env,
                    &format!("deadlock:{vname}"),
                    format!("{}: all gates are open and the source is released, yet the join has not finished (tasks not completed: {not_done:?})", if MT { "every harness action is done and nothing was polled for the idle limit (20 s; 3 s once a deadlock was confirmed), in three executions of the case in a row" } else { "the join is not woken and nothing is left to do" }),
                    case(),
                )?;
            }
            Stop::Livelock => {
                known_or_violation(env, &format!("livelock:{vname}"), "more than 20000 polls without finishing".into(), case())?;
            }
            Stop::Done(out) => {
                let first_err = (0..n).find(|&i| sc.errs[i]);
                match (sc.variant, out) {
                    (Variant::Stream, Outcome::Items(items)) => {
                        let want: Vec<Out> = (0..n).map(|i| value(i, sc.errs[i])).collect();
                        if items != want || !g.finished {
                            known_or_violation(env, &format!("results:{vname}"), format!("collected {items:?}, expected {want:?}"), case())?;
                        }
                    }
                    (Variant::Parallel, Outcome::Tried(res)) => match res {
                        Ok(v) => {
                            let want: Vec<u64> = (0..n).map(|i| 1000 + i as u64).collect();
                            if first_err.is_some() || v != want {
                                known_or_violation(env, &format!("results:{vname}"), format!("returned Ok({v:?}); expected {want:?} and failing tasks are {:?}", sc.errs), case())?;
                            }
                        }
                        Err(e) => {
                            let failed_done: Vec<u64> = (0..n).filter(|&i| sc.errs[i] && g.tasks[i].done).map(|i| 2000 + i as u64).collect();
                            if !failed_done.contains(&e) {
                                known_or_violation(env, &format!("results:{vname}"), format!("returned Err({e}); errors of tasks that failed so far: {failed_done:?}"), case())?;
                            }
                        }
                    },
                    (_, Outcome::Tried(res)) => {
                        let want: Result<Vec<u64>, u64> = match first_err {
                            Some(p) => Err(2000 + p as u64),
                            None => Ok((0..n).map(|i| 1000 + i as u64).collect()),
                        };
                        if res != want {
                            known_or_violation(env, &format!("results:{vname}"), format!("resolved to {res:?}, expected {want:?}"), case())?;
                        }
                    }
                    (_, Outcome::Items(_)) => unreachable!(),
                }
            }
        }
        let mut labels = vec![format!("variant:{vname}")];
        if g.ooo {
            labels.push("out-of-order-completion".into());
        }
        if g.src_pending_seen {
            labels.push("pending-source".into());
        }
        if g.src_blocked_seen {
            labels.push("source-held-by-harness".into());
        }
        if sc.errs.iter().any(|e| *e) {
            labels.push("error-task".into());
        }
        if sc.never.iter().any(|e| *e) {
            labels.push("never-completing-task-after-error".into());
        }
        if sc.deps.iter().enumerate().any(|(i, d)| d.is_some_and(|d| d < i)) {
            labels.push("waits-for-earlier-task".into());
        }
        if sc.deps.iter().enumerate().any(|(i, d)| d.is_some_and(|d| d > i)) {
            labels.push("waits-for-later-task".into());
        }
        if n > sc.w {
            labels.push("n>window".into());
        }
        if g.pending_rounds > 0 {
            labels.push("join-returned-pending".into());
        }
        if g.probed && g.max_window > sc.w {
            labels.push("more-than-w-in-flight".into());
        }
        labels.push(format!("w={}", sc.w));
        let nontrivial = n >= 2 && (g.pending_rounds > 0 || !g.probed);
        Ok(CaseOk::new(nontrivial, &sc.json().to_string(), sc.json()).labels(labels))
    }

    // --------------------------------------------------------------------------------------
    // exhaustive: all completion orders for n <= 6
    // --------------------------------------------------------------------------------------

    const FACT: [u64; 8] = [1, 1, 2, 6, 24, 120, 720, 5040];

    /// k-th permutation of 0..n in lexicographic order
    fn nth_perm(n: usize, mut k: u64) -> Vec<usize> {
        let mut items: Vec<usize> = (0..n).collect();
        let mut out = vec![];
        for i in (0..n).rev() {
            let f = FACT[i];
            let idx = (k / f) as usize;
            k %= f;
            out.push(items.remove(idx));
        }
        out
    }

    const VARIANTS: [(Variant, u64); 5] = [
        // (variant, number of sub-configurations: source pattern x alternative)
        (Variant::Stream, 8),
        (Variant::TryCollect, 8),
        (Variant::TryJoinAll, 2),
        (Variant::TraitTryJoin, 2),
        (Variant::Parallel, 2),
    ];

    /// all permutations up to this n (quick: 6, thorough: 7)
    fn max_n_exh(thorough: bool) -> usize {
        if MT { 5 } else if thorough { 7 } else { 6 }
    }

    /// per n: n! * (n+1) (error position: none or 0..n-1) * 8 windows
    fn per_n(n: usize) -> u64 {
        FACT[n] * (n as u64 + 1) * 8
    }

    fn orders_total(thorough: bool) -> u64 {
        let cfgs: u64 = VARIANTS.iter().map(|v| v.1).sum();
        (0..=max_n_exh(thorough)).map(per_n).sum::<u64>() * cfgs
    }

    fn index(src: &mut Src<'_>) -> u64 {
        let lo = u64::from(src.raw());
        let hi = u64::from(src.raw());
        lo | (hi << 32)
    }

    fn source_pattern(n: usize, sp: u64) -> (Vec<(u32, bool)>, Release) {
        match sp {
            0 => (vec![(0, true); n + 1], Release::Eager),
            1 => (vec![(1, true); n + 1], Release::Eager),
            2 => {
                let mut p = vec![(0, true); n + 1];
                p[n / 2] = (1, false);
                (p, Release::Lazy)
            }
            _ => (vec![(1, false); n + 1], Release::Eager),
        }
    }

    fn all_orders(env: &Env, src: &mut Src<'_>) -> CaseResult {
        let mut i = index(src);
        let base: u64 = (0..=max_n_exh(env.thorough())).map(per_n).sum();
        let mut vi = 0;
        while i >= base * VARIANTS[vi].1 {
            i -= base * VARIANTS[vi].1;
            vi += 1;
        }
        let (variant, cfgs) = VARIANTS[vi];
        let cfg = i % cfgs;
        i /= cfgs;
        let mut n = 0;
        while i >= per_n(n) {
            i -= per_n(n);
            n += 1;
        }
        let w = (i % 8) as usize + 1;
        i /= 8;
        let errpos = (i % (n as u64 + 1)) as usize; // n = no error
        i /= n as u64 + 1;
        let perm = nth_perm(n, i);
        let (sp, alt) = if variant.stream_source() { (cfg / 2, cfg % 2) } else { (0, cfg % 2) };
        let (pend, release) = source_pattern(n, sp);
        let mut errs = vec![false; n];
        if errpos < n {
            errs[errpos] = true;
        }
        let mut never = vec![false; n];
        let mut batch = vec![1];
        match variant {
            Variant::Stream | Variant::Parallel => {
                if alt == 1 {
                    batch = vec![2];
                }
            }
            _ => {
                if alt == 1 && errpos < n {
                    for k in errpos + 1..n {
                        never[k] = true;
                    }
                } else if alt == 1 {
                    batch = vec![2];
                }
            }
        }
        let sc = Scenario { variant, n, w, perm, errs, never, deps: vec![None; n], pend, plan_batch: batch, release, spurious: 0, hint: (0, None) };
        run_scenario(env, &sc, src)
    }

    // --------------------------------------------------------------------------------------
    // exhaustive: the dependency scenarios "task i waits for task i-d / i+d, d < w"
    // --------------------------------------------------------------------------------------

    /// largest index in the chain of tasks that `k` (transitively) waits for
    fn reach(deps: &[Option<usize>], k: usize) -> usize {
        let mut m = k;
        let mut cur = k;
        let mut steps = 0;
        while let Some(d) = deps[cur] {
            m = m.max(d);
            cur = d;
            steps += 1;
            if steps > deps.len() {
                return usize::MAX; // cycle
            }
        }
        m
    }

    /// every task's transitive waits stay within the window that is guaranteed while it is the
    /// oldest unfinished task
    fn deps_ok(deps: &[Option<usize>], w: usize) -> bool {
        (0..deps.len()).all(|k| reach(deps, k) != usize::MAX && reach(deps, k) <= k + w - 1)
    }

    const DEP_MAX_N: u64 = 12;

    fn dep_total() -> u64 {
        // n 1..=12, w 1..=8, d 1..=7 (cases with d >= w or d >= n are skipped), direction 2,
        // gate pattern 3, variant 2, source pattern 4
        DEP_MAX_N * 8 * 7 * 2 * 3 * 2 * 4
    }

    fn dep_scenarios(env: &Env, src: &mut Src<'_>) -> CaseResult {
        let mut i = index(src);
        let mut take = |m: u64| {
            let v = i % m;
            i /= m;
            v
        };
        let sp = take(4);
        let variant = if take(2) == 0 { Variant::Stream } else { Variant::TryCollect };
        let gates = take(3);
        let later = take(2) == 1;
        let d = take(7) as usize + 1;
        let w = take(8) as usize + 1;
        let n = take(DEP_MAX_N) as usize + 1;
        if d >= w || d >= n {
            return Ok(CaseOk::new(false, &0u8, Value::Null).label("skipped:d>=w-or-d>=n"));
        }
        let mut deps = vec![None; n];
        for k in 0..n {
            if later {
                // k waits for k+d; only every other block so that chains do not leave the window
                if k + d < n && (k / d) % 2 == 0 {
                    deps[k] = Some(k + d);
                }
            } else if k >= d {
                deps[k] = Some(k - d);
            }
        }
        if !deps_ok(&deps, w) {
            return Ok(CaseOk::new(false, &1u8, Value::Null).label("skipped:chain-leaves-window"));
        }
        // gate order: ascending, descending, or everything open from the start (ascending, 8 per step)
        let perm: Vec<usize> = match gates {
            1 => (0..n).rev().collect(),
            _ => (0..n).collect(),
        };
        let batch = if gates == 2 { vec![n.max(1)] } else { vec![1] };
        let (pend, release) = source_pattern(n, sp);
        // the source's (valid) size hint rotates with the scenario: unknown, a lower bound of 1,
        // a lower bound just below the window, exact
        let hint = match (n + w + d + gates as usize + sp as usize) % 4 {
            0 => (0, None),
            1 => (1, None),
            2 => (w.saturating_sub(1), Some(3)),
            _ => (usize::MAX, Some(0)),
        };
        let sc = Scenario { variant, n, w, perm, errs: vec![false; n], never: vec![false; n], deps, pend, plan_batch: batch, release, spurious: 0, hint };
        run_scenario(env, &sc, src)
    }

    // --------------------------------------------------------------------------------------
    // random schedules
    // --------------------------------------------------------------------------------------

    fn random_schedules(env: &Env, src: &mut Src<'_>) -> CaseResult {
        let variant = match src.below(10) {
            0..=3 => Variant::Stream,
            4 | 5 => Variant::TryCollect,
            6 => Variant::TryJoinAll,
            7 => Variant::TraitTryJoin,
            _ => Variant::Parallel,
        };
        let n = match src.below(4) {
            0 => src.urange(0, 7),
            1 | 2 => src.urange(7, 16),
            _ => src.urange(16, 40),
        };
        let w = src.urange(1, 8);
        let perm = match src.below(4) {
            0 => (0..n).collect(),
            1 => (0..n).rev().collect(),
            _ => src.perm(n),
        };
        let mut rank = vec![0usize; n];
        for (r, &t) in perm.iter().enumerate() {
            rank[t] = r;
        }
        // errors
        let mut errs = vec![false; n];
        if n > 0 && src.chance(1, 2) {
            let k = src.urange(1, 3);
            for _ in 0..k {
                errs[src.idx(n)] = true;
            }
        }
        // tasks after the first error of a fallible sequential join may never complete
        let mut never = vec![false; n];
        let first_err = (0..n).find(|&i| errs[i]);
        if let (true, Some(p)) = (variant.fallible() && variant != Variant::Parallel, first_err) {
            if src.chance(2, 3) {
                for k in p + 1..n {
                    never[k] = src.chance(1, 2);
                }
            }
        }
        // dependencies
        let mut deps: Vec<Option<usize>> = vec![None; n];
        let dep_rate = src.pick(&[0u64, 2, 5]);
        if dep_rate > 0 {
            for k in 0..n {
                if src.below(8) >= dep_rate {
                    continue;
                }
                let maxd = if variant == Variant::Parallel { n.saturating_sub(1) } else { w - 1 };
                if maxd == 0 {
                    continue;
                }
                let d = src.urange(1, maxd);
                let j = if src.bool() { k.checked_sub(d) } else { Some(k + d).filter(|j| *j < n) };
                let Some(j) = j else { continue };
                // acyclic: only wait for a task whose gate opens earlier; never wait for a task that
                // never completes
                if never[j] || never[k] || rank[j] >= rank[k] {
                    continue;
                }
                deps[k] = Some(j);
                let ok = if variant == Variant::Parallel { reach(&deps, k) != usize::MAX } else { deps_ok(&deps, w) };
                if !ok {
                    deps[k] = None;
                }
            }
        }
        // source pendings
        let mut pend = vec![(0u32, true); n + 1];
        if variant.stream_source() {
            let rate = src.pick(&[0u64, 0, 2, 6]);
            let held = src.pick(&[0u64, 4, 8]); // out of 8: share of pendings held by the harness
            if rate > 0 {
                for p in pend.iter_mut() {
                    if src.below(8) < rate {
                        *p = (src.urange(1, 3) as u32, src.below(8) >= held);
                    }
                }
            }
        }
        let batch: Vec<usize> = (0..4).map(|_| src.urange(1, 3)).collect();
        let release = src.pick(&[Release::Eager, Release::Lazy, Release::Random, Release::Random]);
        let spurious = src.pick(&[0u64, 0, 2, 5]);
        let hint = match src.below(6) {
            0 | 1 => (0, None),
            2 => (1, None),
            3 => (src.urange(1, w.max(2) - 1), if src.bool() { None } else { Some(src.urange(0, 4)) }),
            4 => (src.urange(1, 8), Some(src.urange(0, 4))),
            _ => (usize::MAX, Some(0)),
        };
        let sc = Scenario { variant, n, w, perm, errs, never, deps, pend, plan_batch: batch, release, spurious, hint };
        run_scenario(env, &sc, src)
    }

    pub fn subs(env: &Env) -> Vec<Sub> {
        vec![
            Sub::exhaustive("all_orders", orders_total(false), orders_total(true), all_orders,
                "seq_join (stream), seq_join+try_collect, seq_try_join_all, SeqJoin::try_join, SeqJoin::parallel_join x n=0..6 (thorough: 0..7) x all n! completion orders x windows 1..8 x error position (none, 0..n-1) x source {ready, self-waking Pending before every item, held once until nothing else can progress, held before every item} x {one gate per poll, two gates per poll | tasks after the error never complete}; per-round window and polling oracles, order, exactly-once, first error; non-trivial = n>=2 and the join had to wait"),
            Sub::exhaustive("dep_scenarios", dep_total(), dep_total(), dep_scenarios,
                "explicit dependency scenarios: every task i waits for task i-d (or i+d on alternating blocks) with d<w, n=1..12, windows 1..8, gates opened ascending / descending / all at once, 4 source patterns, the source's size hint rotating over {unknown, lower bound 1, lower bound w-1 with slack, exact}: the join must finish (exact deadlock detection)"),
            Sub::random("random_schedules", 400, if MT { 60_000 } else { 1_500_000 }, if MT { 600_000 } else { 30_000_000 }, random_schedules,
                "n=0..40, windows 1..8, random completion orders (incl. identity and reverse), 1-3 gates per step, source Pending 0..3 times per item (self-waking or held by the harness, released eagerly / lazily / randomly), spurious polls, several error positions, never-completing tasks after the first error, tasks waiting for a task up to w-1 positions earlier or later (acyclic, transitively inside the window), valid source size hints {unknown, (1, None), lower bound below the window, small bounds with slack, exact}; non-trivial = n>=2 and the join had to wait").shrink_iters(if MT { 40 } else { 400 }),
        ]
    }
}

