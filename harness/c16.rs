// C16 - a record is released only after its whole batch is validated, with its verdict.
//
// `Batcher` is private to `protocol::context`; the case code for the batcher itself lives in the
// H3 hook body (`h3_context.rs`, module `crate::protocol::context::ipa_verif_h3`). The sub-check
// `real_contexts` below drives the two real callers on top of it - `DZKPUpgraded::validate_record`
// and the MAC context's `validate_record` - through TestWorld (added after seeded change C16-2,
// which sits in `dzkp_malicious.rs`, above the batcher).

pub use crate::protocol::context::ipa_verif_h3::LEVEL;

pub fn subs(env: &super::common::Env) -> Vec<super::common::Sub> {
    #[allow(unused_mut)]
    let mut v = crate::protocol::context::ipa_verif_h3::subs(env);
    #[cfg(all(descriptive_gate, not(feature = "shuttle")))]
    v.push(real::sub());
    #[cfg(all(descriptive_gate, not(feature = "shuttle")))]
    v.push(real::join_sub());
    v
}

#[cfg(all(descriptive_gate, not(feature = "shuttle")))]
mod real {
    use std::{
        panic::AssertUnwindSafe,
        sync::{
            Arc, Mutex,
            atomic::{AtomicBool, Ordering},
        },
        time::Duration,
    };

    use futures::{FutureExt, StreamExt, future::join_all};
    use serde_json::json;

    use super::super::common::*;
    use crate::{
        error::Error,
        ff::{Fp31, boolean::Boolean},
        helpers::TotalRecords,
        protocol::{
            RecordId,
            basics::SecureMul,
            context::{
                Context, DZKPContext, MaliciousContext, TEST_DZKP_STEPS, UpgradableContext, UpgradedContext, Validator,
                dzkp_validator::DZKPValidator, upgrade::Upgradable,
            },
        },
        secret_sharing::{IntoShares, replicated::semi_honest::AdditiveShare as Replicated},
        test_fixture::{TestWorld, TestWorldConfig},
    };

    #[derive(Clone, Debug)]
    struct Plan {
        dzkp: bool,
        n: usize,
        rpb: usize,
        /// multiplications of record i before it asks for validation (0 is allowed)
        mults: Vec<usize>,
        /// [helper][record]: yields before the record starts
        delay: [Vec<u8>; 3],
        /// record ids validated once more after everything is done
        misuse: Vec<usize>,
        /// the validator handle is dropped before the misuse requests, while a context obtained
        /// from it is still held (the batches live in the validator)
        orphan: bool,
        seed: u64,
    }

    #[derive(Default)]
    struct Obs {
        /// first observation that contradicts the property, per helper
        bad: Vec<(String, String)>,
    }

    type Outcome = Result<Vec<Result<(), String>>, String>;

    async fn helper_dzkp(ctx: MaliciousContext<'_>, h: usize, plan: &Plan, obs: &Mutex<Obs>, a: Replicated<Boolean>, b: Replicated<Boolean>) -> (Outcome, Vec<(usize, String)>) {
        let n = plan.n;
        let requested: Vec<AtomicBool> = (0..n).map(|_| AtomicBool::new(false)).collect();
        // only the records 0..prefix multiply (a channel must see every record of its total), the
        // validator covers all n records
        let prefix = plan.mults.iter().take_while(|m| **m > 0).count();
        let mut v = ctx.dzkp_validator(TEST_DZKP_STEPS, plan.rpb);
        v.set_total_records(TotalRecords::specified(n).unwrap());
        let m = v.context();
        let futs = (0..n).map(|i| {
            let (m, a, b, requested) = (m.clone(), &a, &b, &requested);
            async move {
                for _ in 0..plan.delay[h][i] {
                    tokio::task::yield_now().await;
                }
                let rid = RecordId::from(i);
                for k in 0..plan.mults[i] {
                    a.multiply(b, m.narrow(&format!("c16mul{k}")).set_total_records(TotalRecords::specified(prefix).unwrap()), rid).await.map_err(|e| format!("{e:?}"))?;
                }
                requested[i].store(true, Ordering::SeqCst);
                let r = m.validate_record(rid).await;
                let batch = i / plan.rpb;
                let late: Vec<usize> = (batch * plan.rpb..((batch + 1) * plan.rpb).min(n)).filter(|j| !requested[*j].load(Ordering::SeqCst)).collect();
                if !late.is_empty() {
                    obs.lock().unwrap().bad.push((
                        "released-before-batch-complete:dzkp".into(),
                        format!("helper {h}: the wait for record {i} completed with {r:?} although record(s) {late:?} of its batch had not requested validation yet"),
                    ));
                }
                r.map_err(|e| format!("{e:?}"))
            }
        });
        let res: Vec<Result<(), String>> = join_all(futs).await;
        // misuse, once everything has been validated
        let mut mis = vec![];
        let mut v = Some(v);
        if plan.orphan {
            let _ = catch(AssertUnwindSafe(|| drop(v.take())));
        }
        for &x in &plan.misuse {
            let r = AssertUnwindSafe(m.validate_record(RecordId::from(x))).catch_unwind().await;
            match r {
                Ok(Ok(())) => mis.push((x, "Ok(())".to_string())),
                Ok(Err(_)) | Err(_) => {}
            }
        }
        let _ = take_last_panic();
        let _ = catch(AssertUnwindSafe(move || {
            drop(m);
            drop(v);
        }));
        (Ok(res), mis)
    }

    async fn helper_mac(ctx: MaliciousContext<'_>, h: usize, plan: &Plan, obs: &Mutex<Obs>, a: Replicated<Fp31>, b: Replicated<Fp31>) -> (Outcome, Vec<(usize, String)>) {
        let n = plan.n;
        let requested: Vec<AtomicBool> = (0..n).map(|_| AtomicBool::new(false)).collect();
        let ctx = ctx.set_total_records(TotalRecords::specified(n).unwrap());
        let v = ctx.validator::<Fp31>();
        let m = v.context();
        let futs = (0..n).map(|i| {
            let (m, a, b, requested) = (m.clone(), a.clone(), b.clone(), &requested);
            async move {
                for _ in 0..plan.delay[h][i] {
                    tokio::task::yield_now().await;
                }
                let rid = RecordId::from(i);
                if plan.mults[i] > 0 {
                    let (a, b) = (a, b).upgrade(m.clone(), rid).await.map_err(|e| format!("{e:?}"))?;
                    for k in 0..plan.mults[i] {
                        a.multiply(&b, m.narrow(&format!("c16mul{k}")), rid).await.map_err(|e| format!("{e:?}"))?;
                    }
                }
                requested[i].store(true, Ordering::SeqCst);
                let r = m.validate_record(rid).await;
                let batch = i / plan.rpb;
                let late: Vec<usize> = (batch * plan.rpb..((batch + 1) * plan.rpb).min(n)).filter(|j| !requested[*j].load(Ordering::SeqCst)).collect();
                if !late.is_empty() {
                    obs.lock().unwrap().bad.push((
                        "released-before-batch-complete:mac".into(),
                        format!("helper {h}: the wait for record {i} completed with {r:?} although record(s) {late:?} of its batch had not requested validation yet"),
                    ));
                }
                r.map_err(|e| format!("{e:?}"))
            }
        });
        let res: Vec<Result<(), String>> = join_all(futs).await;
        let mut mis = vec![];
        let mut v = Some(v);
        if plan.orphan {
            let _ = catch(AssertUnwindSafe(|| drop(v.take())));
        }
        for &x in &plan.misuse {
            let r = AssertUnwindSafe(m.validate_record(RecordId::from(x))).catch_unwind().await;
            match r {
                Ok(Ok(())) => mis.push((x, "Ok(())".to_string())),
                Ok(Err(_)) | Err(_) => {}
            }
        }
        let _ = take_last_panic();
        let _ = catch(AssertUnwindSafe(move || {
            drop(m);
            drop(v);
        }));
        (Ok(res), mis)
    }

    fn run(plan: &Plan) -> (Vec<Option<(Outcome, Vec<(usize, String)>)>>, Vec<(String, String)>, bool) {
        block_on(async {
            let mut wc = TestWorldConfig::default();
            wc.seed = plan.seed;
            wc.timeout = None;
            if !plan.dzkp {
                // the MAC validator's batch is the gateway's active work
                wc.gateway_config.active = plan.rpb.try_into().unwrap();
            }
            let world = TestWorld::new_with(&wc);
            let obs = Mutex::new(Obs::default());
            let mut rng = <rand::rngs::StdRng as rand::SeedableRng>::seed_from_u64(plan.seed ^ 0x16);
            let mut out: Vec<Option<(Outcome, Vec<(usize, String)>)>> = vec![None, None, None];
            let mut timed_out = false;
            {
                let ctxs = world.malicious_contexts();
                let mut futs = futures::stream::FuturesUnordered::new();
                if plan.dzkp {
                    let sa: [Replicated<Boolean>; 3] = Boolean::from(true).share_with(&mut rng);
                    let sb: [Replicated<Boolean>; 3] = Boolean::from(plan.seed & 1 == 1).share_with(&mut rng);
                    for (h, ((ctx, a), b)) in ctxs.into_iter().zip(sa).zip(sb).enumerate() {
                        let obs = &obs;
                        futs.push(async move { (h, AssertUnwindSafe(helper_dzkp(ctx, h, plan, obs, a, b)).catch_unwind().await).into() }.boxed_local());
                    }
                } else {
                    use crate::ff::U128Conversions;
                    let sa: [Replicated<Fp31>; 3] = Fp31::truncate_from(7u128).share_with(&mut rng);
                    let sb: [Replicated<Fp31>; 3] = Fp31::truncate_from(u128::from(plan.seed % 31)).share_with(&mut rng);
                    for (h, ((ctx, a), b)) in ctxs.into_iter().zip(sa).zip(sb).enumerate() {
                        let obs = &obs;
                        futs.push(async move { (h, AssertUnwindSafe(helper_mac(ctx, h, plan, obs, a, b)).catch_unwind().await).into() }.boxed_local());
                    }
                }
                let deadline = tokio::time::Instant::now() + Duration::from_secs(6);
                loop {
                    let next: Result<Option<(usize, Result<(Outcome, Vec<(usize, String)>), Box<dyn std::any::Any + Send>>)>, _> = tokio::time::timeout_at(deadline, futs.next()).await;
                    match next {
                        Ok(Some((h, Ok(r)))) => out[h] = Some(r),
                        Ok(Some((h, Err(p)))) => out[h] = Some((Err(format!("panic: {}", panic_message(&p))), vec![])),
                        Ok(None) => break,
                        Err(_) => {
                            timed_out = true;
                            break;
                        }
                    }
                }
                let _ = catch(AssertUnwindSafe(move || drop(futs)));
            }
            let bad = std::mem::take(&mut obs.lock().unwrap().bad);
            let _ = catch(AssertUnwindSafe(move || drop(world)));
            (out, bad, timed_out)
        })
    }

    fn case(_env: &Env, src: &mut Src<'_>) -> CaseResult {
        let dzkp = src.bool();
        let rpb = if dzkp { src.pick(&[1usize, 2, 4, 8]) } else { src.pick(&[2usize, 4, 8, 16]) };
        let n = src.urange(1, 3 * rpb + 2).min(20);
        // DZKP: only a prefix of the records multiplies (the same number of steps each); the others
        // reach validate_record without having pushed anything - possibly while nothing at all is
        // outstanding in the batcher (prefix at a batch boundary). MAC: every record multiplies.
        let per = 1 + src.idx(2);
        let prefix = if !dzkp {
            n
        } else {
            match src.below(4) {
                0 => n,
                1 => 0,
                2 => (src.idx(n / rpb + 1) * rpb).min(n),
                _ => src.idx(n + 1),
            }
        };
        let mults: Vec<usize> = (0..n).map(|i| if i < prefix { per } else { 0 }).collect();
        let shape = src.below(4);
        let delay: [Vec<u8>; 3] = std::array::from_fn(|_| {
            (0..n)
                .map(|i| match shape {
                    0 => 0,
                    // later records of a batch are slow: the first one of a batch arrives alone
                    1 => (if i % rpb == 0 { 0 } else { 3 + src.below(4) }) as u8,
                    // reverse arrival
                    2 => (2 * (n - i)) as u8,
                    _ => src.below(8) as u8,
                })
                .collect()
        });
        let mut misuse = vec![];
        match src.below(4) {
            0 => {}
            1 => misuse.push(src.idx(n)),
            2 => misuse.push(n + src.idx(2 * rpb + 1)),
            _ => {
                misuse.push(src.idx(n));
                misuse.push(n + src.idx(rpb + 1));
            }
        }
        // only meaningful when something is asked afterwards
        let orphan = !misuse.is_empty() && src.bool();
        let plan = Plan { dzkp, n, rpb, mults, delay, misuse, orphan, seed: src.seed() };
        let kind = if dzkp { "dzkp" } else { "mac" };
        let cj = json!({"context": kind, "records": n, "records_per_batch": rpb, "multiplications_per_record": plan.mults, "start_delays": plan.delay.iter().map(|d| d.clone()).collect::<Vec<_>>(), "validated_again_afterwards": plan.misuse, "validator_dropped_first": plan.orphan, "seed": plan.seed.to_string()});
        let mut labels = vec![format!("ctx:{kind}"), format!("rpb:{rpb}"), format!("arrival:{}", ["together", "batch-head-first", "reverse", "random"][shape as usize])];
        if plan.mults.iter().any(|m| *m == 0) {
            labels.push("record-without-multiplication".into());
        }
        if n % rpb != 0 {
            labels.push("partial-last-batch".into());
        }
        let (out, bad, timed_out) = run(&plan);
        if let Some((sig, msg)) = bad.into_iter().next() {
            return Err(violation(sig, msg, cj));
        }
        if timed_out {
            return Ok(CaseOk::new(false, &0u8, serde_json::Value::Null).label("inconclusive:timeout").labels(labels));
        }
        for (h, o) in out.iter().enumerate() {
            let Some((res, mis)) = o else {
                return Ok(CaseOk::new(false, &0u8, serde_json::Value::Null).label("inconclusive:no-outcome").labels(labels));
            };
            match res {
                Err(e) => return Err(violation(format!("honest-run-failed:{kind}"), format!("helper {h}: {e}").chars().take(400).collect::<String>(), cj)),
                Ok(v) => {
                    if let Some((i, Err(e))) = v.iter().enumerate().find(|(_, r)| r.is_err()) {
                        return Err(violation(format!("honest-record-rejected:{kind}"), format!("helper {h}: record {i} of an honest run was not validated: {e}").chars().take(400).collect::<String>(), cj));
                    }
                }
            }
            if let Some((x, r)) = mis.first() {
                let what = if plan.orphan { "validator-dropped" } else if *x < n { "twice" } else { "beyond-total" };
                return Err(violation(format!("misuse-not-rejected:real:{kind}:{what}"), format!("helper {h}: validate_record({x}) after all {n} records were validated{} returned {r} (neither an error nor a panic)", if plan.orphan { " and the validator handle was dropped" } else { "" }), cj));
            }
        }
        if plan.orphan {
            labels.push("misuse:after-validator-dropped".into());
        }
        if !plan.misuse.is_empty() {
            labels.push(format!("misuse:{}", if plan.misuse.iter().any(|x| *x < n) && plan.misuse.iter().any(|x| *x >= n) { "both" } else if plan.misuse[0] < n { "twice" } else { "beyond-total" }));
        }
        let d = digest(&(dzkp, n, rpb, &plan.mults, &plan.delay, &plan.misuse));
        Ok(CaseOk { nontrivial: n > rpb || plan.mults.iter().any(|m| *m == 0), digest: d, labels, sample: cj })
    }

    pub fn sub() -> Sub {
        Sub::random("real_contexts", 200, 1500, 40_000, case,
            "the real callers of the batcher under TestWorld: DZKPUpgraded::validate_record (Boolean multiplications, 1/2/4/8 records per batch) and the MAC context's validate_record (Fp31, batch = active work), 1..20 records; under DZKP only a generated prefix of the records multiplies (1-2 steps each; prefix = all, none, a whole number of batches, random), so the remaining records reach validate_record without having pushed anything - at a batch boundary while nothing at all is outstanding, arrival {together, batch head first, reverse, random} per helper; oracle: when the wait for record i returns, every record of its batch has requested validation; honest runs validate; validating a record again afterwards or a record beyond the total - in half of these cases after the validator handle itself has been dropped while the context is still held - is an error or a panic, never Ok; non-trivial = more than one batch or a record without multiplication")
        .shrink_iters(40)
    }

    // --------------------------------------------------------------------------------------
    // validated_seq_join: the API that hands each record to the protocol with its verdict
    // (added after seeded change C16-3, which drops the verdict one layer above the batcher)
    // --------------------------------------------------------------------------------------

    #[derive(Clone, Debug)]
    struct JoinPlan {
        n: usize,
        rpb: usize,
        steps: usize,
        /// (helper, record, step, left share?) - that helper uses a wrong share in that multiplication
        cheat: Option<(usize, usize, usize, bool)>,
        delay: [Vec<u8>; 3],
        seed: u64,
    }

    async fn helper_join(ctx: MaliciousContext<'_>, h: usize, plan: &JoinPlan, a: Vec<Replicated<Boolean>>, b: Vec<Replicated<Boolean>>) -> Vec<Result<(), String>> {
        use crate::secret_sharing::replicated::ReplicatedSecretSharing;
        use crate::ff::Field;
        let v = ctx.set_total_records(TotalRecords::specified(plan.n).unwrap()).dzkp_validator(TEST_DZKP_STEPS, plan.rpb);
        let m = v.context();
        let cheat = plan.cheat;
        let steps = plan.steps;
        let delays = plan.delay[h].clone();
        v.validated_seq_join(futures::stream::iter(a.into_iter().zip(b)).enumerate().map(move |(i, (a, b))| {
            let m = m.clone();
            let d = delays[i];
            async move {
                for _ in 0..d {
                    tokio::task::yield_now().await;
                }
                let rid = RecordId::from(i);
                let mut acc = a;
                for k in 0..steps {
                    let x = match cheat {
                        Some((ch, cr, ck, left)) if ch == h && cr == i && ck == k => {
                            if left {
                                Replicated::new(acc.left() + Boolean::ONE, acc.right())
                            } else {
                                Replicated::new(acc.left(), acc.right() + Boolean::ONE)
                            }
                        }
                        _ => acc.clone(),
                    };
                    acc = x.multiply(&b, m.narrow(&format!("c16join{k}")), rid).await?;
                }
                Ok::<_, Error>(acc)
            }
        }))
        .map(|r| r.map(|_| ()).map_err(|e| format!("{e:?}")))
        .collect::<Vec<_>>()
        .await
    }

    fn run_join(plan: &JoinPlan) -> (Vec<Option<Result<Vec<Result<(), String>>, String>>>, bool) {
        block_on(async {
            let mut wc = TestWorldConfig::default();
            wc.seed = plan.seed;
            wc.timeout = None;
            let world = TestWorld::new_with(&wc);
            let mut rng = <rand::rngs::StdRng as rand::SeedableRng>::seed_from_u64(plan.seed ^ 0x1603);
            let mut out: Vec<Option<Result<Vec<Result<(), String>>, String>>> = vec![None, None, None];
            let mut timed_out = false;
            {
                let ctxs = world.malicious_contexts();
                let mut sa: [Vec<Replicated<Boolean>>; 3] = Default::default();
                let mut sb: [Vec<Replicated<Boolean>>; 3] = Default::default();
                for i in 0..plan.n {
                    let xa: [Replicated<Boolean>; 3] = Boolean::from((plan.seed >> (i % 60)) & 1 == 1).share_with(&mut rng);
                    let xb: [Replicated<Boolean>; 3] = Boolean::from(true).share_with(&mut rng);
                    for h in 0..3 {
                        sa[h].push(xa[h].clone());
                        sb[h].push(xb[h].clone());
                    }
                }
                let mut futs = futures::stream::FuturesUnordered::new();
                for (h, ((ctx, a), b)) in ctxs.into_iter().zip(sa).zip(sb).enumerate() {
                    futs.push(async move { (h, AssertUnwindSafe(helper_join(ctx, h, plan, a, b)).catch_unwind().await) }.boxed_local());
                }
                let deadline = tokio::time::Instant::now() + Duration::from_secs(6);
                loop {
                    match tokio::time::timeout_at(deadline, futs.next()).await {
                        Ok(Some((h, Ok(r)))) => out[h] = Some(Ok(r)),
                        Ok(Some((h, Err(p)))) => out[h] = Some(Err(format!("panic: {}", panic_message(&p)))),
                        Ok(None) => break,
                        Err(_) => {
                            timed_out = true;
                            break;
                        }
                    }
                }
                let _ = catch(AssertUnwindSafe(move || drop(futs)));
            }
            let _ = take_last_panic();
            let _ = catch(AssertUnwindSafe(move || drop(world)));
            (out, timed_out)
        })
    }

    fn join_case(_env: &Env, src: &mut Src<'_>) -> CaseResult {
        // records per batch become the active work, which the code requires to be a power of two
        let rpb = src.pick(&[1usize, 2, 4, 8, 16]);
        let n = src.urange(1, 3 * rpb + 2).min(20);
        let steps = 1 + src.idx(2);
        let cheat = if src.below(5) == 0 { None } else { Some((src.idx(3), src.idx(n), src.idx(steps), src.bool())) };
        let shape = src.below(3);
        let delay: [Vec<u8>; 3] = std::array::from_fn(|_| {
            (0..n)
                .map(|i| match shape {
                    0 => 0,
                    // within a batch the later records finish first
                    1 => (2 * (rpb - i % rpb)) as u8,
                    _ => src.below(8) as u8,
                })
                .collect()
        });
        let plan = JoinPlan { n, rpb, steps, cheat, delay, seed: src.seed() };
        let cj = json!({"records": n, "records_per_batch": rpb, "multiplications_per_record": steps,
            "wrong_share": plan.cheat.map(|(h, r, k, l)| json!({"helper": h, "record": r, "step": k, "share": if l { "left" } else { "right" }})),
            "start_delays": plan.delay.iter().map(|d| d.clone()).collect::<Vec<_>>(), "seed": plan.seed.to_string()});
        let mut labels = vec![format!("rpb:{rpb}"), format!("finish-order:{}", ["in-order", "batch-reversed", "random"][shape as usize]), format!("cheat:{}", if cheat.is_some() { "one-wrong-share" } else { "none" })];
        if n % rpb != 0 {
            labels.push("partial-last-batch".into());
        }
        let (out, timed_out) = run_join(&plan);
        if timed_out {
            return Ok(CaseOk::new(false, &0u8, serde_json::Value::Null).label("inconclusive:timeout").labels(labels));
        }
        let bad_batch = plan.cheat.map(|(_, r, _, _)| r / rpb);
        let mut detected_by_honest = false;
        for (h, o) in out.iter().enumerate() {
            let Some(res) = o else {
                return Ok(CaseOk::new(false, &0u8, serde_json::Value::Null).label("inconclusive:no-outcome").labels(labels));
            };
            let v = match res {
                Err(e) if plan.cheat.is_none() => return Err(violation("honest-run-failed:join", format!("helper {h}: {e}").chars().take(400).collect::<String>(), cj)),
                Err(_) => {
                    labels.push("helper-panicked-under-attack".into());
                    continue;
                }
                Ok(v) => v,
            };
            let verdicts: Vec<bool> = v.iter().map(Result::is_ok).collect();
            if plan.cheat.is_none() || verdicts.len() == n {
                if verdicts.len() != n {
                    return Err(violation("join-lost-records", format!("helper {h}: validated_seq_join yielded {} items for {n} records of an honest run", verdicts.len()), cj));
                }
            }
            for (bi, batch) in verdicts.chunks(rpb).enumerate() {
                // the verdict belongs to the batch: whatever this helper concluded about the
                // batch, every record of it is released with that verdict
                if batch.iter().any(|x| *x) && batch.iter().any(|x| !*x) {
                    return Err(violation(
                        "batch-verdict-split",
                        format!("helper {h}: the records of batch {bi} ({rpb} records per batch) left validated_seq_join with different verdicts {batch:?} (true = Ok) - a record was released with a verdict that is not its batch's; all verdicts of this helper: {verdicts:?}"),
                        cj,
                    ));
                }
                let honest_batch = bad_batch.is_none_or(|b| bi < b);
                if honest_batch && batch.iter().any(|x| !*x) {
                    let e = v[bi * rpb..].iter().find_map(|r| r.as_ref().err()).cloned().unwrap_or_default();
                    return Err(violation("honest-batch-rejected:join", format!("helper {h}: batch {bi}, in which nobody deviated, was not released as Ok: {e}").chars().take(400).collect::<String>(), cj));
                }
                if Some(bi) == bad_batch && batch.iter().all(|x| !*x) && plan.cheat.is_some_and(|(ch, ..)| ch != h) {
                    detected_by_honest = true;
                }
                if bad_batch.is_some_and(|b| bi > b) {
                    labels.push(format!("batch-after-failed-one:{}", if batch.iter().all(|x| *x) { "ok" } else { "err" }));
                }
            }
        }
        if plan.cheat.is_some() {
            labels.push(format!("wrong-share:{}", if detected_by_honest { "rejected-by-an-honest-helper" } else { "not-rejected" }));
            if let Some(b) = bad_batch {
                labels.push(format!("failed-batch-size:{}", ((b + 1) * rpb).min(n) - b * rpb));
            }
        }
        labels.sort();
        labels.dedup();
        let d = digest(&(n, rpb, steps, plan.cheat, &plan.delay));
        Ok(CaseOk { nontrivial: plan.cheat.is_some_and(|(_, r, ..)| ((r / rpb + 1) * rpb).min(n) - r / rpb * rpb >= 2) || n > rpb, digest: d, labels, sample: cj })
    }

    pub fn join_sub() -> Sub {
        Sub::random("seq_join_verdicts", 200, 1200, 30_000, join_case,
            "DZKPValidator::validated_seq_join (the API that releases each record to the protocol with its verdict) under TestWorld: 1..20 records of 1-2 Boolean multiplications, 1/2/4/8/16 records per batch (a power of two, as the active-work setting requires), finish order {in order, reversed within the batch, random} per helper, and in 4 of 5 cases one helper uses a wrong left/right share in one multiplication of one record; oracle: on every helper all records of a batch leave the stream with the same verdict (the batch's), batches before the deviation are released Ok, an honest run releases every record Ok; whether an honest helper rejects the deviating batch and what happens to later batches are labels; non-trivial = more than one batch, or the failing batch holds at least two records")
        .shrink_iters(40)
    }
}
