// C16 - a record is released only after its whole batch is validated, with its verdict.
//
// `Batcher` is private to `protocol::context`; the case code lives in the H3 hook body
// (`h3_context.rs`, module `crate::protocol::context::ipa_verif_h3`).

pub use crate::protocol::context::ipa_verif_h3::{LEVEL, subs};
