// C17 - byte-stream parsers are independent of chunking and total on arbitrary input.
//
// Parsers under test: `RecordsStream` (Batch mode), `SingleRecordStream`, `LengthDelimitedStream`
// (raw and through `try_flatten_iters`, as the hybrid runner uses it), `BufferedBytesStream`, and
// the record pipeline `SingleRecordStream -> process_stream_by_chunks::<N> -> Chunk::unpack::<M>`
// (+ `process_slice_by_chunks` on the parsed records).
//
// Oracle: a reference parse of the *concatenated* bytes written here (no knowledge of chunks):
// the flattened sequence of records and the terminal event (end / deserialisation error /
// trailing partial data / inner stream error) must be equal for every chunking, and no call may
// panic.

use std::{
    convert::Infallible,
    fmt,
    num::NonZeroUsize,
    pin::Pin,
    sync::OnceLock,
    task::{Context, Poll},
};

use bytes::Bytes;
use futures::{FutureExt, Stream, StreamExt, TryStreamExt};
use generic_array::GenericArray;
use serde_json::{Value, json};
use typenum::{U1, U2, U3, U4, U5, U6, U7, U8};

use super::common::*;
use crate::{
    error::{BoxError, Error},
    ff::Serializable,
    helpers::{
        BodyStream, BufferedBytesStream, LengthDelimitedStream, RecordsStream, SingleRecordStream,
        stream::{Chunk, ChunkData, ExactSizeStream, FixedLength, TryFlattenItersExt, process_slice_by_chunks, process_stream_by_chunks},
    },
};

pub const LEVEL: &str = "exploration";

/// first byte of a record that the fallible element types refuse
const BAD: u8 = 0xEE;
const BAD_MARK: &str = "verif-bad-record";
const INNER_MARK: &str = "verif-inner-error";

// ------------------------------------------------------------------------------------------
// element types: fixed sizes 1..8, infallible (R*) and fallible (F*: first byte 0xEE is invalid)
// ------------------------------------------------------------------------------------------

pub struct BadRec;
impl fmt::Debug for BadRec {
    fn fmt(&self, f: &mut fmt::Formatter<'_>) -> fmt::Result {
        f.write_str(BAD_MARK)
    }
}
impl fmt::Display for BadRec {
    fn fmt(&self, f: &mut fmt::Formatter<'_>) -> fmt::Result {
        f.write_str(BAD_MARK)
    }
}
impl std::error::Error for BadRec {}

pub trait El: Serializable + Clone + Default + PartialEq + fmt::Debug + Send + Sync + 'static {
    fn raw(&self) -> Vec<u8>;
}

macro_rules! rec_types {
    ($(($r:ident, $f:ident, $u:ty, $s:literal)),*) => {$(
        #[derive(Clone, Debug, PartialEq, Eq, Default)]
        pub struct $r(pub [u8; $s]);
        impl Serializable for $r {
            type Size = $u;
            type DeserializationError = Infallible;
            fn serialize(&self, buf: &mut GenericArray<u8, Self::Size>) {
                buf.copy_from_slice(&self.0);
            }
            fn deserialize(buf: &GenericArray<u8, Self::Size>) -> Result<Self, Infallible> {
                let mut a = [0u8; $s];
                a.copy_from_slice(buf.as_slice());
                Ok(Self(a))
            }
        }
        impl El for $r {
            fn raw(&self) -> Vec<u8> { self.0.to_vec() }
        }
        #[derive(Clone, Debug, PartialEq, Eq, Default)]
        pub struct $f(pub [u8; $s]);
        impl Serializable for $f {
            type Size = $u;
            type DeserializationError = BadRec;
            fn serialize(&self, buf: &mut GenericArray<u8, Self::Size>) {
                buf.copy_from_slice(&self.0);
            }
            fn deserialize(buf: &GenericArray<u8, Self::Size>) -> Result<Self, BadRec> {
                if buf[0] == BAD {
                    return Err(BadRec);
                }
                let mut a = [0u8; $s];
                a.copy_from_slice(buf.as_slice());
                Ok(Self(a))
            }
        }
        impl El for $f {
            fn raw(&self) -> Vec<u8> { self.0.to_vec() }
        }
    )*};
}
rec_types!((R1, F1, U1, 1), (R2, F2, U2, 2), (R3, F3, U3, 3), (R4, F4, U4, 4), (R5, F5, U5, 5), (R6, F6, U6, 6), (R7, F7, U7, 7), (R8, F8, U8, 8));

/// variable-length element whose conversion fails when the first byte is 0xEE
pub struct FBlob(Bytes);
impl TryFrom<Bytes> for FBlob {
    type Error = BadRec;
    fn try_from(b: Bytes) -> Result<Self, BadRec> {
        if b.first() == Some(&BAD) { Err(BadRec) } else { Ok(FBlob(b)) }
    }
}

// ------------------------------------------------------------------------------------------
// the inner (network) stream: a scripted sequence of chunks, pendings and one optional error
// ------------------------------------------------------------------------------------------

#[derive(Clone, Debug)]
enum Item {
    Data(Vec<u8>),
    Pending,
    Fail,
}

struct ChunkSrc {
    items: std::vec::IntoIter<Item>,
    /// when set, the chunks come from the crate's own body type (which cuts a buffer into network
    /// chunks itself) instead of the script
    body: Option<BodyStream>,
}

impl Stream for ChunkSrc {
    type Item = Result<Bytes, BoxError>;
    fn poll_next(mut self: Pin<&mut Self>, cx: &mut Context<'_>) -> Poll<Option<Self::Item>> {
        if let Some(b) = self.body.as_mut() {
            return Pin::new(b).poll_next(cx);
        }
        match self.items.next() {
            None => Poll::Ready(None),
            Some(Item::Data(d)) => Poll::Ready(Some(Ok(Bytes::from(d)))),
            Some(Item::Pending) => {
                cx.waker().wake_by_ref();
                Poll::Pending
            }
            Some(Item::Fail) => Poll::Ready(Some(Err(INNER_MARK.into()))),
        }
    }
}

// ------------------------------------------------------------------------------------------
// parse result model
// ------------------------------------------------------------------------------------------

#[derive(Clone, Copy, PartialEq, Eq, Debug, Hash)]
enum Term {
    End,
    Deser,
    Trailing,
    Inner,
    /// the parser returned Pending although the inner stream was not pending (lost data / hang)
    Stuck,
    /// a structural anomaly of the chunk pipeline (wrong index, padding, chunk type)
    Bad(&'static str),
}

#[derive(Clone, PartialEq, Eq, Debug)]
struct Parsed {
    recs: Vec<Vec<u8>>,
    term: Term,
}

fn classify(msg: &str) -> Term {
    if msg.contains(INNER_MARK) {
        Term::Inner
    } else if msg.contains(BAD_MARK) {
        Term::Deser
    } else {
        Term::Trailing
    }
}

/// Drive a stream to its first terminal event with a no-op waker. `f` appends the records of an
/// item, or returns the terminal class for an error item.
fn collect<S, I>(mut s: Pin<&mut S>, pend_limit: usize, mut f: impl FnMut(I, &mut Vec<Vec<u8>>) -> Option<Term>) -> Parsed
where
    S: Stream<Item = I> + ?Sized,
{
    let waker = futures::task::noop_waker();
    let mut cx = Context::from_waker(&waker);
    let mut recs = vec![];
    let mut pend = 0usize;
    loop {
        match s.as_mut().poll_next(&mut cx) {
            Poll::Ready(Some(it)) => {
                if let Some(t) = f(it, &mut recs) {
                    return Parsed { recs, term: t };
                }
            }
            Poll::Ready(None) => return Parsed { recs, term: Term::End },
            Poll::Pending => {
                pend += 1;
                if pend > pend_limit {
                    return Parsed { recs, term: Term::Stuck };
                }
            }
        }
    }
}

#[derive(Clone, Copy, Debug, PartialEq, Eq, Hash)]
enum Parser {
    /// SingleRecordStream, record size s, fallible element?
    Single { s: u8, f: bool },
    /// RecordsStream in Batch mode
    Batch { s: u8, f: bool },
    /// LengthDelimitedStream; flat = through map_err + try_flatten_iters
    Ld { f: bool, flat: bool },
    Buffered { sz: u16 },
    /// SingleRecordStream<R2 or F1> -> process_stream_by_chunks::<N> -> unpack::<M>; nm indexes PIPE_NM
    Pipe { f: bool, nm: u8 },
}

const PIPE_NM: [(usize, usize); 6] = [(1, 1), (2, 1), (3, 3), (4, 2), (8, 4), (8, 1)];

impl Parser {
    fn name(self) -> String {
        match self {
            Parser::Single { s, f } => format!("Single<{}{}>", if f { "F" } else { "R" }, s),
            Parser::Batch { s, f } => format!("Batch<{}{}>", if f { "F" } else { "R" }, s),
            Parser::Ld { f, flat } => format!("LengthDelimited<{}>{}", if f { "FBlob" } else { "Bytes" }, if flat { "+flatten" } else { "" }),
            Parser::Buffered { sz } => format!("Buffered<{sz}>"),
            Parser::Pipe { f, nm } => format!("Pipe<{},N={},M={}>", if f { "F1" } else { "R2" }, PIPE_NM[nm as usize].0, PIPE_NM[nm as usize].1),
        }
    }
    fn family(self) -> &'static str {
        match self {
            Parser::Single { .. } => "Single",
            Parser::Batch { .. } => "Batch",
            Parser::Ld { .. } => "LengthDelimited",
            Parser::Buffered { .. } => "Buffered",
            Parser::Pipe { .. } => "Pipe",
        }
    }
    /// fixed record size (None for length-delimited / buffered)
    fn rec_size(self) -> Option<usize> {
        match self {
            Parser::Single { s, .. } | Parser::Batch { s, .. } => Some(s as usize),
            Parser::Pipe { f, .. } => Some(if f { 1 } else { 2 }),
            _ => None,
        }
    }
    fn fallible(self) -> bool {
        match self {
            Parser::Single { f, .. } | Parser::Batch { f, .. } | Parser::Ld { f, .. } | Parser::Pipe { f, .. } => f,
            Parser::Buffered { .. } => false,
        }
    }
}

// ------------------------------------------------------------------------------------------
// running the real parsers
// ------------------------------------------------------------------------------------------

fn err_term<E: fmt::Display + fmt::Debug>(e: &E) -> Term {
    classify(&format!("{e} {e:?}"))
}

fn run_single<T: El>(src: ChunkSrc, lim: usize) -> Parsed {
    let mut st = SingleRecordStream::<T, _>::new(src);
    collect(Pin::new(&mut st), lim, |it: Result<T, Error>, recs| match it {
        Ok(r) => {
            recs.push(r.raw());
            None
        }
        Err(e) => Some(err_term(&e)),
    })
}

fn run_batch<T: El>(src: ChunkSrc, lim: usize) -> Parsed {
    let mut st = RecordsStream::<T, _>::new(src);
    collect(Pin::new(&mut st), lim, |it: Result<Vec<T>, Error>, recs| match it {
        Ok(v) => {
            recs.extend(v.iter().map(El::raw));
            None
        }
        Err(e) => Some(err_term(&e)),
    })
}

fn run_ld(f: bool, flat: bool, src: ChunkSrc, lim: usize) -> Parsed {
    match (f, flat) {
        (false, false) => {
            let mut st = LengthDelimitedStream::<Bytes, _>::new(src);
            collect(Pin::new(&mut st), lim, |it: Result<Vec<Bytes>, std::io::Error>, recs| match it {
                Ok(v) => {
                    recs.extend(v.iter().map(|b| b.to_vec()));
                    None
                }
                Err(e) => Some(err_term(&e)),
            })
        }
        (true, false) => {
            let mut st = LengthDelimitedStream::<FBlob, _>::new(src);
            collect(Pin::new(&mut st), lim, |it: Result<Vec<FBlob>, std::io::Error>, recs| match it {
                Ok(v) => {
                    recs.extend(v.iter().map(|b| b.0.to_vec()));
                    None
                }
                Err(e) => Some(err_term(&e)),
            })
        }
        (false, true) => {
            let st = LengthDelimitedStream::<Bytes, _>::new(src).map_err(Error::from).try_flatten_iters();
            let mut st = Box::pin(st);
            collect(st.as_mut(), lim, |it: Result<Bytes, Error>, recs| match it {
                Ok(b) => {
                    recs.push(b.to_vec());
                    None
                }
                Err(e) => Some(err_term(&e)),
            })
        }
        (true, true) => {
            let st = LengthDelimitedStream::<FBlob, _>::new(src).map_err(Error::from).try_flatten_iters();
            let mut st = Box::pin(st);
            collect(st.as_mut(), lim, |it: Result<FBlob, Error>, recs| match it {
                Ok(b) => {
                    recs.push(b.0.to_vec());
                    None
                }
                Err(e) => Some(err_term(&e)),
            })
        }
    }
}

fn run_buffered(sz: usize, src: ChunkSrc, lim: usize) -> Parsed {
    let mut st = BufferedBytesStream::new(src, NonZeroUsize::new(sz).unwrap());
    collect(Pin::new(&mut st), lim, |it: Result<Bytes, BoxError>, recs| match it {
        Ok(b) => {
            recs.push(b.to_vec());
            None
        }
        Err(e) => Some(err_term(&e)),
    })
}

/// bytes -> SingleRecordStream<T> -> process_stream_by_chunks::<N> -> (flatten, unpack::<M> + flatten)
fn run_pipe<T: El, const N: usize, const M: usize>(src: ChunkSrc, lim: usize) -> Parsed {
    let rs = SingleRecordStream::<T, _>::new(src);
    let st = process_stream_by_chunks::<_, T, Vec<T>, _, _, _, N>(rs, Vec::new(), |idx, chunk: Box<[T; N]>| {
        std::future::ready(Ok::<_, Error>((idx, chunk)))
    });
    let mut st = Box::pin(st);
    let mut next_idx = 0usize;
    let mut seen_partial = false;
    collect(st.as_mut(), lim, |fut, recs| {
        let Some(res) = fut.now_or_never() else { return Some(Term::Bad("chunk future not ready")) };
        let chunk = match res {
            Ok(c) => c,
            Err(e) => return Some(err_term(&e)),
        };
        if seen_partial {
            return Some(Term::Bad("chunk after the partial chunk"));
        }
        // the whole (padded) data and the index, through the public `map`
        let mut all: Vec<T> = vec![];
        let mut idx = usize::MAX;
        let c1: Chunk<Vec<T>, N> = chunk.clone().map(|(i, b)| {
            idx = i;
            all = b.to_vec();
            b.to_vec()
        });
        if idx != next_idx {
            return Some(Term::Bad("chunk index"));
        }
        next_idx += 1;
        let valid: Vec<T> = c1.into_iter().collect();
        if valid.is_empty() || valid.len() > N || all.len() != N {
            return Some(Term::Bad("chunk length"));
        }
        if valid.len() < N {
            seen_partial = true;
            if all[valid.len()..].iter().any(|p| *p != T::default()) {
                return Some(Term::Bad("padding is not the default record"));
            }
        }
        if all[..valid.len()] != valid[..] {
            return Some(Term::Bad("chunk iterator differs from data prefix"));
        }
        // unpack into sub-chunks of M and flatten again
        let sub: Chunk<Vec<Vec<T>>, N> = chunk.map(|(_, b)| b.chunks(M).map(<[T]>::to_vec).collect());
        let unpacked: Vec<Chunk<Vec<T>, M>> = sub.unpack::<M>();
        let again: Vec<T> = unpacked.into_iter().flat_map(IntoIterator::into_iter).collect();
        if again != valid {
            return Some(Term::Bad("unpack changes the record sequence"));
        }
        recs.extend(valid.iter().map(El::raw));
        None
    })
}

/// process_slice_by_chunks::<N> over already parsed records: flattening returns the records
fn slice_chunks_ok<T: El, const N: usize>(records: &[T]) -> Result<(), &'static str> {
    let st = process_slice_by_chunks::<T, _, _, _, N>(records, |idx, cd| {
        std::future::ready(Ok::<_, Error>((idx, cd.to_vec())))
    });
    let mut st = Box::pin(st);
    let mut out: Vec<T> = vec![];
    let mut next_idx = 0usize;
    let waker = futures::task::noop_waker();
    let mut cx = Context::from_waker(&waker);
    loop {
        match st.as_mut().poll_next(&mut cx) {
            Poll::Ready(Some(fut)) => {
                let Some(Ok(chunk)) = fut.now_or_never() else { return Err("slice chunk future") };
                let mut idx = usize::MAX;
                let mut all = vec![];
                let c: Chunk<Vec<T>, N> = chunk.map(|(i, v)| {
                    idx = i;
                    all = v.clone();
                    v
                });
                if idx != next_idx || all.len() != N {
                    return Err("slice chunk index/len");
                }
                next_idx += 1;
                let valid: Vec<T> = c.into_iter().collect();
                if all[valid.len()..].iter().any(|p| *p != T::default()) {
                    return Err("slice padding");
                }
                out.extend(valid);
            }
            Poll::Ready(None) => break,
            Poll::Pending => return Err("slice stream pending"),
        }
    }
    if out == records { Ok(()) } else { Err("slice flatten differs") }
}

macro_rules! by_size {
    ($s:expr, $f:expr, $func:ident, $($arg:expr),*) => {
        match ($s, $f) {
            (1, false) => $func::<R1>($($arg),*), (1, true) => $func::<F1>($($arg),*),
            (2, false) => $func::<R2>($($arg),*), (2, true) => $func::<F2>($($arg),*),
            (3, false) => $func::<R3>($($arg),*), (3, true) => $func::<F3>($($arg),*),
            (4, false) => $func::<R4>($($arg),*), (4, true) => $func::<F4>($($arg),*),
            (5, false) => $func::<R5>($($arg),*), (5, true) => $func::<F5>($($arg),*),
            (6, false) => $func::<R6>($($arg),*), (6, true) => $func::<F6>($($arg),*),
            (7, false) => $func::<R7>($($arg),*), (7, true) => $func::<F7>($($arg),*),
            (_, false) => $func::<R8>($($arg),*), (_, true) => $func::<F8>($($arg),*),
        }
    };
}

fn run_parser(p: Parser, items: Vec<Item>) -> Parsed {
    let lim = items.iter().filter(|i| matches!(i, Item::Pending)).count();
    let src = ChunkSrc { items: items.into_iter(), body: None };
    run_parser_on(p, src, lim)
}

fn run_parser_on(p: Parser, src: ChunkSrc, lim: usize) -> Parsed {
    match p {
        Parser::Single { s, f } => by_size!(s, f, run_single, src, lim),
        Parser::Batch { s, f } => by_size!(s, f, run_batch, src, lim),
        Parser::Ld { f, flat } => run_ld(f, flat, src, lim),
        Parser::Buffered { sz } => run_buffered(sz as usize, src, lim),
        Parser::Pipe { f, nm } => match (f, nm) {
            (false, 0) => run_pipe::<R2, 1, 1>(src, lim),
            (false, 1) => run_pipe::<R2, 2, 1>(src, lim),
            (false, 2) => run_pipe::<R2, 3, 3>(src, lim),
            (false, 3) => run_pipe::<R2, 4, 2>(src, lim),
            (false, 4) => run_pipe::<R2, 8, 4>(src, lim),
            (false, _) => run_pipe::<R2, 8, 1>(src, lim),
            (true, 0) => run_pipe::<F1, 1, 1>(src, lim),
            (true, 1) => run_pipe::<F1, 2, 1>(src, lim),
            (true, 2) => run_pipe::<F1, 3, 3>(src, lim),
            (true, 3) => run_pipe::<F1, 4, 2>(src, lim),
            (true, 4) => run_pipe::<F1, 8, 4>(src, lim),
            (true, _) => run_pipe::<F1, 8, 1>(src, lim),
        },
    }
}

// ------------------------------------------------------------------------------------------
// reference parse of the concatenated bytes (chunk-agnostic)
// ------------------------------------------------------------------------------------------

/// `fail_at`: the inner stream reports an error after exactly that many bytes were delivered.
fn reference(p: Parser, all: &[u8], fail_at: Option<usize>) -> Parsed {
    let bytes = &all[..fail_at.unwrap_or(all.len()).min(all.len())];
    let last = if fail_at.is_some() { Term::Inner } else { Term::End };
    match p {
        Parser::Single { .. } | Parser::Batch { .. } | Parser::Pipe { .. } => {
            let s = p.rec_size().unwrap();
            let mut recs = vec![];
            let mut term = None;
            for g in bytes.chunks(s) {
                if g.len() < s {
                    // trailing partial record: an error at the end of the body; if the inner stream
                    // fails first that failure is what the reader gets
                    term = Some(if fail_at.is_some() { Term::Inner } else { Term::Trailing });
                    break;
                }
                if p.fallible() && g[0] == BAD {
                    term = Some(Term::Deser);
                    break;
                }
                recs.push(g.to_vec());
            }
            let term = term.unwrap_or(last);
            if let Parser::Pipe { nm, .. } = p {
                // records are grouped by N; an error terminates the stream and the records of the
                // incomplete group never leave the chunker
                let n = PIPE_NM[nm as usize].0;
                if term != Term::End {
                    let keep = recs.len() / n * n;
                    recs.truncate(keep);
                }
            }
            Parsed { recs, term }
        }
        Parser::Ld { f, .. } => {
            let mut recs = vec![];
            let mut pos = 0usize;
            loop {
                let rem = bytes.len() - pos;
                if rem == 0 {
                    return Parsed { recs, term: last };
                }
                if rem < 2 {
                    return Parsed { recs, term: if fail_at.is_some() { Term::Inner } else { Term::Trailing } };
                }
                let len = usize::from(u16::from_le_bytes([bytes[pos], bytes[pos + 1]]));
                if rem - 2 < len {
                    return Parsed { recs, term: if fail_at.is_some() { Term::Inner } else { Term::Trailing } };
                }
                let body = &bytes[pos + 2..pos + 2 + len];
                if f && body.first() == Some(&BAD) {
                    return Parsed { recs, term: Term::Deser };
                }
                recs.push(body.to_vec());
                pos += 2 + len;
            }
        }
        Parser::Buffered { sz } => {
            let sz = sz as usize;
            let mut recs: Vec<Vec<u8>> = bytes.chunks(sz).map(<[u8]>::to_vec).collect();
            if fail_at.is_some() && recs.last().is_some_and(|l| l.len() < sz) {
                // the partial buffer is not released before the error is reported
                recs.pop();
            }
            Parsed { recs, term: last }
        }
    }
}

// ------------------------------------------------------------------------------------------
// comparison
// ------------------------------------------------------------------------------------------

fn short(recs: &[Vec<u8>]) -> Value {
    json!(recs.iter().take(12).map(|r| r.iter().take(12).map(|b| format!("{b:02x}")).collect::<String>()).collect::<Vec<_>>())
}

fn items_json(items: &[Item]) -> Value {
    json!(
        items
            .iter()
            .take(64)
            .map(|i| match i {
                Item::Data(d) if d.len() <= 24 => d.iter().map(|b| format!("{b:02x}")).collect::<String>(),
                Item::Data(d) => format!("<{} bytes>", d.len()),
                Item::Pending => "PENDING".to_string(),
                Item::Fail => "ERROR".to_string(),
            })
            .collect::<Vec<_>>()
    )
}

/// Signature of the records-dropped-before-error behaviour of the batching parsers: the records
/// that precede a failing record in the same internal batch are discarded, so the number of records
/// delivered before the error depends on the chunking.
fn dropped_sig(p: Parser) -> String {
    format!("records-before-error-dropped:{}", p.family())
}

fn compare(env: &Env, p: Parser, want: &Parsed, got: &Parsed, items: &[Item]) -> Result<(), CaseErr> {
    if want == got {
        return Ok(());
    }
    let case = json!({
        "parser": p.name(), "chunks": items_json(items),
        "expected_records": want.recs.len(), "expected_end": format!("{:?}", want.term), "expected_head": short(&want.recs),
        "got_records": got.recs.len(), "got_end": format!("{:?}", got.term), "got_head": short(&got.recs),
    });
    let batching = matches!(p, Parser::Batch { .. } | Parser::Ld { .. });
    if batching && want.term == Term::Deser && got.term == Term::Deser && got.recs.len() < want.recs.len() && want.recs[..got.recs.len()] == got.recs[..] {
        return known_or_violation(
            env,
            &dropped_sig(p),
            format!(
                "{}: {} valid record(s) precede the invalid record in the bytes, but only {} were delivered before the error (the rest of the internal batch is discarded; the count depends on the chunking)",
                p.name(),
                want.recs.len(),
                got.recs.len()
            ),
            case,
        );
    }
    let what = if let Term::Bad(w) = got.term {
        format!("pipeline:{w}")
    } else if got.term == Term::Stuck {
        "pending-without-pending-input".to_string()
    } else if want.term != got.term {
        format!("terminal:{:?}-instead-of-{:?}", got.term, want.term)
    } else {
        "records".to_string()
    };
    Err(violation(
        format!("parse-mismatch:{}:{what}", p.family()),
        format!(
            "{}: expected {} record(s) then {:?}; got {} record(s) then {:?}",
            p.name(),
            want.recs.len(),
            want.term,
            got.recs.len(),
            got.term
        ),
        case,
    ))
}

fn run_checked(p: Parser, items: &[Item]) -> Result<Parsed, CaseErr> {
    let it = items.to_vec();
    match catch(move || run_parser(p, it)) {
        Ok(r) => Ok(r),
        Err((loc, msg)) => Err(violation(
            format!("panic:{}:{}", p.family(), loc_file(&loc)),
            format!("{} panicked at {loc}: {msg}", p.name()),
            json!({"parser": p.name(), "chunks": items_json(items)}),
        )),
    }
}

// ------------------------------------------------------------------------------------------
// chunkings
// ------------------------------------------------------------------------------------------

/// split `bytes` after byte i for every set bit i of `mask`; `e` selects the empty-chunk pattern
fn split_by_mask(bytes: &[u8], mask: u64, e: u8) -> Vec<Item> {
    let mut chunks: Vec<Vec<u8>> = vec![];
    let mut cur = vec![];
    for (i, b) in bytes.iter().enumerate() {
        cur.push(*b);
        if i + 1 < bytes.len() && (mask >> i) & 1 == 1 {
            chunks.push(std::mem::take(&mut cur));
        }
    }
    if !cur.is_empty() {
        chunks.push(cur);
    }
    let mut out = vec![];
    match e {
        0 => out.extend(chunks.into_iter().map(Item::Data)),
        1 => {
            out.push(Item::Data(vec![]));
            out.extend(chunks.into_iter().map(Item::Data));
            out.push(Item::Data(vec![]));
        }
        2 => {
            for c in chunks {
                out.push(Item::Data(c));
                out.push(Item::Data(vec![]));
            }
        }
        _ => {
            for c in chunks {
                out.push(Item::Data(vec![]));
                out.push(Item::Data(vec![]));
                out.push(Item::Data(c));
            }
        }
    }
    out
}

/// number of non-empty chunks the widest record spans
fn max_span(p: Parser, want: &Parsed, items: &[Item]) -> usize {
    // record byte ranges in the concatenation
    let mut ranges = vec![];
    let mut pos = 0usize;
    for r in &want.recs {
        let hdr = if matches!(p, Parser::Ld { .. }) { 2 } else { 0 };
        ranges.push((pos, pos + hdr + r.len()));
        pos += hdr + r.len();
    }
    let mut bounds = vec![];
    let mut off = 0usize;
    for it in items {
        if let Item::Data(d) = it {
            if !d.is_empty() {
                bounds.push((off, off + d.len()));
                off += d.len();
            }
        }
    }
    ranges
        .iter()
        .map(|(a, b)| bounds.iter().filter(|(c, d)| c < b && a < d && a != b).count())
        .max()
        .unwrap_or(0)
}

// ------------------------------------------------------------------------------------------
// the catalogue of short test streams (exhaustive sub-checks)
// ------------------------------------------------------------------------------------------

fn parsers_all() -> Vec<Parser> {
    let mut v = vec![];
    for s in 1..=8u8 {
        for f in [false, true] {
            v.push(Parser::Single { s, f });
            v.push(Parser::Batch { s, f });
        }
    }
    for f in [false, true] {
        for flat in [false, true] {
            v.push(Parser::Ld { f, flat });
        }
    }
    for sz in [1u16, 2, 3, 4, 5, 8, 16, 64] {
        v.push(Parser::Buffered { sz });
    }
    for f in [false, true] {
        for nm in 0..PIPE_NM.len() as u8 {
            v.push(Parser::Pipe { f, nm });
        }
    }
    v
}

fn variants(p: Parser) -> u8 {
    match p {
        Parser::Ld { .. } => 7,
        Parser::Buffered { .. } => 1,
        _ if p.fallible() => 4,
        _ => 1,
    }
}

/// the test stream number `v` of length `n` for parser `p`
fn content(p: Parser, n: usize, v: u8) -> Vec<u8> {
    match p {
        Parser::Ld { .. } => {
            let lens: &[usize] = match v % 7 {
                0 | 5 => &[0, 1, 2, 3, 4, 5, 6],
                1 | 6 => &[2, 0, 0, 3, 1, 0, 5, 1],
                2 => &[],
                3 => &[],
                _ => &[0, 0, 0, 0, 0, 0, 0, 0],
            };
            let mut out = vec![];
            match v % 7 {
                2 => {
                    // one record that exactly fills the stream (for n >= 2)
                    let l = n.saturating_sub(2);
                    out.extend((l as u16).to_le_bytes());
                    out.extend((0..l).map(|i| 0x40 + i as u8));
                }
                3 => {
                    // a length prefix that promises more than the body holds
                    out.extend(300u16.to_le_bytes());
                    out.extend((0..n).map(|i| 0x60 + i as u8));
                }
                _ => {
                    let mut k = 0u8;
                    let mut idx = 0usize;
                    while out.len() < n {
                        let l = lens[idx % lens.len()];
                        out.extend((l as u16).to_le_bytes());
                        let bad = (v % 7 >= 5) && idx >= 2 && l >= 1 && !out.contains(&BAD);
                        for j in 0..l {
                            k = k.wrapping_add(1);
                            out.push(if bad && j == 0 { BAD } else { 0x10 + k });
                        }
                        idx += 1;
                    }
                }
            }
            out.truncate(n);
            out
        }
        Parser::Buffered { .. } => (0..n).map(|i| i as u8 + 1).collect(),
        _ => {
            let s = p.rec_size().unwrap();
            let mut out: Vec<u8> = (0..n).map(|i| i as u8 + 1).collect();
            let complete = n / s;
            if complete > 0 {
                let k = match v {
                    1 => Some(complete / 2),
                    2 => Some(0),
                    3 => Some(complete - 1),
                    _ => None,
                };
                if let Some(k) = k {
                    out[k * s] = BAD;
                }
            }
            out
        }
    }
}

struct Entry {
    p: Parser,
    n: u8,
    v: u8,
    e: u8,
    offset: u64,
    count: u64,
}

struct Table {
    entries: Vec<Entry>,
    total: u64,
}

fn build_table(max_n: usize, with_fail_pos: bool, empties: &[u8]) -> Table {
    let mut entries = vec![];
    let mut total = 0u64;
    for p in parsers_all() {
        for n in 0..=max_n {
            for v in 0..variants(p) {
                for &e in empties {
                    let masks = 1u64 << n.saturating_sub(1);
                    let count = if with_fail_pos { masks * (n as u64 + 1) } else { masks };
                    entries.push(Entry { p, n: n as u8, v, e, offset: total, count });
                    total += count;
                }
            }
        }
    }
    Table { entries, total }
}

const QUICK_N: usize = 14;
const FULL_N: usize = 16;
const FAIL_N: usize = 10;

fn table(kind: usize) -> &'static Table {
    static T: [OnceLock<Table>; 3] = [OnceLock::new(), OnceLock::new(), OnceLock::new()];
    T[kind].get_or_init(|| match kind {
        0 => build_table(QUICK_N, false, &[0, 1, 2, 3]),
        1 => build_table(FULL_N, false, &[0, 1, 2, 3]),
        _ => build_table(FAIL_N, true, &[0, 2]),
    })
}

fn lookup(t: &Table, i: u64) -> (&Entry, u64) {
    let k = t.entries.partition_point(|e| e.offset + e.count <= i);
    let e = &t.entries[k];
    (e, i - e.offset)
}

fn index(src: &mut Src<'_>) -> u64 {
    let lo = u64::from(src.raw());
    let hi = u64::from(src.raw());
    lo | (hi << 32)
}

fn term_label(t: Term) -> String {
    format!("end:{t:?}")
}

/// all chunkings of every catalogue stream (no inner error)
fn all_chunkings(env: &Env, src: &mut Src<'_>, kind: usize) -> CaseResult {
    let i = index(src);
    let (e, mask) = lookup(table(kind), i);
    let bytes = content(e.p, e.n as usize, e.v);
    let items = split_by_mask(&bytes, mask, e.e);
    let want = reference(e.p, &bytes, None);
    let got = run_checked(e.p, &items)?;
    compare(env, e.p, &want, &got, &items)?;
    let nchunks = mask.count_ones() + u32::from(e.n > 0);
    let span = max_span(e.p, &want, &items);
    let mut ok = CaseOk::new(
        nchunks >= 2,
        &(e.p, e.n, e.v, e.e, mask),
        json!({"parser": e.p.name(), "bytes": bytes.iter().map(|b| format!("{b:02x}")).collect::<String>(), "chunks": items_json(&items), "records": want.recs.len(), "end": format!("{:?}", want.term)}),
    )
    .label(e.p.family())
    .label(term_label(want.term));
    if span >= 3 {
        ok = ok.label("record-spans>=3-chunks");
    }
    if e.e != 0 {
        ok = ok.label("empty-chunks");
    }
    Ok(ok)
}

fn all_chunkings_quick(env: &Env, src: &mut Src<'_>) -> CaseResult {
    all_chunkings(env, src, 0)
}
fn all_chunkings_full(env: &Env, src: &mut Src<'_>) -> CaseResult {
    all_chunkings(env, src, 1)
}

/// all chunkings x every position at which the inner stream can fail (a chunk boundary)
fn all_chunkings_fail(env: &Env, src: &mut Src<'_>) -> CaseResult {
    let i = index(src);
    let (e, k) = lookup(table(2), i);
    let n = e.n as usize;
    let masks = 1u64 << n.saturating_sub(1);
    let (mask, pos) = (k % masks, (k / masks) as usize);
    // the error can only sit between two chunks
    let boundary = pos == 0 || pos == n || (mask >> (pos - 1)) & 1 == 1;
    if !boundary {
        return Ok(CaseOk::new(false, &0u8, Value::Null).label("not-a-chunk-boundary"));
    }
    let bytes = content(e.p, n, e.v);
    let mut items = split_by_mask(&bytes[..pos], mask & ((1u64 << pos.saturating_sub(1)) - 1), e.e);
    items.push(Item::Fail);
    // what follows the error must not matter
    items.extend(split_by_mask(&bytes[pos..], mask >> pos, 0));
    let want = reference(e.p, &bytes, Some(pos));
    let got = run_checked(e.p, &items)?;
    compare(env, e.p, &want, &got, &items)?;
    Ok(CaseOk::new(
        true,
        &(e.p, e.n, e.v, e.e, mask, pos),
        json!({"parser": e.p.name(), "chunks": items_json(&items), "records": want.recs.len(), "end": format!("{:?}", want.term)}),
    )
    .label(e.p.family())
    .label(term_label(want.term)))
}

// ------------------------------------------------------------------------------------------
// probe for the records-dropped-before-error behaviour (minimal inputs, strict oracle)
// ------------------------------------------------------------------------------------------

fn probe_dropped(env: &Env, src: &mut Src<'_>) -> CaseResult {
    let i = index(src);
    // one valid record followed by one invalid record, delivered in a single chunk
    let (p, bytes): (Parser, Vec<u8>) = match i {
        0 => (Parser::Batch { s: 1, f: true }, vec![0x01, BAD]),
        1 => (Parser::Ld { f: true, flat: false }, vec![1, 0, 0x01, 1, 0, BAD]),
        2 => (Parser::Ld { f: true, flat: true }, vec![1, 0, 0x01, 1, 0, BAD]),
        _ => (Parser::Single { s: 1, f: true }, vec![0x01, BAD]),
    };
    let items = vec![Item::Data(bytes.clone())];
    let want = reference(p, &bytes, None);
    let got = run_checked(p, &items)?;
    compare(env, p, &want, &got, &items)?;
    // the same bytes one byte per chunk must give the same result in any case
    let items1 = split_by_mask(&bytes, u64::MAX, 0);
    let got1 = run_checked(p, &items1)?;
    compare(env, p, &want, &got1, &items1)?;
    Ok(CaseOk::new(true, &i, json!({"parser": p.name(), "chunks": items_json(&items)})).label(p.family()))
}

// ------------------------------------------------------------------------------------------
// random long streams
// ------------------------------------------------------------------------------------------

fn gen_parser(src: &mut Src<'_>) -> Parser {
    match src.below(10) {
        0 | 1 => Parser::Single { s: src.range(1, 8) as u8, f: src.bool() },
        2 | 3 | 4 => Parser::Batch { s: src.range(1, 8) as u8, f: src.bool() },
        5 | 6 | 7 => Parser::Ld { f: src.bool(), flat: src.bool() },
        8 => Parser::Buffered { sz: src.pick(&[1u16, 2, 3, 4, 5, 7, 8, 16, 31, 64]) },
        _ => Parser::Pipe { f: src.bool(), nm: src.below(PIPE_NM.len() as u64) as u8 },
    }
}

fn filler(src: &mut Src<'_>, n: usize) -> Vec<u8> {
    let mut rng_state = src.u64() | 1;
    (0..n)
        .map(|_| {
            // xorshift; never produces the BAD marker so that invalid records are placed deliberately
            rng_state ^= rng_state << 13;
            rng_state ^= rng_state >> 7;
            rng_state ^= rng_state << 17;
            let b = (rng_state >> 24) as u8;
            if b == BAD { 0x5a } else { b }
        })
        .collect()
}

/// (bytes, labels)
fn gen_content(src: &mut Src<'_>, p: Parser) -> (Vec<u8>, Vec<&'static str>) {
    let mut labels = vec![];
    // arbitrary bytes: no structure at all
    if src.chance(1, 6) {
        let n = match src.below(4) {
            0 => src.urange(0, 16),
            1 => src.urange(0, 80),
            _ => src.urange(0, 700),
        };
        labels.push("content:arbitrary");
        let mut b = src.bytes(n);
        if src.bool() {
            // keep length prefixes small so that several records appear
            for x in b.iter_mut().skip(1).step_by(2) {
                if src.chance(3, 4) {
                    *x = 0;
                }
            }
        }
        return (b, labels);
    }
    let mut out;
    match p {
        Parser::Ld { .. } => {
            let nrec = match src.below(4) {
                0 => src.urange(0, 3),
                1 => src.urange(0, 12),
                _ => src.urange(0, 40),
            };
            out = vec![];
            let bad_at = if p.fallible() && src.chance(1, 3) { Some(src.idx(nrec.max(1))) } else { None };
            for k in 0..nrec {
                let mut l = match src.below(8) {
                    0 => 0,
                    1 => src.urange(0, 2),
                    2 | 3 => src.urange(0, 16),
                    4 => src.urange(60, 120),
                    5 => src.pick(&[254usize, 255, 256, 257, 258]),
                    6 => src.pick(&[298usize, 299, 300]),
                    _ => src.urange(0, 300),
                };
                if bad_at == Some(k) && l == 0 {
                    l = 1;
                }
                out.extend((l as u16).to_le_bytes());
                let mut body = filler(src, l);
                if bad_at == Some(k) {
                    body[0] = BAD;
                    labels.push("invalid-record");
                }
                out.extend(body);
            }
            labels.push("content:records");
        }
        Parser::Buffered { .. } => {
            let n = match src.below(3) {
                0 => src.urange(0, 20),
                1 => src.urange(0, 200),
                _ => src.urange(0, 1500),
            };
            out = filler(src, n);
            labels.push("content:records");
        }
        _ => {
            let s = p.rec_size().unwrap();
            let nrec = match src.below(4) {
                0 => src.urange(0, 3),
                1 => src.urange(0, 20),
                _ => src.urange(0, 200),
            };
            out = filler(src, nrec * s);
            if p.fallible() && nrec > 0 && src.chance(1, 3) {
                let k = src.idx(nrec);
                out[k * s] = BAD;
                labels.push("invalid-record");
            }
            labels.push("content:records");
        }
    }
    // truncated tail
    if !out.is_empty() && src.chance(1, 4) {
        let cut = match src.below(3) {
            0 => out.len() - 1,
            1 => out.len() - 1 - src.idx(out.len().min(8)),
            _ => src.idx(out.len()),
        };
        out.truncate(cut);
        labels.push("truncated");
    } else if src.chance(1, 8) {
        // extra trailing bytes
        let extra = src.urange(1, 3);
        out.extend(filler(src, extra));
        labels.push("extra-tail");
    }
    (out, labels)
}

/// random chunking of `bytes`; returns the items and a label for the chunking class
fn gen_chunking(src: &mut Src<'_>, p: Parser, bytes: &[u8]) -> (Vec<Item>, &'static str) {
    let unit = p.rec_size().unwrap_or(match p {
        Parser::Buffered { sz } => sz as usize,
        _ => 8,
    });
    let class = src.below(9);
    let name = ["one-chunk", "single-bytes", "tiny(1-3)", "small(1-16)", "medium(1-100)", "large(1-1000)", "aligned", "aligned+-1", "mixed"][class as usize];
    let mut chunks = vec![];
    let mut pos = 0usize;
    while pos < bytes.len() {
        let rem = bytes.len() - pos;
        let l = match class {
            0 => rem,
            1 => 1,
            2 => src.urange(1, 3),
            3 => src.urange(1, 16),
            4 => src.urange(1, 100),
            5 => src.urange(1, 1000),
            6 => unit * src.urange(1, 4),
            7 => (unit * src.urange(1, 4) + src.urange(0, 2)).saturating_sub(1).max(1),
            _ => match src.below(4) {
                0 => 1,
                1 => src.urange(1, 4),
                2 => src.urange(1, 64),
                _ => src.urange(1, 400),
            },
        }
        .min(rem);
        chunks.push(bytes[pos..pos + l].to_vec());
        pos += l;
    }
    (chunks.into_iter().map(Item::Data).collect(), name)
}

fn random_streams(env: &Env, src: &mut Src<'_>) -> CaseResult {
    let p = gen_parser(src);
    let (bytes, mut labels) = gen_content(src, p);
    let (data_items, cname) = gen_chunking(src, p, &bytes);
    let empty_rate = src.pick(&[0u64, 0, 1, 4]); // out of 8
    let pend_rate = src.pick(&[0u64, 0, 2]); // out of 8
    let nchunks = data_items.len();
    // inner error after a generated number of chunks
    let fail_after = if src.chance(1, 4) { Some(src.idx(nchunks + 1)) } else { None };
    let mut items = vec![];
    let mut delivered = 0usize;
    let mut fail_pos = None;
    let (mut has_empty, mut has_pending) = (false, false);
    for (k, it) in data_items.into_iter().enumerate() {
        if fail_after == Some(k) {
            items.push(Item::Fail);
            fail_pos = Some(delivered);
        }
        if empty_rate > 0 {
            let x = src.below(16);
            if x < 2 * empty_rate {
                // one or two empty chunks in a row
                for _ in 0..=(x & 1) {
                    items.push(Item::Data(vec![]));
                }
                has_empty = true;
            }
        }
        if pend_rate > 0 && src.below(8) < pend_rate {
            items.push(Item::Pending);
            has_pending = true;
        }
        if let Item::Data(d) = &it {
            if fail_pos.is_none() {
                delivered += d.len();
            }
        }
        items.push(it);
    }
    if fail_after == Some(nchunks) {
        items.push(Item::Fail);
        fail_pos = Some(delivered);
    }
    if empty_rate > 0 && src.bool() {
        items.push(Item::Data(vec![]));
        has_empty = true;
    }
    if pend_rate > 0 && src.bool() {
        items.push(Item::Pending);
        has_pending = true;
    }
    let want = reference(p, &bytes, fail_pos);
    let got = run_checked(p, &items)?;
    compare(env, p, &want, &got, &items)?;
    // differential: the same bytes in one chunk (same error position) give the same result
    if fail_pos.is_none() {
        let one = vec![Item::Data(bytes.clone())];
        let got1 = run_checked(p, &one)?;
        compare(env, p, &want, &got1, &one)?;
    }
    // process_slice_by_chunks over the parsed records of the pipeline cases
    if let Parser::Pipe { f, nm } = p {
        let res = if f {
            let recs: Vec<F1> = want.recs.iter().map(|r| F1([r[0]])).collect();
            match nm {
                0 => slice_chunks_ok::<F1, 1>(&recs),
                1 => slice_chunks_ok::<F1, 2>(&recs),
                2 => slice_chunks_ok::<F1, 3>(&recs),
                3 => slice_chunks_ok::<F1, 4>(&recs),
                _ => slice_chunks_ok::<F1, 8>(&recs),
            }
        } else {
            let recs: Vec<R2> = want.recs.iter().map(|r| R2([r[0], r[1]])).collect();
            match nm {
                0 => slice_chunks_ok::<R2, 1>(&recs),
                1 => slice_chunks_ok::<R2, 2>(&recs),
                2 => slice_chunks_ok::<R2, 3>(&recs),
                3 => slice_chunks_ok::<R2, 4>(&recs),
                _ => slice_chunks_ok::<R2, 8>(&recs),
            }
        };
        if let Err(w) = res {
            return Err(violation(
                format!("slice-chunks:{w}"),
                format!("process_slice_by_chunks over {} records: {w}", want.recs.len()),
                json!({"parser": p.name(), "records": want.recs.len()}),
            ));
        }
    }
    let span = max_span(p, &want, &items);
    labels.push(p.family());
    let mut ok = CaseOk::new(
        nchunks >= 2 && (!want.recs.is_empty() || want.term != Term::End),
        &(p, &bytes, fail_pos, items.iter().map(|i| match i { Item::Data(d) => d.len() as i64, Item::Pending => -1, Item::Fail => -2 }).collect::<Vec<_>>()),
        json!({"parser": p.name(), "bytes": bytes.len(), "chunks": nchunks, "chunking": cname, "records": want.recs.len(), "end": format!("{:?}", want.term), "fail_at_byte": fail_pos}),
    )
    .labels(labels.into_iter().map(String::from))
    .label(format!("chunking:{cname}"))
    .label(term_label(want.term));
    if span >= 3 {
        ok = ok.label("record-spans>=3-chunks");
    }
    if has_empty {
        ok = ok.label("empty-chunks");
    }
    if has_pending {
        ok = ok.label("pending-inner");
    }
    if fail_pos.is_some() {
        ok = ok.label("inner-error");
    }
    Ok(ok)
}

// ------------------------------------------------------------------------------------------
// whole bodies: the crate's own chunker between the bytes and the parser
// ------------------------------------------------------------------------------------------

/// A request body is usually not handed to the parsers as a scripted chunk sequence but as one
/// buffer (`BodyStream::from(Vec<u8>)` / `BodyStream::new(Bytes)`), which the body type cuts into
/// network chunks itself. The parse must be the reference parse of the bytes for every body
/// length; the generator aims at lengths around multiples of the powers of two such a chunker
/// could use (the oracle knows nothing about chunk sizes).
fn whole_body(env: &Env, src: &mut Src<'_>) -> CaseResult {
    const PARSERS: [Parser; 9] = [
        Parser::Single { s: 4, f: false },
        Parser::Single { s: 8, f: false },
        Parser::Batch { s: 4, f: false },
        Parser::Batch { s: 8, f: false },
        Parser::Batch { s: 3, f: false },
        Parser::Batch { s: 7, f: false },
        Parser::Ld { f: false, flat: false },
        Parser::Ld { f: false, flat: true },
        Parser::Buffered { sz: 4096 },
    ];
    let p = PARSERS[src.idx(PARSERS.len())];
    let unit: usize = [1 << 20, 1 << 20, 1 << 20, 1 << 16, 1 << 12, 1 << 21][src.idx(6)];
    let k = 1 + src.idx(3);
    let delta: i64 = match src.below(4) {
        0 | 1 => 0,
        2 => src.below(17) as i64 - 8,
        _ => src.below(4097) as i64 - 2048,
    };
    let total = ((unit * k) as i64 + delta).max(0) as usize;
    let total = total.min(3 << 20);
    // content: records that carry their index, so that a lost, repeated or moved record shows
    let mut bytes: Vec<u8> = Vec::with_capacity(total);
    let wire = match p {
        Parser::Ld { .. } => [256usize, 300, 1024, 65537, 2][src.idx(5)],
        _ => 0,
    };
    match p {
        Parser::Ld { .. } => {
            let mut i = 0u64;
            while bytes.len() < total {
                let rem = total - bytes.len();
                if rem < 2 {
                    // a lone byte: trailing partial data (the reference expects an error)
                    bytes.push(0);
                    break;
                }
                // never leave a remainder of exactly one byte unless the record cannot grow
                let mut w = wire.min(rem);
                if rem - w == 1 && w + 1 <= 65537 {
                    w += 1;
                }
                let len = w - 2;
                bytes.extend_from_slice(&(len as u16).to_le_bytes());
                let start = bytes.len();
                bytes.resize(start + len, (i % 251) as u8);
                for (d, b) in bytes[start..].iter_mut().zip(i.to_le_bytes()) {
                    *d = b;
                }
                i += 1;
            }
        }
        _ => {
            let s = p.rec_size().unwrap_or(8);
            let mut i = 0u64;
            while bytes.len() < total {
                let rec = i.to_le_bytes();
                let take = s.min(total - bytes.len());
                bytes.extend_from_slice(&rec[..take.min(8)]);
                i += 1;
            }
        }
    }
    let want = reference(p, &bytes, None);
    let sent = bytes.clone();
    let got = match catch(move || run_parser_on(p, ChunkSrc { items: Vec::new().into_iter(), body: Some(BodyStream::from(sent)) }, 0)) {
        Ok(r) => r,
        Err((loc, msg)) => {
            return Err(violation(
                format!("panic:whole-body:{}:{}", p.family(), loc_file(&loc)),
                format!("{} over a {}-byte body handed over as one buffer panicked at {loc}: {msg}", p.name(), bytes.len()),
                json!({"parser": p.name(), "body_len": bytes.len()}),
            ));
        }
    };
    if want != got {
        let first = want.recs.iter().zip(&got.recs).position(|(a, b)| a != b);
        return Err(violation(
            format!("whole-body-parse-mismatch:{}", p.family()),
            format!(
                "{}: a {}-byte body handed over as one buffer encodes {} record(s) then {:?}; parsed {} record(s) then {:?} (first differing record: {:?})",
                p.name(), bytes.len(), want.recs.len(), want.term, got.recs.len(), got.term, first
            ),
            json!({"parser": p.name(), "body_len": bytes.len(), "ld_wire_record": wire,
                   "expected_records": want.recs.len(), "expected_end": format!("{:?}", want.term),
                   "got_records": got.recs.len(), "got_end": format!("{:?}", got.term),
                   "expected_tail": short(&want.recs[want.recs.len().saturating_sub(2)..]), "got_tail": short(&got.recs[got.recs.len().saturating_sub(2)..])}),
        ));
    }
    let _ = env;
    let cls = if delta == 0 { "exact-multiple" } else if delta.abs() <= 8 { "near-multiple" } else { "off-multiple" };
    Ok(CaseOk::new(!want.recs.is_empty(), &(p, bytes.len(), wire), json!({"parser": p.name(), "body_len": bytes.len(), "records": want.recs.len(), "end": format!("{:?}", want.term)}))
        .label(format!("parser:{}", p.family()))
        .label(format!("unit:2^{}", unit.trailing_zeros()))
        .label(format!("length:{cls}"))
        .label(format!("end:{:?}", want.term)))
}

// ------------------------------------------------------------------------------------------
// FixedLength: the length-carrying wrapper put around record streams
// ------------------------------------------------------------------------------------------

/// `FixedLength::new(inner, k)` around a stream of exactly k items (what its callers pass): the
/// items come out unchanged, in order, none lost or repeated, a Pending of the inner stream is
/// passed on, and after j items `len()` - "the length of the stream that remains" - is k - j.
fn fixed_length(_env: &Env, src: &mut Src<'_>) -> CaseResult {
    let k = src.idx(40);
    let pend: Vec<u8> = (0..=k).map(|_| if src.below(3) == 0 { src.below(3) as u8 } else { 0 }).collect();
    struct Scripted {
        next: usize,
        k: usize,
        pend: Vec<u8>,
    }
    impl Stream for Scripted {
        type Item = u64;
        fn poll_next(mut self: Pin<&mut Self>, cx: &mut Context<'_>) -> Poll<Option<u64>> {
            let i = self.next;
            if self.pend[i] > 0 {
                self.pend[i] -= 1;
                cx.waker().wake_by_ref();
                return Poll::Pending;
            }
            if i == self.k {
                return Poll::Ready(None);
            }
            self.next += 1;
            Poll::Ready(Some(0x1000 + i as u64 * 7))
        }
    }
    let pendings: usize = pend.iter().map(|p| *p as usize).sum();
    let case = json!({"items": k, "pending_before_item": pend});
    let inner = Scripted { next: 0, k, pend };
    let r = catch(move || {
        let mut st = Box::pin(FixedLength::new(inner, k));
        let waker = futures::task::noop_waker();
        let mut cx = Context::from_waker(&waker);
        let mut got: Vec<u64> = vec![];
        let mut lens: Vec<usize> = vec![st.len()];
        let mut pend_seen = 0usize;
        let mut polls = 0usize;
        loop {
            polls += 1;
            if polls > 4 * (k + pendings + 4) {
                return Err("the wrapper keeps returning Pending although the inner stream is ready".to_string());
            }
            match st.as_mut().poll_next(&mut cx) {
                Poll::Ready(Some(v)) => {
                    got.push(v);
                    lens.push(st.len());
                }
                Poll::Ready(None) => break,
                Poll::Pending => pend_seen += 1,
            }
        }
        Ok((got, lens, pend_seen))
    });
    let (got, lens, pend_seen) = match r {
        Err((loc, msg)) => return Err(violation(format!("panic:FixedLength:{}", loc_file(&loc)), format!("FixedLength around {k} items with the matching length panicked at {loc}: {msg}"), case)),
        Ok(Err(e)) => return Err(violation("fixed-length-stuck", e, case)),
        Ok(Ok(x)) => x,
    };
    let want: Vec<u64> = (0..k).map(|i| 0x1000 + i as u64 * 7).collect();
    if got != want {
        return Err(violation("fixed-length-items-differ", format!("FixedLength yielded {} items, the inner stream {}; first difference at {:?}", got.len(), k, got.iter().zip(&want).position(|(a, b)| a != b)), case));
    }
    let want_lens: Vec<usize> = (0..=k).map(|j| k - j).collect();
    if lens != want_lens {
        return Err(violation("fixed-length-remaining-wrong", format!("len() after 0..={k} items was {lens:?}, the remaining length is {want_lens:?}"), case));
    }
    Ok(CaseOk::new(k > 0, &(k, pendings), json!({"items": k, "pendings": pendings})).label(format!("pending:{}", if pend_seen > 0 { "some" } else { "none" })).label(format!("items:{}", match k { 0 => "0", 1 => "1", _ => "2+" })))
}

pub fn subs(env: &Env) -> Vec<Sub> {
    let v = vec![
        Sub::exhaustive("probe_dropped_records", 4, 4, probe_dropped,
            "minimal inputs (one valid record followed by one invalid record, in one chunk and byte by byte) for the batching parsers and the single-record parser: the valid record must be delivered before the error"),
        Sub::exhaustive("all_chunkings", table(0).total, table(1).total, if env.thorough() { all_chunkings_full } else { all_chunkings_quick },
            "every parser configuration (Single/Batch x record sizes 1..8 x infallible/fallible element, LengthDelimited x Bytes/fallible x raw/flattened, Buffered sizes {1,2,3,4,5,8,16,64}, chunk pipeline N/M in {1/1,2/1,3/3,4/2,8/4,8/1}) x every catalogue stream of n<=14 bytes (thorough: n<=16) (valid, invalid record first/middle/last, truncated tails, zero-length and over-long length prefixes) x all 2^(n-1) chunkings x 4 empty-chunk patterns, against the reference parse; non-trivial = at least two non-empty chunks"),
        Sub::exhaustive("all_chunkings_inner_error", table(2).total, table(2).total, all_chunkings_fail,
            "every catalogue stream of n<=10 bytes x all chunkings x every chunk boundary at which the inner stream reports an error (with and without empty chunks): records completed by the delivered bytes, then the inner error"),
        Sub::random("random_streams", 3400, 300_000, 12_000_000, random_streams,
            "longer streams (records 0..200 / length-prefixed records with lengths {0,1,2,..,300}, invalid records, truncated and over-long tails, arbitrary bytes) x random chunkings (one chunk, single bytes, tiny, small, medium, large, record-aligned, aligned+-1, mixed) with empty chunks and Pending interleaved and an inner-stream error at a generated chunk; reference parse + differential against the single-chunk delivery; non-trivial = at least two chunks and at least one record or error"),
        Sub::random("whole_body", 8, 384, 12_000, whole_body,
            "bodies handed to the parsers as ONE buffer through the crate's own body type (BodyStream::from(Vec<u8>), which cuts the buffer into network chunks itself): lengths k*2^j + d for 2^j in {4 KiB, 64 KiB, 1 MiB, 2 MiB}, k in 1..3, d in {0, -8..8, -2048..2048} (at most 3 MiB), index-carrying records, parsers Single/Batch (record sizes 3,4,7,8), LengthDelimited raw and flattened (wire record sizes 2, 256, 300, 1024, 65537) and Buffered<4096>: the parse equals the reference parse of the bytes (all records, in order, trailing partial data = error); non-trivial = at least one record")
            .shrink_iters(24),
        Sub::random("fixed_length", 8, 4_000, 200_000, fixed_length,
            "FixedLength (the length-carrying wrapper around record streams) around a scripted stream of k = 0..39 items with the matching length and Pending returns at generated positions: the items come out unchanged and in order, none lost or repeated, and after j items len() is k - j; no panic; non-trivial = k > 0"),
    ];
    v
}
