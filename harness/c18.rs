// C18 - the query lifecycle is a consistent state machine under any sequence of API calls.
//
// Model-based stateful testing. A case builds a complete in-memory deployment (three helpers x
// S shards, every node a real `HelperApp` = `query::Processor` + the request glue of app.rs, wired
// with `InMemoryMpcNetwork` / `InMemoryShardNetwork` exactly as `TestApp` does), applies a
// generated history of API requests to it and, in lock-step, to a reference model written here.
//
// Execution is deterministic: everything runs on one current-thread tokio runtime and after
// every request the harness waits for *quiescence* (the runtime is about to park: no task is
// runnable) - detected through `on_thread_park`, not through a clock. A request that has not
// answered at quiescence is blocked for good until some later request unblocks it (`complete`
// on a running query); it is kept as a pending call and resolved later.
//
// The model is a set of possible concrete worlds (powerset construction): the only thing the
// model cannot know is whether a query task has finished when the protocol traffic is not
// "clean" (after kills / resets), so such a task may or may not have finished; every observation
// (response class, reported status, which pending calls answered) filters the set. An empty set
// is a violation. In a clean world (no reset so far, all three helpers of a shard started with
// the same configuration) task completion at quiescence is certain and demanded.

use std::{
    cell::{Cell, RefCell},
    collections::{BTreeSet, HashSet},
    future::Future,
    pin::Pin,
    sync::{
        Arc, Mutex, Once,
        atomic::{AtomicBool, Ordering},
    },
    task::{Context, Poll, Waker},
};

use async_trait::async_trait;
use serde_json::{Value, json};

use super::common::*;
use crate::{
    AppConfig, AppSetup, HelperApp,
    cli::{LoggingHandle, install_collector},
    ff::FieldType,
    helpers::{
        ApiError, BodyStream, HandlerBox, HandlerRef, HelperIdentity, HelperResponse,
        InMemoryMpcNetwork, InMemoryShardNetwork, RequestHandler, RoleAssignment,
        in_memory_config::passthrough,
        query::{CompareStatusRequest, HybridQueryParams, PrepareQuery, QueryConfig, QueryType},
        routing::{Addr, RouteId},
    },
    protocol::QueryId,
    query::{
        NewQueryError, PrepareQueryError, QueryCompletionError, QueryInputError, QueryKillStatus,
        QueryStatus, QueryStatusError, min_status,
    },
    sharding::ShardIndex,
};

pub const LEVEL: &str = "exploration";

// ------------------------------------------------------------------------------------------
// panic recording (per thread; the whole case runs on the case thread)
// ------------------------------------------------------------------------------------------

thread_local! {
    static PANICS: RefCell<Vec<(String, String)>> = const { RefCell::new(Vec::new()) };
}

fn install_hook() {
    static ONCE: Once = Once::new();
    ONCE.call_once(|| {
        let prev = std::panic::take_hook();
        std::panic::set_hook(Box::new(move |info| {
            let loc = info.location().map_or_else(|| "?".to_string(), |l| format!("{}:{}", l.file(), l.line()));
            let msg = if let Some(s) = info.payload().downcast_ref::<&str>() {
                (*s).to_string()
            } else if let Some(s) = info.payload().downcast_ref::<String>() {
                s.clone()
            } else {
                "<non-string panic payload>".to_string()
            };
            PANICS.with(|p| {
                if let Ok(mut p) = p.try_borrow_mut() {
                    if p.len() < 64 {
                        p.push((strip_repo_prefix(&loc), msg));
                    }
                }
            });
            prev(info);
        }));
    });
}

fn take_panics() -> Vec<(String, String)> {
    PANICS.with(|p| std::mem::take(&mut *p.borrow_mut()))
}

// ------------------------------------------------------------------------------------------
// quiescence detection
// ------------------------------------------------------------------------------------------

#[derive(Default)]
struct QShared {
    parked: AtomicBool,
    waker: Mutex<Option<Waker>>,
}

struct Quiesce<'a> {
    q: &'a QShared,
    armed: bool,
}

impl Future for Quiesce<'_> {
    type Output = ();
    fn poll(mut self: Pin<&mut Self>, cx: &mut Context<'_>) -> Poll<()> {
        if !self.armed {
            self.armed = true;
            self.q.parked.store(false, Ordering::SeqCst);
        }
        if self.q.parked.swap(false, Ordering::SeqCst) {
            return Poll::Ready(());
        }
        *self.q.waker.lock().unwrap() = Some(cx.waker().clone());
        Poll::Pending
    }
}

fn quiesce(q: &QShared) -> Quiesce<'_> {
    Quiesce { q, armed: false }
}

fn run_quiescent<F: Future>(mk: impl FnOnce(Arc<QShared>) -> F) -> F::Output {
    let q = Arc::new(QShared::default());
    let q2 = Arc::clone(&q);
    let rt = tokio::runtime::Builder::new_current_thread()
        .enable_time()
        .on_thread_park(move || {
            // the scheduler has nothing runnable: tell the driver future
            if let Some(w) = q2.waker.lock().unwrap().take() {
                q2.parked.store(true, Ordering::SeqCst);
                w.wake();
            }
        })
        .build()
        .unwrap();
    let out = rt.block_on(mk(q));
    // dropping the runtime drops (never polls) whatever is still alive
    let _ = catch(move || drop(rt));
    out
}

// ------------------------------------------------------------------------------------------
// statuses, configurations, operations
// ------------------------------------------------------------------------------------------

#[derive(Clone, Copy, PartialEq, Eq, Hash, Debug, PartialOrd, Ord)]
pub enum St {
    None,
    Preparing,
    AwaitingInputs,
    Running,
    AwaitingCompletion,
    Completed,
}

impl St {
    fn of(s: QueryStatus) -> St {
        match s {
            QueryStatus::Preparing => St::Preparing,
            QueryStatus::AwaitingInputs => St::AwaitingInputs,
            QueryStatus::Running => St::Running,
            QueryStatus::AwaitingCompletion => St::AwaitingCompletion,
            QueryStatus::Completed => St::Completed,
        }
    }
    fn to_status(self) -> Option<QueryStatus> {
        Some(match self {
            St::None => return None,
            St::Preparing => QueryStatus::Preparing,
            St::AwaitingInputs => QueryStatus::AwaitingInputs,
            St::Running => QueryStatus::Running,
            St::AwaitingCompletion => QueryStatus::AwaitingCompletion,
            St::Completed => QueryStatus::Completed,
        })
    }
    fn name(self) -> &'static str {
        match self {
            St::None => "none",
            St::Preparing => "preparing",
            St::AwaitingInputs => "awaiting_inputs",
            St::Running => "running",
            St::AwaitingCompletion => "awaiting_completion",
            St::Completed => "completed",
        }
    }
}

const ALL_STATUS: [QueryStatus; 5] = [
    QueryStatus::Preparing,
    QueryStatus::AwaitingInputs,
    QueryStatus::Running,
    QueryStatus::AwaitingCompletion,
    QueryStatus::Completed,
];

/// Query kinds used by the histories. `Add`/`Mul` tasks return a result, `HybErr` tasks return an
/// error (hybrid query asking for the unsupported plaintext match keys - rejected by the runner
/// after PRSS set-up, before any input is read).
#[derive(Clone, Copy, PartialEq, Eq, Hash, Debug)]
pub enum Cfg {
    Add,
    Mul,
    HybErr,
}

impl Cfg {
    fn config(self) -> QueryConfig {
        match self {
            Cfg::Add => QueryConfig::new(QueryType::TestAddInPrimeField, FieldType::Fp31, 1).unwrap(),
            Cfg::Mul => QueryConfig::new(QueryType::TestMultiply, FieldType::Fp31, 1).unwrap(),
            Cfg::HybErr => QueryConfig::new(
                QueryType::MaliciousHybrid(HybridQueryParams { plaintext_match_keys: true, ..HybridQueryParams::default() }),
                FieldType::Fp31,
                1,
            )
            .unwrap(),
        }
    }
    fn input(self, k: usize) -> Vec<u8> {
        match self {
            // k replicated Fp31 shares (2 bytes each, canonical values)
            Cfg::Add => (0..2 * k).map(|i| (i as u8 * 7 + 3) % 31).collect(),
            // exactly one pair
            Cfg::Mul => vec![4, 9, 5, 11],
            Cfg::HybErr => vec![],
        }
    }
    fn name(self) -> &'static str {
        match self {
            Cfg::Add => "add",
            Cfg::Mul => "mul",
            Cfg::HybErr => "hyb_err",
        }
    }
}

#[derive(Clone, PartialEq, Eq, Hash, Debug)]
pub enum Op {
    NewQuery { h: usize, s: usize, cfg: Cfg, rejects: Vec<(usize, usize)>, hold: bool },
    PrepareHelper { h: usize, s: usize, c: usize, cfg: Cfg, rejects: Vec<(usize, usize)> },
    PrepareShard { h: usize, s: usize, c: usize, cfg: Cfg },
    Inputs { h: usize, s: usize, k: usize },
    Status { h: usize, s: usize },
    ShardStatus { h: usize, s: usize, claimed: St },
    Complete { h: usize, s: usize },
    Kill { h: usize, s: usize },
    /// let the peers of a held `new_query` answer
    Release,
}

impl Op {
    fn kind(&self) -> &'static str {
        match self {
            Op::NewQuery { .. } => "new_query",
            Op::PrepareHelper { .. } => "prepare_helper",
            Op::PrepareShard { .. } => "prepare_shard",
            Op::Inputs { .. } => "receive_inputs",
            Op::Status { .. } => "query_status",
            Op::ShardStatus { .. } => "shard_status",
            Op::Complete { .. } => "complete",
            Op::Kill { .. } => "kill",
            Op::Release => "release",
        }
    }
    fn node(&self) -> Option<(usize, usize)> {
        match self {
            Op::NewQuery { h, s, .. }
            | Op::PrepareHelper { h, s, .. }
            | Op::PrepareShard { h, s, .. }
            | Op::Inputs { h, s, .. }
            | Op::Status { h, s }
            | Op::ShardStatus { h, s, .. }
            | Op::Complete { h, s }
            | Op::Kill { h, s } => Some((*h, *s)),
            Op::Release => None,
        }
    }
    fn json(&self) -> Value {
        match self {
            Op::NewQuery { h, s, cfg, rejects, hold } => json!({"op": "new_query", "helper": h, "shard": s, "cfg": cfg.name(), "peer_rejects": rejects, "hold_peers": hold}),
            Op::PrepareHelper { h, s, c, cfg, rejects } => json!({"op": "prepare_helper", "helper": h, "shard": s, "coordinator": c, "cfg": cfg.name(), "shard_rejects": rejects}),
            Op::PrepareShard { h, s, c, cfg } => json!({"op": "prepare_shard", "helper": h, "shard": s, "coordinator": c, "cfg": cfg.name()}),
            Op::Inputs { h, s, k } => json!({"op": "receive_inputs", "helper": h, "shard": s, "records": k}),
            Op::Status { h, s } => json!({"op": "query_status", "helper": h, "shard": s}),
            Op::ShardStatus { h, s, claimed } => json!({"op": "shard_status", "helper": h, "shard": s, "claimed": claimed.name()}),
            Op::Complete { h, s } => json!({"op": "complete", "helper": h, "shard": s}),
            Op::Kill { h, s } => json!({"op": "kill", "helper": h, "shard": s}),
            Op::Release => json!({"op": "release_held_peers"}),
        }
    }
}

fn roles_for(c: usize) -> RoleAssignment {
    let id = HelperIdentity::make_three()[c];
    let [right, left] = id.others();
    RoleAssignment::new([id, right, left])
}

// ------------------------------------------------------------------------------------------
// observations and expectations
// ------------------------------------------------------------------------------------------

/// number of answers whose error class differed from the model's (not a violation, see `matches`)
pub static CLASS_DIFFERS: std::sync::atomic::AtomicU64 = std::sync::atomic::AtomicU64::new(0);

/// error classes (coarse view of `ApiError`)
#[derive(Clone, Copy, PartialEq, Eq, Hash, Debug, PartialOrd, Ord)]
pub enum EC {
    Any,
    NoSuchQuery,
    AlreadyRunning,
    InvalidState,
    WrongTarget,
    NotLeader,
    Leader,
    DifferentStatus,
    PeerRejected,
    ShardRejected,
    Execution,
    Other,
}

#[derive(Clone, PartialEq, Eq, Hash, Debug)]
pub enum Obs {
    Ok(Option<St>),
    Err(EC, Option<St>),
    Pending,
    Panic(String, String),
}

impl Obs {
    fn short(&self) -> String {
        match self {
            Obs::Ok(None) => "Ok".into(),
            Obs::Ok(Some(s)) => format!("Ok({})", s.name()),
            Obs::Err(c, None) => format!("Err({c:?})"),
            Obs::Err(c, Some(s)) => format!("Err({c:?},{})", s.name()),
            Obs::Pending => "Pending".into(),
            Obs::Panic(l, _) => format!("Panic({})", loc_file(l)),
        }
    }
}

#[derive(Clone, PartialEq, Eq, Hash, Debug)]
pub enum Exp {
    Ok(Option<St>),
    /// acceptable classes, status the error must report (if it reports one)
    Err(Vec<EC>, Option<St>),
    Pending,
}

impl Exp {
    fn short(&self) -> String {
        match self {
            Exp::Ok(None) => "Ok".into(),
            Exp::Ok(Some(s)) => format!("Ok({})", s.name()),
            Exp::Err(c, None) => format!("Err({c:?})"),
            Exp::Err(c, Some(s)) => format!("Err({c:?},{})", s.name()),
            Exp::Pending => "Pending".into(),
        }
    }
    fn matches(&self, o: &Obs) -> bool {
        match (self, o) {
            (Exp::Ok(None), Obs::Ok(_)) => true,
            (Exp::Ok(Some(a)), Obs::Ok(Some(b))) => a == b,
            (Exp::Err(cs, st), Obs::Err(c, rep)) => {
                // The property asks for *an error* that leaves the state unchanged; which variant
                // of which error enum carries it is the code's choice (a renamed or re-classified
                // error must not alarm). The class is therefore not compared - a difference is
                // only counted (label `error-class-differs-from-model`). A state named inside the
                // error ("cannot transition from state X") is compared: the helper must not
                // report a state it is not in.
                if !(cs.contains(&EC::Any) || cs.contains(c)) {
                    CLASS_DIFFERS.fetch_add(1, std::sync::atomic::Ordering::Relaxed);
                }
                st.is_none() || rep.is_none() || st == rep
            }
            (Exp::Pending, Obs::Pending) => true,
            _ => false,
        }
    }
}

// `StateError` is not re-exported from `query`; classify through its Display text
fn parse_state_error(t: &str) -> (EC, Option<St>) {
    if t.contains("already running") {
        return (EC::AlreadyRunning, None);
    }
    // "Cannot transition from state X to state Y"
    let from = t.split("from state ").nth(1).and_then(|r| r.split(' ').next()).and_then(|n| match n {
        "Preparing" => Some(St::Preparing),
        "AwaitingInputs" => Some(St::AwaitingInputs),
        "Running" => Some(St::Running),
        "AwaitingCompletion" => Some(St::AwaitingCompletion),
        "Completed" => Some(St::Completed),
        _ => None,
    });
    (EC::InvalidState, from)
}

fn classify_err(e: &ApiError) -> (EC, Option<St>) {
    match e {
        ApiError::NewQuery(NewQueryError::State(s)) => parse_state_error(&s.to_string()),
        ApiError::NewQuery(NewQueryError::MpcTransport(_)) => (EC::PeerRejected, None),
        ApiError::NewQuery(NewQueryError::ShardBroadcastError(_)) => (EC::ShardRejected, None),
        ApiError::QueryInput(QueryInputError::NoSuchQuery(_)) => (EC::NoSuchQuery, None),
        ApiError::QueryInput(QueryInputError::StateError { source }) => parse_state_error(&source.to_string()),
        ApiError::QueryPrepare(PrepareQueryError::WrongTarget) => (EC::WrongTarget, None),
        ApiError::QueryPrepare(PrepareQueryError::NotLeader(_)) => (EC::NotLeader, None),
        ApiError::QueryPrepare(PrepareQueryError::Leader) => (EC::Leader, None),
        ApiError::QueryPrepare(PrepareQueryError::AlreadyRunning) => (EC::AlreadyRunning, None),
        ApiError::QueryPrepare(PrepareQueryError::StateError { source }) => parse_state_error(&source.to_string()),
        ApiError::QueryPrepare(PrepareQueryError::ShardBroadcastError(_)) => (EC::ShardRejected, None),
        ApiError::QueryCompletion(QueryCompletionError::NoSuchQuery(_)) => (EC::NoSuchQuery, None),
        ApiError::QueryCompletion(QueryCompletionError::StateError { source }) => parse_state_error(&source.to_string()),
        ApiError::QueryCompletion(QueryCompletionError::ExecutionError(_)) => (EC::Execution, None),
        ApiError::QueryCompletion(QueryCompletionError::ShardError(_)) => (EC::ShardRejected, None),
        ApiError::QueryStatus(QueryStatusError::NoSuchQuery(_)) => (EC::NoSuchQuery, None),
        ApiError::QueryStatus(QueryStatusError::ShardBroadcastError(_)) => (EC::ShardRejected, None),
        ApiError::QueryStatus(QueryStatusError::NotLeader(_)) => (EC::NotLeader, None),
        ApiError::QueryStatus(QueryStatusError::Leader) => (EC::Leader, None),
        ApiError::QueryStatus(QueryStatusError::DifferentStatus { my_status, .. }) => (EC::DifferentStatus, Some(St::of(*my_status))),
        ApiError::QueryKill(QueryKillStatus::NoSuchQuery(_)) => (EC::NoSuchQuery, None),
        _ => (EC::Other, None),
    }
}

// ------------------------------------------------------------------------------------------
// the reference model: one concrete world
// ------------------------------------------------------------------------------------------

#[derive(Clone, PartialEq, Eq, Hash, Debug)]
struct Node {
    st: St,
    cfg: Cfg,
    /// coordinator (role assignment) the query was registered with
    c: usize,
    task: Option<usize>,
}

#[derive(Clone, PartialEq, Eq, Hash, Debug)]
struct Task {
    h: usize,
    s: usize,
    cfg: Cfg,
    c: usize,
    k: usize,
    finished: bool,
    aborted: bool,
}

#[derive(Clone, PartialEq, Eq, Hash, Debug)]
enum Pend {
    /// a `complete` request received from outside, waiting for its task (and, on a leader, for its shards)
    Direct { op: usize, h: usize, s: usize, task: usize, wait: Vec<(usize, usize)> },
    /// a `complete` request forwarded by the leader, being served by shard (h,s)
    Shard { parent: usize, h: usize, s: usize, task: usize },
    /// a `new_query` whose peers have not answered yet (coordinator is Preparing)
    Create { op: usize, c: usize, cfg: Cfg, rejects: Vec<(usize, usize)> },
}

#[derive(Clone, PartialEq, Eq, Hash, Debug)]
struct World {
    n: Vec<Vec<Node>>,
    tasks: Vec<Task>,
    pend: Vec<Pend>,
    /// pending calls that answered during the current step
    resolved: Vec<(usize, Exp)>,
    /// a failed creation left registrations behind on the shards of the helper that failed
    /// (bit 1: after a failed new_query, bit 2: after a failed prepare_helper)
    trace_own: u8,
    /// ... on other helpers
    trace_peer: bool,
    /// the coordinator of a held creation was killed / changed before its peers answered
    create_disturbed: bool,
}

/// facts about the real deployment that are the same in every possible world
#[derive(Clone, Debug)]
struct Glob {
    s: usize,
    resets: usize,
    ever_started: Vec<Vec<bool>>,
}

type Unspec = &'static str;

impl World {
    fn new(s: usize) -> Self {
        World {
            n: vec![vec![Node { st: St::None, cfg: Cfg::Add, c: 0, task: None }; s]; 3],
            tasks: vec![],
            pend: vec![],
            resolved: vec![],
            trace_own: 0,
            trace_peer: false,
            create_disturbed: false,
        }
    }
    fn shards(&self) -> usize {
        self.n[0].len()
    }
    fn st(&self, h: usize, s: usize) -> St {
        self.n[h][s].st
    }
    fn clear(&mut self, h: usize, s: usize) {
        self.n[h][s].st = St::None;
        self.n[h][s].task = None;
    }
    /// what `get_status` does: a running query whose task has finished becomes completed
    fn observe(&mut self, h: usize, s: usize) -> St {
        let n = &mut self.n[h][s];
        if n.st == St::Running && n.task.is_some_and(|t| self.tasks[t].finished) {
            n.st = St::Completed;
        }
        n.st
    }
    fn shard_blocked(&self, h: usize, s: usize) -> bool {
        self.pend.iter().any(|p| matches!(p, Pend::Shard { h: ph, s: ps, .. } if *ph == h && *ps == s))
    }
    fn any_shard_blocked(&self, h: usize) -> bool {
        (1..self.shards()).any(|s| self.shard_blocked(h, s))
    }
    fn create_pending(&self) -> bool {
        self.pend.iter().any(|p| matches!(p, Pend::Create { .. }))
    }
    fn outcome(cfg: Cfg) -> Exp {
        match cfg {
            Cfg::Add | Cfg::Mul => Exp::Ok(None),
            Cfg::HybErr => Exp::Err(vec![EC::Execution], None),
        }
    }

    /// A follower (or the coordinator itself) asks its non-leader shards to register the query.
    /// Returns (all accepted, shards that accepted).
    fn shard_prepare(&mut self, h: usize, cfg: Cfg, c: usize, rejects: &[(usize, usize)]) -> (bool, Vec<(usize, usize)>) {
        let mut ok = true;
        let mut accepted = vec![];
        for s in 1..self.shards() {
            if rejects.contains(&(h, s)) || self.st(h, s) != St::None {
                ok = false;
            } else {
                self.n[h][s] = Node { st: St::AwaitingInputs, cfg, c, task: None };
                accepted.push((h, s));
            }
        }
        (ok, accepted)
    }

    /// Second half of `new_query`: the peers answer. Produces the possible worlds: when the
    /// creation fails the registrations made on the way are either rolled back (what "a failed
    /// creation leaves no trace" asks for) or left behind (flagged).
    fn finish_create(mut self, c: usize, cfg: Cfg, rejects: &[(usize, usize)]) -> Result<Vec<(Exp, World)>, Unspec> {
        if self.st(c, 0) != St::Preparing || self.create_disturbed {
            return Err("create_disturbed_while_preparing");
        }
        if (0..3).any(|h| self.any_shard_blocked(h)) {
            return Err("blocked_listener");
        }
        let id = HelperIdentity::make_three()[c];
        let peers: Vec<usize> = id.others().iter().map(|p| usize::from(u8::from(*p)) - 1).collect();
        let mut peers_ok = true;
        let mut peer_regs: Vec<(usize, usize)> = vec![];
        let mut peer_shard_regs: Vec<(usize, usize)> = vec![];
        for &p in &peers {
            if rejects.contains(&(p, 0)) || self.st(p, 0) != St::None {
                peers_ok = false;
                continue;
            }
            let (ok, acc) = self.shard_prepare(p, cfg, c, rejects);
            if ok {
                self.n[p][0] = Node { st: St::AwaitingInputs, cfg, c, task: None };
                peer_regs.push((p, 0));
                peer_regs.extend(acc);
            } else {
                peers_ok = false;
                peer_shard_regs.extend(acc);
            }
        }
        let mut own_regs = vec![];
        let mut exp = Exp::Ok(None);
        let mut failed = false;
        if !peers_ok {
            failed = true;
            exp = Exp::Err(vec![EC::PeerRejected], None);
        } else {
            let (ok, acc) = self.shard_prepare(c, cfg, c, rejects);
            own_regs = acc;
            if !ok {
                failed = true;
                exp = Exp::Err(vec![EC::ShardRejected], None);
            }
        }
        if !failed {
            self.n[c][0] = Node { st: St::AwaitingInputs, cfg, c, task: None };
            return Ok(vec![(exp, self)]);
        }
        self.clear(c, 0);
        // branches: {own shards rolled back?} x {other helpers rolled back?}
        let mut out = vec![];
        let own_opts: &[bool] = if own_regs.is_empty() { &[false] } else { &[false, true] };
        let peer_all: Vec<(usize, usize)> = peer_regs.iter().chain(peer_shard_regs.iter()).copied().collect();
        let peer_opts: &[bool] = if peer_all.is_empty() { &[false] } else { &[false, true] };
        for &keep_own in own_opts {
            for &keep_peer in peer_opts {
                let mut w = self.clone();
                if keep_own {
                    w.trace_own |= 1;
                } else {
                    for &(h, s) in &own_regs {
                        w.clear(h, s);
                    }
                }
                if keep_peer {
                    w.trace_peer = true;
                } else {
                    for &(h, s) in &peer_all {
                        w.clear(h, s);
                    }
                }
                out.push((exp.clone(), w));
            }
        }
        Ok(out)
    }

    /// resolve pending calls whose tasks have finished
    fn cascade(&mut self) {
        loop {
            let mut changed = false;
            // forwarded completes
            let mut i = 0;
            while i < self.pend.len() {
                if let Pend::Shard { parent, h, s, task } = self.pend[i].clone() {
                    if self.tasks[task].finished {
                        if self.n[h][s].st == St::AwaitingCompletion && self.n[h][s].task == Some(task) {
                            self.clear(h, s);
                        }
                        self.pend.remove(i);
                        for p in &mut self.pend {
                            if let Pend::Direct { op, wait, .. } = p {
                                if *op == parent {
                                    wait.retain(|x| *x != (h, s));
                                }
                            }
                        }
                        changed = true;
                        continue;
                    }
                }
                i += 1;
            }
            let mut i = 0;
            while i < self.pend.len() {
                if let Pend::Direct { op, h, s, task, wait } = self.pend[i].clone() {
                    if self.tasks[task].finished && wait.is_empty() {
                        if self.n[h][s].st == St::AwaitingCompletion && self.n[h][s].task == Some(task) {
                            self.clear(h, s);
                        }
                        self.resolved.push((op, Self::outcome(self.tasks[task].cfg)));
                        self.pend.remove(i);
                        changed = true;
                        continue;
                    }
                }
                i += 1;
            }
            if !changed {
                break;
            }
        }
    }

    fn apply(mut self, op_id: usize, op: &Op) -> Result<Vec<(Exp, World)>, Unspec> {
        let ns = self.shards();
        match op {
            Op::NewQuery { h, s, cfg, rejects, hold } => {
                let (h, s) = (*h, *s);
                if self.create_pending() {
                    return Err("create_while_another_is_held");
                }
                if self.st(h, s) != St::None {
                    return Ok(vec![(Exp::Err(vec![EC::AlreadyRunning], None), self)]);
                }
                if s != 0 && *hold {
                    return Err("held_create_on_non_leader");
                }
                if s != 0 {
                    // only shard leaders take part in the helper-to-helper handshake; whatever the
                    // answer, nothing may be registered. An acceptance is not modelled.
                    return Ok(vec![(Exp::Err(vec![EC::Any], None), self)]);
                }
                self.n[h][0] = Node { st: St::Preparing, cfg: *cfg, c: h, task: None };
                self.create_disturbed = false;
                if *hold {
                    self.pend.push(Pend::Create { op: op_id, c: h, cfg: *cfg, rejects: rejects.clone() });
                    return Ok(vec![(Exp::Pending, self)]);
                }
                self.finish_create(h, *cfg, rejects)
            }
            Op::Release => {
                let Some(pos) = self.pend.iter().position(|p| matches!(p, Pend::Create { .. })) else {
                    return Ok(vec![(Exp::Ok(None), self)]);
                };
                let Pend::Create { op, c, cfg, rejects } = self.pend.remove(pos) else { unreachable!() };
                let outs = self.finish_create(c, cfg, &rejects)?;
                Ok(outs
                    .into_iter()
                    .map(|(e, mut w)| {
                        w.resolved.push((op, e));
                        (Exp::Ok(None), w)
                    })
                    .collect())
            }
            Op::PrepareHelper { h, s, c, cfg, rejects } => {
                let (h, s) = (*h, *s);
                let mut reasons = vec![];
                if *c == h {
                    reasons.push(EC::WrongTarget);
                }
                if s != 0 {
                    reasons.push(EC::NotLeader);
                }
                if !reasons.is_empty() {
                    return Ok(vec![(Exp::Err(reasons, None), self)]);
                }
                if self.st(h, 0) != St::None {
                    return Ok(vec![(Exp::Err(vec![EC::AlreadyRunning], None), self)]);
                }
                if self.any_shard_blocked(h) {
                    return Err("blocked_listener");
                }
                if self.create_pending() && !rejects.is_empty() {
                    return Err("rejections_while_a_creation_is_held");
                }
                // rejections injected for a creation that is still held apply to every prepare
                // request reaching those shards
                let mut eff = rejects.clone();
                for p in &self.pend {
                    if let Pend::Create { rejects: r, .. } = p {
                        eff.extend(r.iter().copied());
                    }
                }
                let (ok, acc) = self.shard_prepare(h, *cfg, *c, &eff);
                if ok {
                    self.n[h][0] = Node { st: St::AwaitingInputs, cfg: *cfg, c: *c, task: None };
                    return Ok(vec![(Exp::Ok(None), self)]);
                }
                let exp = Exp::Err(vec![EC::ShardRejected], None);
                if acc.is_empty() {
                    return Ok(vec![(exp, self)]);
                }
                let mut rolled = self.clone();
                for &(a, b) in &acc {
                    rolled.clear(a, b);
                }
                self.trace_own |= 2;
                Ok(vec![(exp.clone(), rolled), (exp, self)])
            }
            Op::PrepareShard { h, s, c, cfg } => {
                let (h, s) = (*h, *s);
                if s == 0 {
                    return Ok(vec![(Exp::Err(vec![EC::Leader], None), self)]);
                }
                if self.st(h, s) != St::None {
                    return Ok(vec![(Exp::Err(vec![EC::AlreadyRunning], None), self)]);
                }
                self.n[h][s] = Node { st: St::AwaitingInputs, cfg: *cfg, c: *c, task: None };
                Ok(vec![(Exp::Ok(None), self)])
            }
            Op::Inputs { h, s, k } => {
                let (h, s) = (*h, *s);
                match self.st(h, s) {
                    St::None => Ok(vec![(Exp::Err(vec![EC::NoSuchQuery], None), self)]),
                    St::AwaitingInputs => {
                        let cfg = self.n[h][s].cfg;
                        let c = self.n[h][s].c;
                        self.tasks.push(Task { h, s, cfg, c, k: *k, finished: false, aborted: false });
                        self.n[h][s].st = St::Running;
                        self.n[h][s].task = Some(self.tasks.len() - 1);
                        Ok(vec![(Exp::Ok(None), self)])
                    }
                    other => Ok(vec![(Exp::Err(vec![EC::InvalidState], Some(other)), self)]),
                }
            }
            Op::Status { h, s } => {
                let (h, s) = (*h, *s);
                if s != 0 {
                    return Ok(vec![(Exp::Err(vec![EC::NotLeader], None), self)]);
                }
                if self.st(h, 0) == St::None {
                    return Ok(vec![(Exp::Err(vec![EC::NoSuchQuery], None), self)]);
                }
                if self.any_shard_blocked(h) {
                    return Err("blocked_listener");
                }
                let mut least = self.observe(h, 0);
                let mut missing = false;
                for x in 1..ns {
                    let st = self.observe(h, x);
                    if st == St::None {
                        missing = true;
                    } else if st < least {
                        least = st;
                    }
                }
                if missing {
                    Ok(vec![(Exp::Err(vec![EC::ShardRejected], None), self)])
                } else {
                    Ok(vec![(Exp::Ok(Some(least)), self)])
                }
            }
            Op::ShardStatus { h, s, claimed } => {
                let (h, s) = (*h, *s);
                if s == 0 {
                    return Ok(vec![(Exp::Err(vec![EC::Leader], None), self)]);
                }
                if self.st(h, s) == St::None {
                    return Ok(vec![(Exp::Err(vec![EC::NoSuchQuery], None), self)]);
                }
                let st = self.observe(h, s);
                if st == *claimed {
                    Ok(vec![(Exp::Ok(Some(st)), self)])
                } else {
                    Ok(vec![(Exp::Err(vec![EC::DifferentStatus], Some(st)), self)])
                }
            }
            Op::Kill { h, s } => {
                let (h, s) = (*h, *s);
                match self.st(h, s) {
                    St::None => Ok(vec![(Exp::Err(vec![EC::NoSuchQuery], None), self)]),
                    st => {
                        if st == St::Running {
                            if let Some(t) = self.n[h][s].task {
                                self.tasks[t].aborted = true;
                            }
                        }
                        if st == St::Preparing {
                            self.create_disturbed = true;
                        }
                        self.clear(h, s);
                        Ok(vec![(Exp::Ok(None), self)])
                    }
                }
            }
            Op::Complete { h, s } => {
                let (h, s) = (*h, *s);
                match self.st(h, s) {
                    St::None => Ok(vec![(Exp::Err(vec![EC::NoSuchQuery], None), self)]),
                    St::Completed => {
                        let e = Self::outcome(self.n[h][s].cfg);
                        self.clear(h, s);
                        Ok(vec![(e, self)])
                    }
                    St::Running => {
                        let task = self.n[h][s].task.expect("running node has a task");
                        let mut wait = vec![];
                        if s == 0 && ns > 1 {
                            if self.any_shard_blocked(h) {
                                return Err("blocked_listener");
                            }
                            if (1..ns).any(|x| !matches!(self.st(h, x), St::Running | St::Completed)) {
                                // the leader is ready but a shard is not: the request fails after the
                                // leader has already moved on - the property does not say what is left
                                return Err("leader_complete_with_unready_shard");
                            }
                            for x in 1..ns {
                                if self.st(h, x) == St::Completed {
                                    self.clear(h, x);
                                } else {
                                    let t = self.n[h][x].task.expect("running node has a task");
                                    self.n[h][x].st = St::AwaitingCompletion;
                                    self.pend.push(Pend::Shard { parent: op_id, h, s: x, task: t });
                                    wait.push((h, x));
                                }
                            }
                        }
                        self.n[h][s].st = St::AwaitingCompletion;
                        self.pend.push(Pend::Direct { op: op_id, h, s, task, wait });
                        Ok(vec![(Exp::Pending, self)])
                    }
                    other => Ok(vec![(Exp::Err(vec![EC::InvalidState], Some(other)), self)]),
                }
            }
        }
    }

    /// Tasks that may have finished by now. `forced`: certainly finished (clean traffic).
    fn finishable(&self, g: &Glob) -> (Vec<usize>, Vec<usize>) {
        let mut forced = vec![];
        let mut optional = vec![];
        for (i, t) in self.tasks.iter().enumerate() {
            if t.finished || t.aborted {
                continue;
            }
            // PRSS set-up needs key material from both peers: nothing can finish before every
            // helper of this shard has been started at least once
            if !(0..3).all(|h| g.ever_started[h][t.s]) {
                continue;
            }
            let clean = g.resets == 0
                && !self.create_pending()
                && (matches!(t.cfg, Cfg::Add | Cfg::Mul) || g.s == 1)
                && (0..3).all(|h| {
                    self.n[h][t.s].task.is_some_and(|x| {
                        let o = &self.tasks[x];
                        !o.aborted && o.cfg == t.cfg && o.c == t.c
                    })
                });
            if clean {
                forced.push(i);
            } else {
                optional.push(i);
            }
        }
        (forced, optional)
    }

    fn flips(self, g: &Glob) -> Vec<World> {
        let (forced, optional) = self.finishable(g);
        let mut base = self;
        for &t in &forced {
            base.tasks[t].finished = true;
        }
        let opt: Vec<usize> = optional.into_iter().take(6).collect();
        let mut out = vec![];
        for mask in 0..(1u32 << opt.len()) {
            let mut w = base.clone();
            for (b, &t) in opt.iter().enumerate() {
                if mask >> b & 1 == 1 {
                    w.tasks[t].finished = true;
                }
            }
            w.cascade();
            out.push(w);
        }
        out
    }
}

// ------------------------------------------------------------------------------------------
// the real deployment
// ------------------------------------------------------------------------------------------

#[derive(Default)]
struct Sib {
    active: bool,
    expected: usize,
    exited: usize,
    waiting: usize,
}

#[derive(Default)]
struct Ctl {
    reject: Mutex<HashSet<(usize, usize)>>,
    hold: AtomicBool,
    gate: tokio::sync::Notify,
    sib: Mutex<Sib>,
    sib_notify: tokio::sync::Notify,
}

/// Sits between the in-memory helper-to-helper network and a helper's request handler: injects
/// peer rejections of `PrepareQuery`, holds the answer back while a creation is "held", and makes
/// an erroring answer wait for its sibling so that the in-memory transport never has to
/// acknowledge a request whose sender gave up (it panics on that - test infrastructure only).
struct MpcWrap {
    node: (usize, usize),
    inner: HandlerRef<HelperIdentity>,
    ctl: Arc<Ctl>,
}

#[async_trait]
impl RequestHandler<HelperIdentity> for MpcWrap {
    async fn handle(&self, req: Addr<HelperIdentity>, data: BodyStream) -> Result<HelperResponse, ApiError> {
        if req.route != RouteId::PrepareQuery {
            return self.inner.handle(req, data).await;
        }
        loop {
            if !self.ctl.hold.load(Ordering::SeqCst) {
                break;
            }
            let n = self.ctl.gate.notified();
            if !self.ctl.hold.load(Ordering::SeqCst) {
                break;
            }
            n.await;
        }
        let rejected = self.ctl.reject.lock().unwrap().contains(&self.node);
        let r = if rejected {
            Err(ApiError::QueryPrepare(PrepareQueryError::WrongTarget))
        } else {
            self.inner.handle(req, data).await
        };
        let active = self.ctl.sib.lock().unwrap().active;
        if active {
            if r.is_err() {
                let mut registered = false;
                loop {
                    let notified = self.ctl.sib_notify.notified();
                    {
                        let mut s = self.ctl.sib.lock().unwrap();
                        let others = s.exited + s.waiting - usize::from(registered);
                        if others + 1 >= s.expected {
                            if registered {
                                s.waiting -= 1;
                            }
                            break;
                        }
                        if !registered {
                            s.waiting += 1;
                            registered = true;
                        }
                    }
                    notified.await;
                }
            }
            self.ctl.sib.lock().unwrap().exited += 1;
            self.ctl.sib_notify.notify_waiters();
        }
        r
    }
}

struct ShardWrap {
    node: (usize, usize),
    inner: HandlerRef<ShardIndex>,
    ctl: Arc<Ctl>,
}

#[async_trait]
impl RequestHandler<ShardIndex> for ShardWrap {
    async fn handle(&self, req: Addr<ShardIndex>, data: BodyStream) -> Result<HelperResponse, ApiError> {
        if req.route == RouteId::PrepareQuery && self.ctl.reject.lock().unwrap().contains(&self.node) {
            return Err(ApiError::QueryPrepare(PrepareQueryError::AlreadyRunning));
        }
        self.inner.handle(req, data).await
    }
}

type ApiResult = Result<HelperResponse, ApiError>;

struct Real {
    s: usize,
    mpc_h: Vec<Vec<HandlerRef<HelperIdentity>>>,
    shard_h: Vec<Vec<HandlerRef<ShardIndex>>>,
    mpc_nets: Vec<InMemoryMpcNetwork>,
    shard_net: InMemoryShardNetwork,
    ctl: Arc<Ctl>,
    _apps: Vec<HelperApp>,
    _mpc_wraps: Vec<Arc<dyn RequestHandler<HelperIdentity>>>,
    _shard_wraps: Vec<Arc<dyn RequestHandler<ShardIndex>>>,
}

impl Real {
    /// must be called inside the runtime
    fn build(s: usize) -> Real {
        let ctl = Arc::new(Ctl::default());
        let mut setups = vec![];
        let mut mpc_h: Vec<Vec<HandlerRef<HelperIdentity>>> = vec![vec![]; 3];
        let mut shard_h: Vec<Vec<HandlerRef<ShardIndex>>> = vec![vec![]; 3];
        for h in 0..3 {
            for _ in 0..s {
                let (setup, mh, sh) = AppSetup::new(AppConfig::default());
                setups.push(setup);
                mpc_h[h].push(mh);
                shard_h[h].push(sh);
            }
        }
        // shard networks (handler_fn is called helper-major, shard-minor)
        let counter = Cell::new(0usize);
        let (shard_net, shard_wraps) = InMemoryShardNetwork::with_shards_and_handlers(u32::try_from(s).unwrap(), |_si| {
            let i = counter.get();
            counter.set(i + 1);
            let (h, x) = (i / s, i % s);
            Arc::new(ShardWrap { node: (h, x), inner: shard_h[h][x].clone(), ctl: Arc::clone(&ctl) }) as Arc<dyn RequestHandler<ShardIndex>>
        });
        assert_eq!(counter.get(), 3 * s);
        // one helper ring per shard index
        let mut mpc_wraps: Vec<Arc<dyn RequestHandler<HelperIdentity>>> = vec![];
        let mut mpc_nets = vec![];
        for x in 0..s {
            let wraps: [Arc<dyn RequestHandler<HelperIdentity>>; 3] = std::array::from_fn(|h| {
                Arc::new(MpcWrap { node: (h, x), inner: mpc_h[h][x].clone(), ctl: Arc::clone(&ctl) }) as Arc<dyn RequestHandler<HelperIdentity>>
            });
            let refs = wraps.each_ref().map(|w| Some(HandlerBox::owning_ref(w)));
            let shard = if s > 1 { Some(ShardIndex::from(u32::try_from(x).unwrap())) } else { None };
            mpc_nets.push(InMemoryMpcNetwork::with_stream_interceptor(refs, &passthrough(), shard));
            mpc_wraps.extend(wraps);
        }
        let mut apps = vec![];
        let mut it = setups.into_iter();
        for h in 0..3 {
            for x in 0..s {
                let id = HelperIdentity::make_three()[h];
                let setup = it.next().unwrap();
                let logging_handle = LoggingHandle { metrics_handle: install_collector().unwrap() };
                apps.push(setup.connect(
                    mpc_nets[x].transport(id),
                    shard_net.transport(id, u32::try_from(x).unwrap()),
                    logging_handle,
                ));
            }
        }
        Real { s, mpc_h, shard_h, mpc_nets, shard_net, ctl, _apps: apps, _mpc_wraps: mpc_wraps, _shard_wraps: shard_wraps }
    }

    fn reset_all(&self) {
        for n in &self.mpc_nets {
            n.reset();
        }
        self.shard_net.reset();
    }

    fn mpc_call(&self, h: usize, s: usize, route: RouteId, params: String, body: Vec<u8>) -> tokio::task::JoinHandle<ApiResult> {
        let href = self.mpc_h[h][s].clone();
        let addr = Addr::<HelperIdentity> { route, origin: None, query_id: Some(QueryId), gate: None, params };
        tokio::spawn(async move { href.handle(addr, BodyStream::from(body)).await })
    }

    fn shard_call(&self, h: usize, s: usize, route: RouteId, params: String) -> tokio::task::JoinHandle<ApiResult> {
        let href = self.shard_h[h][s].clone();
        let addr = Addr::<ShardIndex> { route, origin: None, query_id: Some(QueryId), gate: None, params };
        tokio::spawn(async move { href.handle(addr, BodyStream::empty()).await })
    }

    /// issue the request; `input_cfg` is the configuration the model believes the node has (only
    /// used to build well-formed input)
    fn issue(&self, op: &Op, input_cfg: Cfg) -> Option<tokio::task::JoinHandle<ApiResult>> {
        Some(match op {
            Op::NewQuery { h, s, cfg, .. } => {
                let mut addr_params = serde_json::to_string(&cfg.config()).unwrap();
                let href = self.mpc_h[*h][*s].clone();
                let addr = Addr::<HelperIdentity> { route: RouteId::ReceiveQuery, origin: None, query_id: None, gate: None, params: std::mem::take(&mut addr_params) };
                tokio::spawn(async move { href.handle(addr, BodyStream::empty()).await })
            }
            Op::PrepareHelper { h, s, c, cfg, .. } => {
                let pq = PrepareQuery { query_id: QueryId, config: cfg.config(), roles: roles_for(*c) };
                self.mpc_call(*h, *s, RouteId::PrepareQuery, serde_json::to_string(&pq).unwrap(), vec![])
            }
            Op::PrepareShard { h, s, c, cfg } => {
                let pq = PrepareQuery { query_id: QueryId, config: cfg.config(), roles: roles_for(*c) };
                self.shard_call(*h, *s, RouteId::PrepareQuery, serde_json::to_string(&pq).unwrap())
            }
            Op::Inputs { h, s, k } => self.mpc_call(*h, *s, RouteId::QueryInput, String::new(), input_cfg.input(*k)),
            Op::Status { h, s } => self.mpc_call(*h, *s, RouteId::QueryStatus, String::new(), vec![]),
            Op::ShardStatus { h, s, claimed } => {
                let req = CompareStatusRequest { query_id: QueryId, status: claimed.to_status().unwrap_or(QueryStatus::Running) };
                self.shard_call(*h, *s, RouteId::QueryStatus, serde_json::to_string(&req).unwrap())
            }
            Op::Complete { h, s } => self.mpc_call(*h, *s, RouteId::CompleteQuery, String::new(), vec![]),
            Op::Kill { h, s } => self.mpc_call(*h, *s, RouteId::KillQuery, String::new(), vec![]),
            Op::Release => return None,
        })
    }
}

fn observe_result(op: &Op, r: Result<ApiResult, tokio::task::JoinError>) -> Obs {
    match r {
        Err(e) => {
            if e.is_panic() {
                let p = e.into_panic();
                Obs::Panic("?".into(), panic_message(&p))
            } else {
                Obs::Panic("?".into(), "request task cancelled".into())
            }
        }
        Ok(Err(e)) => {
            let (c, st) = classify_err(&e);
            Obs::Err(c, st)
        }
        Ok(Ok(resp)) => match op {
            Op::Status { .. } | Op::ShardStatus { .. } => {
                let st = resp
                    .try_into_owned::<Value>()
                    .ok()
                    .and_then(|v| serde_json::from_value::<QueryStatus>(v["status"].clone()).ok())
                    .map(St::of);
                Obs::Ok(st)
            }
            _ => Obs::Ok(None),
        },
    }
}

// ------------------------------------------------------------------------------------------
// interpreter: real deployment + possible worlds in lock-step
// ------------------------------------------------------------------------------------------

enum StepEnd {
    Continue,
    /// the history left the part of the state space the property (or the in-memory test
    /// infrastructure) covers; stop without a verdict on the rest
    Truncate(String),
}

struct Stats {
    labels: BTreeSet<String>,
    log: Vec<Value>,
    max_st: St,
    invalid: usize,
    handed_out: usize,
    created_after_handout: bool,
    handed: Vec<(usize, usize)>,
    registered_after_handout: bool,
}

struct Interp<'a> {
    env: &'a Env,
    q: Arc<QShared>,
    real: Real,
    worlds: Vec<World>,
    glob: Glob,
    next_op: usize,
    pending: Vec<(usize, Op, tokio::task::JoinHandle<ApiResult>)>,
    /// last status seen per node since the last request that may remove or replace a query
    last_seen: Vec<Vec<Option<St>>>,
    stats: Stats,
    trace_reported: u8,
}

fn case_json(log: &[Value], s: usize) -> Value {
    json!({"shards_per_helper": s, "history": log})
}

impl<'a> Interp<'a> {
    fn new(env: &'a Env, q: Arc<QShared>, s: usize) -> Self {
        Interp {
            env,
            q,
            real: Real::build(s),
            worlds: vec![World::new(s)],
            glob: Glob { s, resets: 0, ever_started: vec![vec![false; s]; 3] },
            next_op: 0,
            pending: vec![],
            last_seen: vec![vec![None; s]; 3],
            stats: Stats { labels: BTreeSet::new(), log: vec![], max_st: St::None, invalid: 0, handed_out: 0, created_after_handout: false, handed: vec![], registered_after_handout: false },
            trace_reported: 0,
        }
    }

    fn viol(&self, sig: String, msg: String) -> CaseErr {
        violation(sig, msg, case_json(&self.stats.log, self.glob.s))
    }

    fn note_status(&mut self, h: usize, s: usize, st: St) -> Result<(), CaseErr> {
        if st > self.stats.max_st {
            self.stats.max_st = st;
        }
        self.stats.labels.insert(format!("seen:{}", st.name()));
        if let Some(prev) = self.last_seen[h][s] {
            if st < prev {
                return Err(self.viol(
                    format!("status-regressed:{}->{}", prev.name(), st.name()),
                    format!("helper {h} shard {s} reported {} after {} although no request that removes or replaces the query was made in between", st.name(), prev.name()),
                ));
            }
        }
        self.last_seen[h][s] = Some(st);
        Ok(())
    }

    async fn step(&mut self, op: &Op, counted: bool) -> Result<StepEnd, CaseErr> {
        self.step_as(op, counted, if counted { "history" } else { "setup" }).await
    }

    async fn step_as(&mut self, op: &Op, counted: bool, role: &'static str) -> Result<StepEnd, CaseErr> {
        let op_id = self.next_op;
        self.next_op += 1;
        let glob_s = self.glob.s;

        // ---- model: immediate effect of the request in every possible world
        let mut unspec: Option<Unspec> = None;
        let mut cands: Vec<(Exp, World)> = vec![];
        for w in &self.worlds {
            match w.clone().apply(op_id, op) {
                Ok(v) => cands.extend(v),
                Err(u) => unspec = Some(u),
            }
        }

        // did the targeted node possibly own a query task (=> protocol traffic) before the request?
        let had_task = op.node().is_some_and(|(h, s)| self.worlds.iter().any(|w| w.st(h, s) >= St::Running));

        // ---- real: issue, run to quiescence
        let input_cfg = op.node().map_or(Cfg::Add, |(h, s)| self.worlds[0].n[h][s].cfg);
        match op {
            Op::NewQuery { rejects, hold, .. } => {
                *self.real.ctl.reject.lock().unwrap() = rejects.iter().copied().collect();
                if *hold {
                    self.real.ctl.hold.store(true, Ordering::SeqCst);
                }
                *self.real.ctl.sib.lock().unwrap() = Sib { active: true, expected: 2, exited: 0, waiting: 0 };
            }
            Op::PrepareHelper { rejects, .. } => {
                if !self.real.ctl.hold.load(Ordering::SeqCst) {
                    *self.real.ctl.reject.lock().unwrap() = rejects.iter().copied().collect();
                }
            }
            Op::Release => {
                self.real.ctl.hold.store(false, Ordering::SeqCst);
                self.real.ctl.gate.notify_waiters();
            }
            _ => {}
        }
        let jh = self.real.issue(op, input_cfg);
        quiesce(&self.q).await;

        let mut entry = op.json();
        let obs = match jh {
            None => Obs::Ok(None),
            Some(jh) => {
                if jh.is_finished() {
                    observe_result(op, jh.await)
                } else {
                    self.pending.push((op_id, op.clone(), jh));
                    Obs::Pending
                }
            }
        };
        // earlier requests that have answered now
        let mut resolved_now: Vec<(usize, Op, Obs)> = vec![];
        let mut i = 0;
        while i < self.pending.len() {
            if self.pending[i].0 != op_id && self.pending[i].2.is_finished() {
                let (id, pop, jh) = self.pending.remove(i);
                let o = observe_result(&pop, jh.await);
                resolved_now.push((id, pop, o));
            } else {
                i += 1;
            }
        }
        // a creation is over (answered or held): stop injecting
        if matches!(op, Op::NewQuery { hold: true, .. }) && !matches!(obs, Obs::Pending) {
            self.real.ctl.hold.store(false, Ordering::SeqCst);
            self.real.ctl.gate.notify_waiters();
        }
        let still_held = self.real.ctl.hold.load(Ordering::SeqCst);
        if !still_held {
            self.real.ctl.reject.lock().unwrap().clear();
            self.real.ctl.sib.lock().unwrap().active = false;
        }
        entry["response"] = json!(obs.short());
        if !resolved_now.is_empty() {
            entry["answered_now"] = json!(resolved_now.iter().map(|(id, p, o)| json!({"request": id, "op": p.kind(), "response": o.short()})).collect::<Vec<_>>());
        }
        entry["n"] = json!(op_id);
        if role != "history" {
            entry["role"] = json!(role);
        }
        self.stats.log.push(entry);

        // ---- panics
        let panics = take_panics();
        let api_panic = std::iter::once(&obs).chain(resolved_now.iter().map(|r| &r.2)).find_map(|o| if let Obs::Panic(_, m) = o { Some(m.clone()) } else { None });
        let infra = |l: &str| l.contains("helpers/transport/in_memory") || l.contains("helpers/transport/stream");
        if let Some(msg) = api_panic {
            // which recorded panic is it? (the last one with that message)
            let loc = panics.iter().rev().find(|(_, m)| *m == msg).map_or("?".to_string(), |(l, _)| l.clone());
            let earlier_task_panic = panics.iter().any(|(l, m)| !(l == &loc && m == &msg) && !infra(l));
            if msg.contains("query completed without returning a result") && earlier_task_panic {
                // the query task itself panicked: outside "tasks end by returning a result or an error"
                return Ok(StepEnd::Truncate("task_panicked".into()));
            }
            if panics.iter().any(|(l, _)| infra(l)) {
                return Ok(StepEnd::Truncate("in_memory_transport_panicked".into()));
            }
            return Err(self.viol(
                format!("api-panic:{}:{}", op.kind(), loc_file(&loc)),
                format!("request panicked at {loc}: {msg}"),
            ));
        }
        if !panics.is_empty() {
            if panics.iter().any(|(l, _)| infra(l)) {
                return Ok(StepEnd::Truncate("in_memory_transport_panicked".into()));
            }
            // a background task of the helper panicked (query task: protocol-level failure)
            self.stats.labels.insert(format!("bg_panic:{}", loc_file(&panics[0].0)));
            return Ok(StepEnd::Truncate("task_panicked".into()));
        }
        if let Some(u) = unspec {
            if u == "leader_complete_with_unready_shard" && matches!(obs, Obs::Err(..)) {
                if let Op::Complete { h, .. } = op {
                    self.after_failed_leader_complete(*h).await?;
                }
            }
            return Ok(StepEnd::Truncate(format!("unspecified:{u}")));
        }

        // ---- model: tasks that finished, pending calls that answered
        if let Op::Inputs { h, s, .. } = op {
            if matches!(obs, Obs::Ok(_)) {
                self.glob.ever_started[*h][*s] = true;
            }
        }
        let mut next: Vec<(Exp, World)> = vec![];
        for (e, w) in cands {
            for mut w2 in w.flips(&self.glob) {
                // did this very request answer during the step?
                let mut e2 = e.clone();
                if let Some(pos) = w2.resolved.iter().position(|(id, _)| *id == op_id) {
                    e2 = w2.resolved.remove(pos).1;
                }
                next.push((e2, w2));
            }
        }
        let total = next.len();
        let mut kept: Vec<World> = vec![];
        let mut seen = HashSet::new();
        for (e, mut w) in next.iter().cloned() {
            if !e.matches(&obs) {
                continue;
            }
            let mut r = std::mem::take(&mut w.resolved);
            r.sort_by_key(|x| x.0);
            let mut rn: Vec<&(usize, Op, Obs)> = resolved_now.iter().collect();
            rn.sort_by_key(|x| x.0);
            if r.len() != rn.len() || !r.iter().zip(rn.iter()).all(|((a, ea), (b, _, ob))| a == b && ea.matches(ob)) {
                continue;
            }
            // a request still pending in the model must still be pending for real and vice versa
            let model_pending: BTreeSet<usize> = w.pend.iter().filter_map(|p| match p { Pend::Direct { op, .. } | Pend::Create { op, .. } => Some(*op), Pend::Shard { .. } => None }).collect();
            let real_pending: BTreeSet<usize> = self.pending.iter().map(|p| p.0).collect();
            if model_pending != real_pending {
                continue;
            }
            if seen.insert(digest(&w)) {
                kept.push(w);
            }
        }
        if kept.is_empty() {
            let exps: BTreeSet<String> = next.iter().map(|(e, w)| {
                let r: Vec<String> = w.resolved.iter().map(|(id, e)| format!("#{id}:{}", e.short())).collect();
                if r.is_empty() { e.short() } else { format!("{} answering {}", e.short(), r.join(",")) }
            }).collect();
            let role = op.node().map_or("", |(_, s)| if s == 0 { "leader" } else { "non_leader" });
            let first_exp = next.first().map_or("?".to_string(), |(e, _)| e.short());
            let got = if resolved_now.is_empty() { obs.short() } else {
                format!("{} answering {}", obs.short(), resolved_now.iter().map(|(id, _, o)| format!("#{id}:{}", o.short())).collect::<Vec<_>>().join(","))
            };
            let states: Vec<String> = self.worlds.iter().take(3).map(|w| {
                w.n.iter().map(|hs| hs.iter().map(|n| n.st.name()).collect::<Vec<_>>().join("/")).collect::<Vec<_>>().join(" | ")
            }).collect();
            return Err(self.viol(
                format!("model-mismatch:{}:{}:expected={}:got={}", op.kind(), role, first_exp, obs.short()),
                format!(
                    "request #{op_id} {} (S={glob_s}) answered {got}; the lifecycle model allows {:?} ({total} candidate world(s)); model states before the request (helper rows, shards separated by '/'): {:?}",
                    op.json(), exps, states
                ),
            ));
        }
        self.worlds = kept;
        if self.worlds.len() > 512 {
            return Ok(StepEnd::Truncate("model_set_too_large".into()));
        }

        // ---- bookkeeping from the observation
        match (op, &obs) {
            (Op::Status { h, s }, Obs::Ok(Some(st))) if self.glob.s == 1 => self.note_status(*h, *s, *st)?,
            (Op::Status { .. }, Obs::Ok(Some(st))) => {
                if *st > self.stats.max_st {
                    self.stats.max_st = *st;
                }
                self.stats.labels.insert(format!("seen:{}", st.name()));
                self.stats.labels.insert("sharded_status_ok".into());
            }
            (Op::ShardStatus { h, s, .. }, Obs::Ok(Some(st)) | Obs::Err(EC::DifferentStatus, Some(st))) => self.note_status(*h, *s, *st)?,
            _ => {}
        }
        if !matches!(op, Op::Status { .. } | Op::ShardStatus { .. } | Op::Inputs { .. }) || !resolved_now.is_empty() {
            for r in &mut self.last_seen {
                for x in r.iter_mut() {
                    *x = None;
                }
            }
        }
        if counted {
            if matches!(obs, Obs::Err(..)) {
                self.stats.invalid += 1;
            }
            if let Op::NewQuery { rejects, .. } | Op::PrepareHelper { rejects, .. } = op {
                if !rejects.is_empty() {
                    self.stats.labels.insert("peer_rejection_injected".into());
                }
            }
        }
        if matches!(op, Op::NewQuery { .. }) && matches!(obs, Obs::Ok(_)) && self.stats.handed_out > 0 {
            self.stats.created_after_handout = true;
        }
        if matches!(obs, Obs::Pending) {
            self.stats.labels.insert(format!("pending:{}", op.kind()));
        }
        // results handed out / queries removed => forget the protocol traffic of that query, as
        // the HTTP transports do when a complete or kill request has been served
        let mut removed = false;
        let mut handed = 0;
        for (o, ob) in std::iter::once((op, &obs)).chain(resolved_now.iter().map(|(_, p, o)| (p, o))) {
            match (o, ob) {
                (Op::Complete { h, s }, Obs::Ok(_) | Obs::Err(EC::Execution, _)) => {
                    removed = true;
                    handed += 1;
                    self.stats.handed.push((*h, *s));
                }
                (Op::NewQuery { h, s, .. } | Op::PrepareHelper { h, s, .. } | Op::PrepareShard { h, s, .. }, Obs::Ok(_)) => {
                    if self.stats.handed.contains(&(*h, *s)) {
                        self.stats.registered_after_handout = true;
                    }
                }
                (Op::Kill { .. }, Obs::Ok(_)) => removed |= had_task,
                _ => {}
            }
        }
        self.stats.handed_out += handed;
        if removed {
            self.real.reset_all();
            self.glob.resets += 1;
        }

        // ---- "a failed creation leaves no trace"
        for (bit, via) in [(1u8, "new_query"), (2u8, "prepare_helper")] {
            if self.trace_reported & bit == 0 && self.worlds.iter().all(|w| w.trace_own & bit != 0) {
                self.trace_reported |= bit;
                self.stats.labels.insert(format!("failed_create_trace_on_own_shards:{via}"));
                known_or_violation(
                    self.env,
                    &format!("failed-create-leaves-trace:own-shards:{via}"),
                    format!("a {via} that failed because one shard of the helper rejected the prepare request left the query registered (AwaitingInputs) on the other shards of that helper while the helper itself reports NoSuchQuery: the creation left a trace, and a later create on this helper is refused by those shards with AlreadyRunning"),
                    case_json(&self.stats.log, self.glob.s),
                )?;
            }
        }
        if self.worlds.iter().all(|w| w.trace_peer) {
            self.stats.labels.insert("failed_create_trace_on_other_helpers".into());
        }
        Ok(StepEnd::Continue)
    }

    /// issue a request outside the model (after the history left the modelled part)
    async fn raw(&mut self, op: &Op) -> (Obs, Vec<(String, String)>) {
        let jh = self.real.issue(op, Cfg::Add);
        quiesce(&self.q).await;
        let obs = match jh {
            None => Obs::Ok(None),
            Some(jh) => {
                if jh.is_finished() {
                    observe_result(op, jh.await)
                } else {
                    jh.abort();
                    Obs::Pending
                }
            }
        };
        let mut entry = op.json();
        entry["response"] = json!(obs.short());
        entry["role"] = json!("unmodelled");
        let panics = take_panics();
        if !panics.is_empty() {
            entry["background_panics"] = json!(panics.iter().map(|(l, m)| format!("{l}: {}", &m[..m.len().min(120)])).collect::<Vec<_>>());
        }
        self.stats.log.push(entry);
        (obs, panics)
    }

    /// A `complete` sent to a leader whose own query is running but one of whose shards is not
    /// ready was answered with an error. Seen from the helper (status = least advanced shard)
    /// the request was invalid in the current state, so it must leave the state unchanged.
    async fn after_failed_leader_complete(&mut self, h: usize) -> Result<(), CaseErr> {
        let (obs, _) = self.raw(&Op::Status { h, s: 0 }).await;
        if matches!(obs, Obs::Err(EC::NoSuchQuery, _)) {
            self.stats.labels.insert("failed_complete_forgot_query".into());
            known_or_violation(
                self.env,
                "failed-complete-forgets-query:leader",
                format!("complete on the leader shard of helper {h} was refused because one of its shards is not ready (helper status = least advanced shard < running/completed), yet the leader's query is gone afterwards (query_status: NoSuchQuery): a request that is invalid in the current state did not leave the state unchanged, and the result of the leader's task is lost"),
                case_json(&self.stats.log, self.glob.s),
            )?;
        }
        Ok(())
    }

    /// status probes on every node (not counted as history requests)
    async fn probes(&mut self) -> Result<StepEnd, CaseErr> {
        self.probes_except(None).await
    }

    /// `skip`: a node that must not be asked (asking a leader for its status turns a finished
    /// running query into a completed one)
    async fn probes_except(&mut self, skip: Option<(usize, usize)>) -> Result<StepEnd, CaseErr> {
        for h in 0..3 {
            for s in 0..self.glob.s {
                if skip == Some((h, s)) {
                    continue;
                }
                let op = if s == 0 {
                    if self.glob.s > 1 && self.worlds.iter().any(|w| w.any_shard_blocked(h)) {
                        continue;
                    }
                    Op::Status { h, s }
                } else {
                    let guess = self.worlds[0].st(h, s);
                    Op::ShardStatus { h, s, claimed: if guess == St::None { St::Running } else { guess } }
                };
                if let StepEnd::Truncate(t) = self.step_as(&op, false, "probe").await? {
                    return Ok(StepEnd::Truncate(t));
                }
            }
        }
        Ok(StepEnd::Continue)
    }

    async fn run_op(&mut self, op: &Op, counted: bool) -> Result<StepEnd, CaseErr> {
        if let StepEnd::Truncate(t) = self.step(op, counted).await? {
            return Ok(StepEnd::Truncate(t));
        }
        self.probes().await
    }

    fn teardown(self) {
        for (_, _, jh) in &self.pending {
            jh.abort();
        }
        let _ = catch(move || drop(self));
        let _ = take_panics();
    }
}

// ------------------------------------------------------------------------------------------
// generator
// ------------------------------------------------------------------------------------------

fn gen_cfg(src: &mut Src<'_>) -> Cfg {
    match src.below(10) {
        0..=4 => Cfg::Add,
        5..=6 => Cfg::Mul,
        _ => Cfg::HybErr,
    }
}

fn gen_rejects(src: &mut Src<'_>, s: usize, coordinator: usize, follower_only: Option<usize>) -> Vec<(usize, usize)> {
    if !src.chance(1, 4) {
        return vec![];
    }
    let mut cands: Vec<(usize, usize)> = vec![];
    match follower_only {
        Some(h) => cands.extend((1..s).map(|x| (h, x))),
        None => {
            for h in 0..3 {
                if h != coordinator {
                    cands.push((h, 0));
                }
                cands.extend((1..s).map(|x| (h, x)));
            }
        }
    }
    if cands.is_empty() {
        return vec![];
    }
    let mut out = vec![src.pick(&cands)];
    if src.chance(1, 5) {
        let o = src.pick(&cands);
        if !out.contains(&o) {
            out.push(o);
        }
    }
    out
}

/// next request: biased towards nodes where the request is valid in the model's first world
fn gen_op(src: &mut Src<'_>, w: &World, s: usize) -> Op {
    let held = w.create_pending();
    let kinds: &[(u64, u8)] = &[(14, 0), (7, 1), (if s > 1 { 6 } else { 1 }, 2), (22, 3), (7, 4), (if s > 1 { 4 } else { 1 }, 5), (16, 6), (10, 7), (if held { 25 } else { 0 }, 8)];
    let total: u64 = kinds.iter().map(|k| k.0).sum();
    let mut r = src.below(total);
    let mut kind = 0u8;
    for (wgt, k) in kinds {
        if r < *wgt {
            kind = *k;
            break;
        }
        r -= wgt;
    }
    let all: Vec<(usize, usize)> = (0..3).flat_map(|h| (0..s).map(move |x| (h, x))).collect();
    let mut pick_node = |src: &mut Src<'_>, valid: &dyn Fn(usize, usize) -> bool| -> (usize, usize) {
        let good: Vec<(usize, usize)> = all.iter().copied().filter(|(h, x)| valid(*h, *x)).collect();
        if !good.is_empty() && src.chance(3, 4) { src.pick(&good) } else { src.pick(&all) }
    };
    match kind {
        0 if !held => {
            let (h, x) = pick_node(src, &|h, x| x == 0 && w.st(h, 0) == St::None);
            let cfg = gen_cfg(src);
            let rejects = gen_rejects(src, s, h, None);
            let hold = src.chance(1, 5) && x == 0;
            Op::NewQuery { h, s: x, cfg, rejects, hold }
        }
        0 | 1 => {
            let (h, x) = pick_node(src, &|h, x| x == 0 && w.st(h, 0) == St::None);
            let c = if src.chance(1, 8) { h } else { (h + 1 + src.idx(2)) % 3 };
            let cfg = gen_cfg(src);
            let mut rejects = gen_rejects(src, s, c, Some(h));
            if held {
                rejects.clear();
            }
            Op::PrepareHelper { h, s: x, c, cfg, rejects }
        }
        2 => {
            let (h, x) = pick_node(src, &|h, x| x != 0 && w.st(h, x) == St::None);
            Op::PrepareShard { h, s: x, c: (h + 1 + src.idx(2)) % 3, cfg: gen_cfg(src) }
        }
        3 => {
            let (h, x) = pick_node(src, &|h, x| w.st(h, x) == St::AwaitingInputs);
            Op::Inputs { h, s: x, k: src.idx(4) }
        }
        4 => {
            let (h, x) = pick_node(src, &|h, x| x == 0 && w.st(h, 0) != St::None);
            Op::Status { h, s: x }
        }
        5 => {
            let (h, x) = pick_node(src, &|h, x| x != 0 && w.st(h, x) != St::None);
            let claimed = if src.chance(1, 2) && w.st(h, x) != St::None { w.st(h, x) } else { St::of(src.pick(&ALL_STATUS)) };
            Op::ShardStatus { h, s: x, claimed }
        }
        6 => {
            let (h, x) = pick_node(src, &|h, x| matches!(w.st(h, x), St::Running | St::Completed));
            Op::Complete { h, s: x }
        }
        7 => {
            let (h, x) = pick_node(src, &|h, x| w.st(h, x) != St::None);
            Op::Kill { h, s: x }
        }
        _ => Op::Release,
    }
}

fn finish(it: Interp<'_>, truncated: Option<String>, counted: usize, extra: Vec<String>) -> CaseResult {
    let s = it.glob.s;
    let mut labels: Vec<String> = it.stats.labels.iter().cloned().collect();
    labels.push(format!("shards:{s}"));
    labels.push(format!("reached:{}", it.stats.max_st.name()));
    labels.push(format!("history_len:{counted}"));
    if it.stats.invalid > 0 {
        labels.push("has_invalid_request".into());
    }
    if it.stats.handed_out > 0 {
        labels.push("result_handed_out".into());
    }
    if it.stats.created_after_handout {
        labels.push("new_query_after_handout".into());
    }
    if it.stats.registered_after_handout {
        labels.push("same_node_registered_again_after_handout".into());
    }
    if it.glob.resets > 0 {
        labels.push("had_removal".into());
    }
    if let Some(t) = &truncated {
        labels.push(format!("truncated:{t}"));
    } else {
        labels.push("ran_to_end".into());
    }
    labels.extend(extra);
    let nontrivial = it.stats.max_st >= St::AwaitingInputs;
    let sample = case_json(&it.stats.log, s);
    let dig = digest(&format!("{}", sample));
    it.teardown();
    Ok(CaseOk::new(nontrivial, &dig, sample).labels(labels))
}

// ------------------------------------------------------------------------------------------
// sub-check: generated histories
// ------------------------------------------------------------------------------------------

fn histories(env: &Env, src: &mut Src<'_>) -> CaseResult {
    install_hook();
    let _ = take_panics();
    let s = match src.below(20) {
        0..=9 => 1,
        10..=16 => 2,
        _ => 3,
    };
    let max_len = if env.thorough() { 10 } else { 7 };
    run_quiescent(|q| async move {
        let mut it = Interp::new(env, q, s);
        let mut truncated = None;
        // prefix (not counted): reach a deeper start state through the same API
        let stage = src.below(5);
        let mut prefix: Vec<Op> = vec![];
        if stage >= 1 {
            let c = src.idx(3);
            let cfg = gen_cfg(src);
            prefix.push(Op::NewQuery { h: c, s: 0, cfg, rejects: vec![], hold: false });
            if stage >= 2 {
                for h in 0..3 {
                    for x in 0..s {
                        if stage >= 3 || src.chance(1, 2) {
                            prefix.push(Op::Inputs { h, s: x, k: 1 });
                        }
                    }
                }
            }
            if stage == 4 {
                // a whole first query, results collected on every helper
                for h in 0..3 {
                    prefix.push(Op::Complete { h, s: 0 });
                }
            }
        }
        'outer: {
            for op in &prefix {
                if let StepEnd::Truncate(t) = it.run_op(op, false).await? {
                    truncated = Some(format!("prefix:{t}"));
                    break 'outer;
                }
            }
            let len = src.urange(1, max_len);
            let mut counted = 0;
            for _ in 0..len {
                let op = gen_op(src, &it.worlds[0], s);
                counted += 1;
                if let StepEnd::Truncate(t) = it.run_op(&op, true).await? {
                    truncated = Some(t);
                    break;
                }
            }
            if truncated.is_none() && it.worlds.iter().any(World::create_pending) {
                if let StepEnd::Truncate(t) = it.run_op(&Op::Release, false).await? {
                    truncated = Some(t);
                }
            }
            let labels = vec![format!("prefix_stage:{stage}")];
            return finish(it, truncated, counted, labels);
        }
        finish(it, truncated, 0, vec![format!("prefix_stage:{stage}")])
    })
}

// ------------------------------------------------------------------------------------------
// sub-check: status of a sharded helper = least advanced status among its shards
// ------------------------------------------------------------------------------------------

const TARGETS: [St; 5] = [St::None, St::AwaitingInputs, St::Running, St::AwaitingCompletion, St::Completed];

fn rank(s: St) -> usize {
    s as usize
}

fn sharded_status(env: &Env, src: &mut Src<'_>) -> CaseResult {
    install_hook();
    let _ = take_panics();
    let i = u64::from(src.raw()) | (u64::from(src.raw()) << 32);
    // decode: helper (3) x leader target (4: no AwaitingCompletion) x shard1 (5) x shard2 (5)
    let h = (i % 3) as usize;
    let lead = [St::None, St::AwaitingInputs, St::Running, St::Completed][(i / 3 % 4) as usize];
    let t1 = TARGETS[(i / 12 % 5) as usize];
    let t2 = TARGETS[(i / 60 % 5) as usize];
    let targets = [lead, t1, t2];
    let s = 3;
    run_quiescent(|q| async move {
        let mut it = Interp::new(env, q, s);
        // which nodes need a query, and in which state
        let mut need: Vec<Vec<Option<St>>> = vec![vec![None; s]; 3];
        for (x, t) in targets.iter().enumerate() {
            if *t != St::None {
                need[h][x] = Some(*t);
                if *t == St::Completed {
                    // the task of (h,x) can only finish if both peer helpers run shard x too
                    for p in 0..3 {
                        if p != h {
                            need[p][x] = Some(St::Running);
                        }
                    }
                }
            }
        }
        // create on helper h (registers the query on all nine nodes), drop it where not wanted
        let mut script: Vec<Op> = vec![Op::NewQuery { h, s: 0, cfg: Cfg::Add, rejects: vec![], hold: false }];
        for p in 0..3 {
            for x in 0..s {
                if need[p][x].is_none() {
                    script.push(Op::Kill { h: p, s: x });
                }
            }
        }
        for p in 0..3 {
            for x in 0..s {
                if matches!(need[p][x], Some(St::Running | St::AwaitingCompletion | St::Completed)) {
                    script.push(Op::Inputs { h: p, s: x, k: 2 });
                }
            }
        }
        for x in 1..s {
            if targets[x] == St::AwaitingCompletion {
                script.push(Op::Complete { h, s: x });
            }
        }
        let mut truncated = None;
        for op in &script {
            if let StepEnd::Truncate(t) = it.step(op, true).await? {
                truncated = Some(t);
                break;
            }
        }
        if truncated.is_none() {
            // the request under test, with an expectation computed here from the targets alone
            let before = it.stats.log.len();
            if let StepEnd::Truncate(t) = it.step(&Op::Status { h, s: 0 }, true).await? {
                truncated = Some(t);
            } else {
                let resp = it.stats.log[before]["response"].as_str().unwrap_or("").to_string();
                let expect = if targets[0] == St::None {
                    "Err(NoSuchQuery)".to_string()
                } else if targets.iter().any(|t| *t == St::None) {
                    "Err(ShardRejected)".to_string()
                } else {
                    let least = targets.iter().copied().min_by_key(|t| rank(*t)).unwrap();
                    format!("Ok({})", least.name())
                };
                if resp != expect {
                    return Err(it.viol(
                        format!("sharded-status:expected={expect}:got={resp}"),
                        format!("helper {h} with shard states {:?} answered {resp} to query_status; the least advanced status is {expect}", targets.iter().map(|t| t.name()).collect::<Vec<_>>()),
                    ));
                }
            }
            // and the shards report exactly their own states
            if truncated.is_none() {
                if let StepEnd::Truncate(t) = it.probes().await? {
                    truncated = Some(t);
                }
            }
        }
        let l = format!("tuple:{}", targets.iter().map(|t| t.name()).collect::<Vec<_>>().join(","));
        finish(it, truncated, script.len() + 1, vec![l])
    })
}

// ------------------------------------------------------------------------------------------
// sub-check: a creation that fails on one shard of a helper (S = 3)
// ------------------------------------------------------------------------------------------

fn failed_create(env: &Env, src: &mut Src<'_>) -> CaseResult {
    install_hook();
    let _ = take_panics();
    let i = u64::from(src.raw()) | (u64::from(src.raw()) << 32);
    let h = (i % 3) as usize;
    let rejecting = 1 + (i / 3 % 2) as usize;
    let via_new_query = i / 6 % 2 == 0;
    let injected = i / 12 % 2 == 0;
    let s = 3;
    run_quiescent(|q| async move {
        let mut it = Interp::new(env, q, s);
        let c = (h + 1) % 3;
        let mut script = vec![];
        let rejects = if injected {
            vec![(h, rejecting)]
        } else {
            // the shard refuses by itself: it already holds a query
            script.push(Op::PrepareShard { h, s: rejecting, c, cfg: Cfg::Mul });
            vec![]
        };
        script.push(if via_new_query {
            Op::NewQuery { h, s: 0, cfg: Cfg::Add, rejects, hold: false }
        } else {
            Op::PrepareHelper { h, s: 0, c, cfg: Cfg::Add, rejects }
        });
        // and a second attempt: would succeed if the first one had left no trace
        if !injected {
            script.push(Op::Kill { h, s: rejecting });
        }
        script.push(if via_new_query {
            Op::NewQuery { h, s: 0, cfg: Cfg::Add, rejects: vec![], hold: false }
        } else {
            Op::PrepareHelper { h, s: 0, c, cfg: Cfg::Add, rejects: vec![] }
        });
        let mut truncated = None;
        for op in &script {
            if let StepEnd::Truncate(t) = it.run_op(op, true).await? {
                truncated = Some(t);
                break;
            }
        }
        let n = script.len();
        let retry = it.stats.log.iter().rev().find(|e| e.get("role").is_none()).and_then(|e| e["response"].as_str().map(str::to_string)).unwrap_or_default();
        let labels = vec![
            format!("via:{}", if via_new_query { "new_query" } else { "prepare_helper" }),
            format!("rejection:{}", if injected { "injected" } else { "shard_busy" }),
            format!("retry_answer:{}", retry.split('(').next().unwrap_or("")),
        ];
        finish(it, truncated, n, labels)
    })
}

// ------------------------------------------------------------------------------------------
// sub-check: complete on a leader whose shard is not ready
// ------------------------------------------------------------------------------------------

fn failed_complete(env: &Env, src: &mut Src<'_>) -> CaseResult {
    install_hook();
    let _ = take_panics();
    let i = u64::from(src.raw()) | (u64::from(src.raw()) << 32);
    let s = 2 + (i % 2) as usize;
    let shard_state = [St::None, St::AwaitingInputs, St::AwaitingCompletion][(i / 2 % 3) as usize];
    let leader_finished = i / 6 % 2 == 1;
    let h = (i / 12 % 3) as usize;
    run_quiescent(|q| async move {
        let mut it = Interp::new(env, q, s);
        let peers: Vec<usize> = (0..3).filter(|p| *p != h).collect();
        let mut script = vec![Op::NewQuery { h, s: 0, cfg: Cfg::Add, rejects: vec![], hold: false }, Op::Inputs { h, s: 0, k: 2 }];
        if leader_finished {
            for &p in &peers {
                script.push(Op::Inputs { h: p, s: 0, k: 2 });
            }
        }
        match shard_state {
            St::None => script.push(Op::Kill { h, s: 1 }),
            St::AwaitingCompletion => {
                script.push(Op::Inputs { h, s: 1, k: 2 });
                script.push(Op::Complete { h, s: 1 });
            }
            _ => {}
        }
        if s == 3 {
            // the third shard is ready (its task has finished)
            for p in 0..3 {
                script.push(Op::Inputs { h: p, s: 2, k: 2 });
            }
        }
        let mut truncated = None;
        for op in &script {
            if let StepEnd::Truncate(t) = it.step(op, true).await? {
                truncated = Some(format!("setup:{t}"));
                break;
            }
        }
        let mut labels = vec![format!("shard_state:{}", shard_state.name()), format!("leader_task_finished:{leader_finished}")];
        if truncated.is_none() {
            if let StepEnd::Truncate(t) = it.probes_except(Some((h, 0))).await? {
                truncated = Some(format!("setup:{t}"));
            }
        }
        if truncated.is_none() {
            let before = it.stats.log.len();
            // reports `failed-complete-forgets-query:leader` itself when the leader forgot the query
            let end = it.step(&Op::Complete { h, s: 0 }, true).await?;
            let resp = it.stats.log[before]["response"].as_str().unwrap_or("").to_string();
            labels.push(format!("complete_answer:{}", resp.split('(').next().unwrap_or("")));
            match end {
                StepEnd::Truncate(t) => truncated = Some(t),
                StepEnd::Continue => labels.push("modelled".into()),
            }
            if resp.starts_with("Ok") && truncated.is_some() {
                return Err(it.viol(
                    "complete-accepted-with-unready-shard".into(),
                    format!("complete on helper {h} was answered {resp} although its shard 1 is {}", shard_state.name()),
                ));
            }
            if !leader_finished && resp.starts_with("Err") {
                // let the (possibly orphaned) task of the leader finish: start its peers
                let mut panics = vec![];
                for &p in &peers {
                    let (_, pn) = it.raw(&Op::Inputs { h: p, s: 0, k: 2 }).await;
                    panics.extend(pn);
                }
                if let Some((l, m)) = panics.iter().find(|(l, _)| l.contains("query/executor.rs")) {
                    labels.push("task_panicked_after_failed_complete".into());
                    known_or_violation(
                        env,
                        &format!("task-panic-after-failed-complete:{}", loc_file(l)),
                        format!("after complete on the leader of helper {h} failed (a shard was not ready) the leader's query task ran to its end, returned a result and then panicked at {l}: {}", &m[..m.len().min(160)]),
                        case_json(&it.stats.log, s),
                    )?;
                }
            }
        }
        let n = script.len() + 1;
        finish(it, truncated, n, labels)
    })
}

// ------------------------------------------------------------------------------------------
// sub-check: min_status over all tuples
// ------------------------------------------------------------------------------------------

fn min_status_all(_env: &Env, src: &mut Src<'_>) -> CaseResult {
    let i = u64::from(src.raw()) | (u64::from(src.raw()) << 32);
    // 25 pairs, then 125 triples, then 625 quadruples
    let (n, mut code) = if i < 25 { (2, i) } else if i < 150 { (3, i - 25) } else { (4, i - 150) };
    let mut tuple = vec![];
    for _ in 0..n {
        tuple.push(ALL_STATUS[(code % 5) as usize]);
        code /= 5;
    }
    let order = |s: QueryStatus| ALL_STATUS.iter().position(|x| *x == s).unwrap();
    let expect = tuple.iter().copied().min_by_key(|s| order(*s)).unwrap();
    let fold_l = tuple.iter().copied().reduce(min_status).unwrap();
    let fold_r = tuple.iter().rev().copied().reduce(|a, b| min_status(b, a)).unwrap();
    let case = json!({"tuple": tuple.iter().map(|s| format!("{s:?}")).collect::<Vec<_>>()});
    if fold_l != expect || fold_r != expect {
        return Err(violation(
            format!("min-status:{n}"),
            format!("min_status folded over {tuple:?} gives {fold_l:?} / {fold_r:?}; the least advanced status is {expect:?}"),
            case,
        ));
    }
    if n == 2 {
        let (a, b) = (tuple[0], tuple[1]);
        if min_status(a, b) != min_status(b, a) || min_status(a, a) != a {
            return Err(violation("min-status:laws", format!("min_status is not commutative/idempotent on {a:?},{b:?}"), case));
        }
    }
    let distinct = tuple.iter().any(|s| *s != tuple[0]);
    Ok(CaseOk::new(distinct, &tuple.iter().map(|s| order(*s)).collect::<Vec<_>>(), case).label(format!("arity:{n}")))
}

pub fn subs(_env: &Env) -> Vec<Sub> {
    vec![
        Sub::exhaustive("min_status", 775, 775, min_status_all,
            "all 25 pairs, 125 triples and 625 quadruples of statuses: folding min_status in either direction gives the least advanced status in the order preparing < awaiting inputs < running < awaiting completion < completed; commutative, idempotent; non-trivial = not all equal"),
        Sub::exhaustive("sharded_status", 300, 300, sharded_status,
            "a helper with 3 shards, every combination of {none, awaiting inputs, running, completed} on the leader and {none, awaiting inputs, running, awaiting completion, completed} on each of the two other shards, on each of the 3 helpers, reached through real API requests on real processors (peers started where a task has to finish): query_status on the leader = least advanced status (expectation computed from the target tuple), NoSuchQuery / error when the leader / a shard has no query; non-trivial = leader has a query")
            .streams(8),
        Sub::exhaustive("failed_create", 24, 24, failed_create,
            "helper h in 0..3 with 3 shards; new_query (coordinator) or prepare_helper (follower) while shard 1 or 2 of that helper refuses the prepare request (injected rejection, or the shard already holds a query), then a second attempt; the lifecycle model (creation that fails leaves nothing behind, or - flagged - leaves the accepting shards registered) decides; every node is probed after every request")
            .streams(4),
        Sub::exhaustive("failed_complete", 36, 36, failed_complete,
            "helper h in 0..3 with S in {2,3} shards, leader running (task unfinished / finished), shard 1 in {no query, awaiting inputs, awaiting completion}, a third shard ready: complete on the leader must be refused (the helper as a whole is not ready), must leave the leader's query registered, and the leader's task must not panic when it later returns its result")
            .streams(4),
        Sub::random("histories", 96, 24_000, 600_000, histories,
            "3 helpers x S in {1,2,3} shards of real HelperApps on in-memory networks; optional uncounted prefix (create / create+some inputs / create+all inputs / a complete first query with results collected) then 1..7 (thorough: 1..10) requests from {new_query (peer/shard rejections injected, optionally with the peers' answers held back so that Preparing is observable), prepare_helper, prepare_shard, receive_inputs, query_status, shard_status, complete, kill, release} on any helper/shard, biased 3:1 to nodes where the request is valid; query tasks return Ok (test-add, test-multiply) or Err (hybrid with unsupported option); after every request every node's status is probed; response class, reported status, pending/answered calls are compared with a powerset reference model; non-trivial = some node reached at least awaiting inputs")
            .shrink_iters(300),
    ]
}
