// C19 - resharding moves each record to its chosen shard once, in the same order on all helpers.
//
// `reshard_try_stream` / `reshard_stream` / `reshard_iter` are run on every helper-shard of a
// `TestWorld<WithShards<S>>` (S in {1,2,3,5}); the harness drives the 3*S futures itself, so
// every helper-shard has its own outcome, its own start delay and its own input-stream timing.
//
// Oracle (from the doc comment inside `reshard_try_stream`: "Each shard will hold the records in
// this order: [shard_0_records], [shard_1_records], ..., [shard_N]" and the property text): after
// resharding, shard d of helper h holds exactly
//     concat_{s = 0..S-1} [ r in input(h, s), in input order : pick(r) = d ]
// - nothing lost, nothing duplicated, nothing on another shard - and because the expectation is
// built from the same (source shard, position) sequence for the three helpers, replicated shares
// stay aligned. An `Err` item of the input stream, or a shard-to-shard byte stream that is cut in
// the middle of a record / carries an undecodable record, must give `Err` on that shard.

use std::{
    collections::{BTreeMap, VecDeque},
    panic::AssertUnwindSafe,
    pin::Pin,
    sync::{Arc, Mutex},
    task::{Context as TaskCx, Poll},
    time::Duration,
};

use futures::{FutureExt, Stream, StreamExt, stream, stream::FuturesUnordered};
use rand::{Rng, SeedableRng, rngs::StdRng};
use serde_json::{Value, json};

use super::common::*;
use crate::{
    error::Error,
    ff::{
        U128Conversions,
        boolean_array::{BA3, BA8, BA64},
    },
    helpers::{
        Direction, HelperIdentity, Message,
        in_memory_config::{DynStreamInterceptor, InspectContext},
    },
    protocol::{
        RecordId,
        context::{Context, ShardedContext, reshard_iter, reshard_stream, reshard_try_stream},
    },
    report::hybrid::PrfHybridReport,
    secret_sharing::replicated::{ReplicatedSecretSharing, semi_honest::AdditiveShare as Replicated},
    sharding::{ShardConfiguration, ShardIndex},
    test_fixture::{TestWorld, TestWorldConfig, WithShards},
};

pub const LEVEL: &str = "exploration";

// ------------------------------------------------------------------------------------------
// records
// ------------------------------------------------------------------------------------------

/// One input record in the clear: a public part and three additive (xor) shares of the secret
/// part. Helper h holds (shares[h], shares[h+1]).
#[derive(Clone, Debug)]
pub struct Plain {
    pub public: u64,
    pub shares: [u128; 3],
}

/// canonical view of the copy of a record held by one helper: (left share, right share, public)
pub type View = (u128, u128, u64);

pub trait Rec: Message + Clone + Unpin {
    const NAME: &'static str;
    const SIZE: usize;
    fn build(p: &Plain, helper: usize) -> Self;
    fn view(&self) -> View;
}

/// 64-bit replicated share (what the sharded shuffle reshards); the secret encodes nothing the
/// picker could see, so selection is by position / PRSS / table.
impl Rec for Replicated<BA64> {
    const NAME: &'static str = "Replicated<BA64>";
    const SIZE: usize = 16;
    fn build(p: &Plain, h: usize) -> Self {
        let m = u128::from(u64::MAX);
        Replicated::new(BA64::truncate_from(p.shares[h] & m), BA64::truncate_from(p.shares[(h + 1) % 3] & m))
    }
    fn view(&self) -> View {
        (self.left().as_u128(), self.right().as_u128(), 0)
    }
}

/// the record type resharded by PRF value in `compute_prf_and_reshard`: public 64-bit match-key
/// pseudonym + shares of value (3 bits) and breakdown key (8 bits). 12 bytes on the wire, with a
/// fallible decoding (padding bits of the 3-bit value).
impl Rec for PrfHybridReport<BA8, BA3> {
    const NAME: &'static str = "PrfHybridReport<BA8,BA3>";
    const SIZE: usize = 12;
    fn build(p: &Plain, h: usize) -> Self {
        let l = p.shares[h];
        let r = p.shares[(h + 1) % 3];
        PrfHybridReport {
            match_key: p.public,
            value: Replicated::new(BA3::truncate_from(l & 7), BA3::truncate_from(r & 7)),
            breakdown_key: Replicated::new(BA8::truncate_from((l >> 3) & 0xff), BA8::truncate_from((r >> 3) & 0xff)),
        }
    }
    fn view(&self) -> View {
        (
            self.value.left().as_u128() | (self.breakdown_key.left().as_u128() << 3),
            self.value.right().as_u128() | (self.breakdown_key.right().as_u128() << 3),
            self.match_key,
        )
    }
}

#[derive(Clone, Copy, Debug, PartialEq, Eq, Hash)]
pub enum RecType {
    Share64,
    PrfReport,
}

impl RecType {
    fn size(self) -> usize {
        match self {
            RecType::Share64 => 16,
            RecType::PrfReport => 12,
        }
    }
    fn view(self, p: &Plain, h: usize) -> View {
        match self {
            RecType::Share64 => <Replicated<BA64> as Rec>::build(p, h).view(),
            RecType::PrfReport => <PrfHybridReport<BA8, BA3> as Rec>::build(p, h).view(),
        }
    }
}

// ------------------------------------------------------------------------------------------
// case description
// ------------------------------------------------------------------------------------------

#[derive(Clone, Copy, Debug, PartialEq, Eq, Hash)]
pub enum Api {
    TryStream,
    Stream,
    Iter,
    /// `query::runner::reshard_tag::reshard_aad`: the stream yields (position, record) pairs, the
    /// positions stay on the shard, the records are resharded
    Aad,
}

#[derive(Clone, Debug, PartialEq, Eq, Hash)]
pub enum Mode {
    /// every record goes to one shard
    AllToOne(usize),
    /// (record_id + offset) mod S - the selection the crate's own tests use
    RoundRobin(usize),
    /// every record stays where it is
    Keep,
    /// `ctx.pick_shard(record_id, direction)` as the sharded shuffle does. Helper `pair` uses the
    /// right PRSS, helper `pair+1` the left one (the two helpers that share that randomness), the
    /// third helper its right one.
    Prss(usize),
    /// table[source shard][position]
    Table(Vec<Vec<usize>>),
    /// public part of the record mod S (`report.match_key % ctx.shard_count()`)
    ByValue,
}

impl Mode {
    fn name(&self) -> &'static str {
        match self {
            Mode::AllToOne(_) => "all-to-one",
            Mode::RoundRobin(_) => "round-robin",
            Mode::Keep => "keep",
            Mode::Prss(_) => "prss-random",
            Mode::Table(_) => "table",
            Mode::ByValue => "by-value",
        }
    }
}

#[derive(Clone, Debug, Default)]
pub struct Timing {
    /// `yield_now` calls before the helper-shard starts resharding
    pub start: u8,
    /// number of `Pending` returns (with immediate wake) before item k (cyclic)
    pub item: Vec<u8>,
}

#[derive(Clone, Debug)]
pub struct StreamErr {
    pub helper: usize,
    pub shard: usize,
    /// number of `Ok` items that precede the `Err` item
    pub pos: usize,
    pub kind: u8,
}

#[derive(Clone, Debug)]
pub enum ChunkEdit {
    /// drop the last k bytes of the chunk (k is not a multiple of the record size)
    CutTail(usize),
    /// make the record at this index of the chunk undecodable (PrfReport only: set a padding bit
    /// of the 3-bit value)
    BadPadding(usize),
}

#[derive(Clone, Debug)]
pub struct TransportFault {
    pub helper: usize,
    pub from: usize,
    pub to: usize,
    pub ordinal: usize,
    pub edit: ChunkEdit,
}

#[derive(Clone, Debug)]
pub struct Spec {
    pub shards: usize,
    pub counts: Vec<usize>,
    pub rec: RecType,
    pub api: Api,
    pub mode: Mode,
    /// by how much the stream's upper size bound overstates the number of records (per shard)
    pub hint_extra: Vec<usize>,
    pub malicious: bool,
    pub workers: usize,
    /// 0 = default
    pub active: u32,
    pub read_size: usize,
    pub world_seed: u64,
    pub data_seed: u64,
    /// [helper][shard]
    pub timing: Vec<Vec<Timing>>,
    pub stream_err: Vec<StreamErr>,
    pub fault: Option<TransportFault>,
    pub timeout: Duration,
}

impl Spec {
    pub fn json(&self) -> Value {
        json!({
            "shards": self.shards, "counts": self.counts, "rec": format!("{:?}", self.rec), "api": format!("{:?}", self.api),
            "mode": match &self.mode { Mode::Table(t) => json!({"table": t}), m => json!(format!("{m:?}")) },
            "hint_extra": self.hint_extra, "malicious": self.malicious, "workers": self.workers, "active": self.active,
            "read_size": self.read_size, "world_seed": self.world_seed.to_string(), "data_seed": self.data_seed.to_string(),
            "timing": self.timing.iter().map(|per| per.iter().map(|t| json!([t.start, t.item])).collect::<Vec<_>>()).collect::<Vec<_>>(),
            "stream_err": self.stream_err.iter().map(|e| json!({"helper": e.helper, "shard": e.shard, "pos": e.pos, "kind": e.kind})).collect::<Vec<_>>(),
            "fault": self.fault.as_ref().map(|f| json!({"helper": f.helper, "from": f.from, "to": f.to, "ordinal": f.ordinal, "edit": format!("{:?}", f.edit)})),
        })
    }
    pub fn total(&self) -> usize {
        self.counts.iter().sum()
    }
}

pub fn make_plains(spec: &Spec) -> Vec<Vec<Plain>> {
    let mut rng = StdRng::seed_from_u64(spec.data_seed);
    spec.counts
        .iter()
        .enumerate()
        .map(|(s, n)| {
            (0..*n)
                .map(|j| {
                    // public part: (source shard, position) in the top bits, random low bits
                    let noise: u64 = rng.r#gen::<u64>() & 0xff_ffff_ffff;
                    Plain { public: ((s as u64) << 56) | ((j as u64) << 40) | noise, shares: [rng.r#gen(), rng.r#gen(), rng.r#gen()] }
                })
                .collect()
        })
        .collect()
}

fn prss_direction(pair: usize, helper: usize) -> Direction {
    if helper == (pair + 1) % 3 { Direction::Left } else { Direction::Right }
}

/// The selection as the oracle computes it (None for PRSS, where the selection is an output of
/// the world and is taken from the log of the picker).
fn pick_model(spec: &Spec, plains: &[Vec<Plain>], s: usize, j: usize) -> Option<usize> {
    let n = spec.shards;
    match &spec.mode {
        Mode::AllToOne(d) => Some(*d),
        Mode::RoundRobin(off) => Some((j + off) % n),
        Mode::Keep => Some(s),
        Mode::Prss(_) => None,
        Mode::Table(t) => Some(t[s][j]),
        Mode::ByValue => Some((plains[s][j].public % n as u64) as usize),
    }
}

// ------------------------------------------------------------------------------------------
// input stream with generated timing, size hint and failure position
// ------------------------------------------------------------------------------------------

enum Item<K> {
    Rec(K),
    Fail(u8),
}

pub struct GenStream<K> {
    items: VecDeque<Item<K>>,
    extra: usize,
    delays: Vec<u8>,
    k: usize,
    wait: u8,
    armed: bool,
}

/// number of distinct failures `make_error` can build
const N_ERROR_KINDS: u64 = 24;

/// The failures an input stream can report: the variants the record parsers and upstream
/// protocol steps produce (I/O errors of every common kind - a body that breaks mid-upload is
/// reported as `UnexpectedEof` -, parse and length errors, validation failures, ...). The
/// property is about *any* error, so the generator spreads over all of them.
fn make_error(kind: u8) -> Error {
    use std::io::{Error as IoError, ErrorKind as K};
    let io = |k: K| Error::Io(IoError::new(k, "generated input failure"));
    match u64::from(kind) % N_ERROR_KINDS {
        0 => Error::InconsistentShares,
        1 => Error::ZeroRecords,
        2 => Error::Unsupported("generated input failure".into()),
        3 => io(K::UnexpectedEof),
        4 => io(K::InvalidData),
        5 => io(K::WriteZero),
        6 => io(K::ConnectionReset),
        7 => io(K::BrokenPipe),
        8 => io(K::TimedOut),
        9 => io(K::Interrupted),
        10 => io(K::WouldBlock),
        11 => io(K::Other),
        12 => io(K::ConnectionAborted),
        13 => Error::ParseError("generated input failure".into()),
        14 => Error::InvalidQueryParameter("generated input failure".into()),
        15 => Error::FieldValueTruncation("generated input failure".into()),
        16 => Error::DZKPValidationFailed,
        17 => Error::ParallelDZKPValidationFailed,
        18 => Error::MaliciousSecurityCheckFailed,
        19 => Error::RecordIdOutOfRange { record_id: crate::protocol::RecordId::from(0u32), total_records: 0 },
        20 => Error::Internal,
        21 => Error::ShuffleValidationFailed("generated input failure".into()),
        22 => Error::DuplicateBytes(1),
        _ => Error::Io(IoError::from(K::UnexpectedEof)),
    }
}

fn error_variant(e: &Error) -> String {
    let d = format!("{e:?}");
    d.split(|c: char| !(c.is_alphanumeric() || c == '_')).next().unwrap_or("").to_string()
}

impl<K: Unpin> Stream for GenStream<K> {
    type Item = Result<K, Error>;

    fn poll_next(self: Pin<&mut Self>, cx: &mut TaskCx<'_>) -> Poll<Option<Self::Item>> {
        let this = self.get_mut();
        if !this.armed {
            this.armed = true;
            this.wait = if this.delays.is_empty() { 0 } else { this.delays[this.k % this.delays.len()] };
        }
        if this.wait > 0 {
            this.wait -= 1;
            cx.waker().wake_by_ref();
            return Poll::Pending;
        }
        this.armed = false;
        this.k += 1;
        match this.items.pop_front() {
            Some(Item::Rec(k)) => Poll::Ready(Some(Ok(k))),
            Some(Item::Fail(kind)) => Poll::Ready(Some(Err(make_error(kind)))),
            None => Poll::Ready(None),
        }
    }

    fn size_hint(&self) -> (usize, Option<usize>) {
        (0, Some(self.items.len() + self.extra))
    }
}

// ------------------------------------------------------------------------------------------
// interceptor: catalogue of shard-to-shard chunks, optional edit of one chunk
// ------------------------------------------------------------------------------------------

#[derive(Default)]
pub struct NetState {
    /// (helper, from, to) -> chunk lengths in order
    pub chunks: BTreeMap<(usize, usize, usize), Vec<usize>>,
    pub fired: bool,
    pub changed: bool,
    pub mpc_msgs: usize,
}

fn helper_index(h: HelperIdentity) -> usize {
    if h == HelperIdentity::ONE {
        0
    } else if h == HelperIdentity::TWO {
        1
    } else {
        2
    }
}

fn interceptor(state: Arc<Mutex<NetState>>, fault: Option<TransportFault>, rec_size: usize) -> DynStreamInterceptor {
    crate::sync::Arc::new(move |ctx: &InspectContext, data: &mut Vec<u8>| {
        let mut st = state.lock().unwrap();
        match ctx {
            InspectContext::MpcMessage { .. } => st.mpc_msgs += 1,
            InspectContext::ShardMessage { helper, source, dest, .. } => {
                let key = (helper_index(*helper), usize::from(*source), usize::from(*dest));
                let ordinal = {
                    let v = st.chunks.entry(key).or_default();
                    v.push(data.len());
                    v.len() - 1
                };
                if let Some(f) = &fault {
                    if (f.helper, f.from, f.to) == key && f.ordinal == ordinal && !data.is_empty() {
                        st.fired = true;
                        let before = data.clone();
                        match f.edit {
                            ChunkEdit::CutTail(k) => {
                                let k = k.min(data.len());
                                data.truncate(data.len() - k);
                            }
                            ChunkEdit::BadPadding(r) => {
                                let recs = data.len() / rec_size;
                                if recs > 0 {
                                    // byte 8 of a PrfHybridReport is the left share of the 3-bit value
                                    data[(r % recs) * rec_size + 8] |= 0x80;
                                }
                            }
                        }
                        st.changed = *data != before;
                    }
                }
            }
        }
    })
}

// ------------------------------------------------------------------------------------------
// driving the 3*S futures
// ------------------------------------------------------------------------------------------

#[derive(Clone, Debug)]
pub enum Out {
    Ok(Vec<View>),
    Err { variant: String, display: String },
    Panic { loc: String, msg: String },
}

impl Out {
    pub fn describe(&self) -> String {
        match self {
            Out::Ok(v) => format!("Ok({} records)", v.len()),
            Out::Err { variant, display } => format!("Err({variant}: {display})"),
            Out::Panic { loc, msg } => format!("panic at {loc}: {msg}"),
        }
    }
}

pub type Outcomes = Vec<Vec<Option<Out>>>;

pub struct Run {
    /// [helper][shard]
    pub outcomes: Outcomes,
    pub timed_out: bool,
    /// picker log per [helper][shard]: (record id, destination) in call order
    pub picks: Vec<Vec<Vec<(u32, u32)>>>,
    pub chunks: BTreeMap<(usize, usize, usize), Vec<usize>>,
    pub fired: bool,
    pub changed: bool,
    pub elapsed: Duration,
}

impl Run {
    pub fn summary(&self) -> Value {
        json!({
            "timed_out": self.timed_out,
            "outcomes": self.outcomes.iter().map(|per| per.iter().map(|o| o.as_ref().map_or("pending".to_string(), Out::describe)).collect::<Vec<_>>()).collect::<Vec<_>>(),
        })
    }
}

/// Poll the helper-shard futures until `done(outcomes)` holds (then keep polling for `grace` to
/// pick up late finishers), everything has finished, or the timeout expires.
async fn drive_until<'a, F>(futs: Vec<(usize, usize, F)>, shards: usize, timeout: Duration, grace: Duration, done: &(dyn Fn(&Outcomes) -> bool + 'a)) -> (Outcomes, bool)
where
    F: std::future::Future<Output = Result<Vec<View>, Error>> + 'a,
{
    let mut outcomes: Outcomes = vec![vec![None; shards]; 3];
    let mut pending: FuturesUnordered<_> = futs
        .into_iter()
        .map(|(h, s, f)| async move {
            let _ = take_last_panic();
            let r = AssertUnwindSafe(f).catch_unwind().await;
            let o = match r {
                Ok(Ok(v)) => Out::Ok(v),
                Ok(Err(e)) => Out::Err { variant: error_variant(&e), display: e.to_string() },
                Err(p) => {
                    let msg = panic_message(&p);
                    let (loc, m2) = take_last_panic().unwrap_or_else(|| ("?".into(), msg.clone()));
                    Out::Panic { loc: strip_repo_prefix(&loc), msg: if m2.is_empty() { msg } else { m2 } }
                }
            };
            (h, s, o)
        })
        .collect();
    let mut deadline = tokio::time::Instant::now() + timeout;
    let mut timed_out = false;
    let mut in_grace = false;
    loop {
        match tokio::time::timeout_at(deadline, pending.next()).await {
            Ok(Some((h, s, o))) => {
                outcomes[h][s] = Some(o);
                if !in_grace && done(&outcomes) {
                    in_grace = true;
                    deadline = tokio::time::Instant::now() + grace;
                }
            }
            Ok(None) => break,
            Err(_) => {
                timed_out = !in_grace;
                break;
            }
        }
    }
    let _ = catch(move || drop(pending));
    (outcomes, timed_out)
}

fn make_picker<C: ShardedContext, K: Rec>(spec: Arc<Spec>, log: Arc<Mutex<Vec<(u32, u32)>>>, helper: usize) -> impl Fn(C, RecordId, &K) -> ShardIndex {
    move |ctx: C, rid: RecordId, rec: &K| {
        let n = spec.shards as u32;
        let i = u32::from(rid);
        let d: ShardIndex = match &spec.mode {
            Mode::AllToOne(d) => ShardIndex::from(*d as u32),
            Mode::RoundRobin(off) => ShardIndex::from((i + *off as u32) % n),
            Mode::Keep => ctx.shard_id(),
            Mode::Prss(pair) => ctx.pick_shard(rid, prss_direction(*pair, helper)),
            Mode::Table(t) => {
                let s = usize::from(ctx.shard_id());
                // a record id outside the table can only come from a wrong record id; keep the
                // record where it is and let the oracle report the difference
                t[s].get(i as usize).map_or(ctx.shard_id(), |d| ShardIndex::from(*d as u32))
            }
            Mode::ByValue => rec.view().2 % ctx.shard_count(),
        };
        log.lock().unwrap().push((i, u32::from(d)));
        d
    }
}

async fn run_in<const N: usize, K: Rec>(spec: &Spec, plains: &[Vec<Plain>]) -> Run {
    let net = Arc::new(Mutex::new(NetState::default()));
    let mut wc = TestWorldConfig::default();
    wc.seed = spec.world_seed;
    wc.stream_interceptor = interceptor(Arc::clone(&net), spec.fault.clone(), K::SIZE);
    wc.timeout = None;
    if spec.active != 0 {
        wc.gateway_config.active = (spec.active as usize).try_into().unwrap();
    }
    if spec.read_size != 0 {
        wc.gateway_config.read_size = spec.read_size.try_into().unwrap();
    }
    let t0 = std::time::Instant::now();
    let world = TestWorld::<WithShards<N>>::with_shards(&wc);
    let shared = Arc::new(spec.clone());
    let logs: Vec<Vec<Arc<Mutex<Vec<(u32, u32)>>>>> = (0..3).map(|_| (0..N).map(|_| Arc::new(Mutex::new(vec![]))).collect()).collect();

    // which helper-shards are expected to return: every shard of a helper without faults, and on
    // a helper with faults at least one of the shards that must fail (everything else may wait
    // for a failed sibling forever - a second failing stream on the same helper can be stuck in
    // a send towards the shard that has already given up, before it reaches its own Err item)
    let failing_helpers: Vec<usize> = spec.stream_err.iter().map(|e| e.helper).chain(spec.fault.iter().map(|f| f.helper)).collect();
    let is_failing = |h: usize, s: usize| -> bool { spec.stream_err.iter().any(|e| e.helper == h && e.shard == s) || spec.fault.as_ref().is_some_and(|f| f.helper == h && f.to == s) };
    let done = move |o: &Outcomes| {
        (0..3).all(|h| {
            if failing_helpers.contains(&h) {
                (0..N).any(|s| is_failing(h, s) && o[h][s].is_some())
            } else {
                (0..N).all(|s| o[h][s].is_some())
            }
        })
    };
    let any_fault = !spec.stream_err.is_empty() || spec.fault.is_some();
    let grace = if any_fault { Duration::from_millis(3) } else { Duration::from_millis(0) };

    macro_rules! go {
        ($ctxs:expr) => {{
            let mut futs = vec![];
            for (h, hc) in $ctxs.into_iter().enumerate() {
                for (s, ctx) in hc.into_iter().enumerate() {
                    let items: Vec<K> = plains[s].iter().map(|p| K::build(p, h)).collect();
                    let picker = make_picker::<_, K>(Arc::clone(&shared), Arc::clone(&logs[h][s]), h);
                    let timing = spec.timing[h][s].clone();
                    let err = spec.stream_err.iter().find(|e| e.helper == h && e.shard == s).cloned();
                    let api = spec.api;
                    let extra = spec.hint_extra[s];
                    futs.push((h, s, async move {
                        for _ in 0..timing.start {
                            tokio::task::yield_now().await;
                        }
                        let r = match api {
                            Api::TryStream => {
                                let mut q: VecDeque<Item<K>> = items.into_iter().map(Item::Rec).collect();
                                if let Some(e) = &err {
                                    q.insert(e.pos.min(q.len()), Item::Fail(e.kind));
                                }
                                let st = GenStream { items: q, extra, delays: timing.item.clone(), k: 0, wait: 0, armed: false };
                                reshard_try_stream(ctx, st, picker).await
                            }
                            Api::Aad => {
                                let n_local = items.len();
                                let mut q: VecDeque<Item<K>> = items.into_iter().map(Item::Rec).collect();
                                if let Some(e) = &err {
                                    q.insert(e.pos.min(q.len()), Item::Fail(e.kind));
                                }
                                let fails_at = err.as_ref().map(|e| e.pos.min(n_local));
                                let st = GenStream { items: q, extra, delays: timing.item.clone(), k: 0, wait: 0, armed: false };
                                let mut pos = 0u32;
                                let st = st.map(move |r| {
                                    r.map(|k| {
                                        pos += 1;
                                        (pos - 1, k)
                                    })
                                });
                                match crate::query::ipa_verif_h5::reshard_aad(ctx, st, picker).await {
                                    Ok((kept, resharded)) => {
                                        // the local half: every position of this shard's input, in order
                                        // (when the input failed, the oracle reports the Ok itself)
                                        let want: Vec<u32> = (0..n_local as u32).collect();
                                        if kept == want || fails_at.is_some() {
                                            Ok(resharded)
                                        } else {
                                            Err(Error::InvalidQueryParameter(format!("c19-aad-local-half: reshard_aad kept {kept:?}, this shard's input positions are {want:?}").into()))
                                        }
                                    }
                                    Err(e) => Err(e),
                                }
                            }
                            Api::Stream => reshard_stream(ctx, stream::iter(items), picker).await,
                            Api::Iter => reshard_iter(ctx, items, picker).await,
                        };
                        r.map(|v| v.iter().map(Rec::view).collect::<Vec<View>>())
                    }));
                }
            }
            drive_until(futs, N, spec.timeout, grace, &done).await
        }};
    }
    let (outcomes, timed_out) = if spec.malicious { go!(world.malicious_contexts()) } else { go!(world.contexts()) };
    let elapsed = t0.elapsed();
    let _ = catch(move || drop(world));
    let st = net.lock().unwrap();
    let picks = logs.iter().map(|per| per.iter().map(|l| l.lock().unwrap().clone()).collect()).collect();
    Run { outcomes, timed_out, picks, chunks: st.chunks.clone(), fired: st.fired, changed: st.changed, elapsed }
}


/// A case whose futures never yield (a busy loop inside the code under test) cannot be ended by
/// the tokio timeout; this thread ends the process with the "inconclusive" status instead of
/// leaving it to the outer watchdog of ./check.
pub struct Watchdog {
    _tx: std::sync::mpsc::Sender<()>,
}

pub fn watchdog(limit: Duration, what: String) -> Watchdog {
    let (tx, rx) = std::sync::mpsc::channel::<()>();
    std::thread::spawn(move || {
        if let Err(std::sync::mpsc::RecvTimeoutError::Timeout) = rx.recv_timeout(limit) {
            eprintln!("[verif] a case did not return within {limit:?} although its timeout is shorter (future that never yields?) - inconclusive: {what}");
            std::process::exit(2);
        }
    });
    Watchdog { _tx: tx }
}

pub fn run(spec: &Spec, plains: &[Vec<Plain>]) -> Run {
    let _wd = watchdog(spec.timeout * 2 + Duration::from_secs(120), spec.json().to_string());
    macro_rules! with {
        ($s:literal, $k:ty) => {{
            let fut = run_in::<$s, $k>(spec, plains);
            if spec.workers == 0 { block_on(fut) } else { block_on_mt(spec.workers, fut) }
        }};
    }
    macro_rules! by_rec {
        ($s:literal) => {
            match spec.rec {
                RecType::Share64 => with!($s, Replicated<BA64>),
                RecType::PrfReport => with!($s, PrfHybridReport<BA8, BA3>),
            }
        };
    }
    match spec.shards {
        1 => by_rec!(1),
        2 => by_rec!(2),
        3 => by_rec!(3),
        _ => by_rec!(5),
    }
}

// ------------------------------------------------------------------------------------------
// oracle
// ------------------------------------------------------------------------------------------

/// destination of record (s, j) as helper h selected it; Err if the selection cannot be
/// determined (PRSS mode and the picker was not asked about that record)
fn selection(spec: &Spec, plains: &[Vec<Plain>], run: &Run, h: usize) -> Result<Vec<Vec<usize>>, String> {
    let mut sel = vec![];
    for s in 0..spec.shards {
        let mut per = vec![];
        for j in 0..spec.counts[s] {
            let d = match pick_model(spec, plains, s, j) {
                Some(d) => d,
                None => match run.picks[h][s].iter().find(|(rid, _)| *rid as usize == j) {
                    Some((_, d)) => *d as usize,
                    // with a single shard there is only one possible destination: an
                    // implementation need not ask
                    None if spec.shards == 1 => 0,
                    None => return Err(format!("helper {h} shard {s}: the selection function was never asked about record {j}")),
                },
            };
            per.push(d);
        }
        sel.push(per);
    }
    Ok(sel)
}

/// expected[d][s] = views (as held by helper h) of the records of source shard s selected for d
fn expected(spec: &Spec, plains: &[Vec<Plain>], sel: &[Vec<usize>], h: usize) -> Vec<Vec<Vec<View>>> {
    let n = spec.shards;
    let mut e: Vec<Vec<Vec<View>>> = vec![vec![vec![]; n]; n];
    for s in 0..n {
        for j in 0..spec.counts[s] {
            e[sel[s][j]][s].push(spec.rec.view(&plains[s][j], h));
        }
    }
    e
}

fn multiset(v: &[View]) -> BTreeMap<View, usize> {
    let mut m = BTreeMap::new();
    for x in v {
        *m.entry(*x).or_default() += 1;
    }
    m
}

/// Compare what a shard holds with what it must hold; on a difference say which clause of the
/// property is broken.
fn diff_exact(got: &[View], want: &[View]) -> Option<(&'static str, String)> {
    if got == want {
        return None;
    }
    let (g, w) = (multiset(got), multiset(want));
    let missing: usize = w.iter().map(|(k, c)| c.saturating_sub(*g.get(k).unwrap_or(&0))).sum();
    let surplus: usize = g.iter().map(|(k, c)| c.saturating_sub(*w.get(k).unwrap_or(&0))).sum();
    let first = got.iter().zip(want.iter()).position(|(a, b)| a != b).unwrap_or(got.len().min(want.len()));
    let detail = format!("holds {} records, must hold {}; {missing} selected record(s) missing, {surplus} record(s) that were not selected for it (or copies); first difference at index {first}", got.len(), want.len());
    let class = if missing > 0 && surplus == 0 {
        "records-lost"
    } else if surplus > 0 && missing == 0 {
        "records-duplicated-or-misrouted"
    } else if missing > 0 {
        "records-misrouted"
    } else {
        // same multiset in another order: allowed as long as it is the same order on all three
        // helpers (compared by the caller through `arrangement`)
        return None;
    };
    Some((class, detail))
}

/// positions in `want` (the source-shard concatenation, a canonical naming of the records) of the
/// records of `got`, in the order `got` holds them; equal views take the smallest unused position
fn arrangement(got: &[View], want: &[View]) -> Vec<usize> {
    let mut used = vec![false; want.len()];
    got.iter()
        .map(|g| {
            let i = (0..want.len()).find(|i| !used[*i] && want[*i] == *g).unwrap_or(usize::MAX);
            if i != usize::MAX {
                used[i] = true;
            }
            i
        })
        .collect()
}

/// Lenient check for a shard that returned `Ok` although a sibling shard `f` failed: everything
/// from the other sources must be there; of the records `f` selected for it, a prefix.
fn diff_with_failed_source(got: &[View], want_by_src: &[Vec<View>], failed: &[usize]) -> Option<String> {
    // multiset reasoning only (no particular order is part of the property): every record of a
    // healthy source must be there, of a failed source any sub-multiset, and nothing else
    let mut g = multiset(got);
    for (s, w) in want_by_src.iter().enumerate() {
        for v in w {
            match g.get_mut(v) {
                Some(c) if *c > 0 => *c -= 1,
                _ if failed.contains(&s) => {}
                _ => return Some(format!("a record selected for it by (healthy) shard {s} is missing")),
            }
        }
    }
    let extra: usize = g.values().sum();
    if extra != 0 { Some(format!("{extra} record(s) beyond the expected content")) } else { None }
}

fn out_violation(h: usize, s: usize, o: &Out, what: &str, cj: &Value) -> CaseErr {
    match o {
        Out::Panic { loc, msg } => violation(format!("panic:{}", loc_file(loc)), format!("helper {h} shard {s} panicked at {loc}: {msg}"), cj.clone()),
        other => violation(format!("{what}"), format!("helper {h} shard {s}: {}", other.describe()), cj.clone()),
    }
}

struct Checked {
    labels: Vec<String>,
    moved: usize,
    multi_source_dest: bool,
}

/// The oracle for one finished run.
fn check(spec: &Spec, plains: &[Vec<Plain>], run: &Run, cj: &Value) -> Result<Checked, CaseErr> {
    let n = spec.shards;
    let mut labels = vec![];
    // failed sources per helper
    let failed_src = |h: usize| -> Vec<usize> {
        spec.stream_err.iter().filter(|e| e.helper == h).map(|e| e.shard).chain(spec.fault.iter().filter(|f| f.helper == h).map(|f| f.to)).collect()
    };
    let mut sels = vec![];
    // [helper][dest shard] -> order in which the shard holds its records (see `arrangement`)
    let mut orders: Vec<Vec<Option<Vec<usize>>>> = vec![vec![None; n]; 3];
    for h in 0..3 {
        let failed = failed_src(h);
        // any panic is a failure of the case
        for s in 0..n {
            if let Some(o @ Out::Panic { .. }) = &run.outcomes[h][s] {
                return Err(out_violation(h, s, o, "panic", cj));
            }
        }
        // shards that must fail
        for s in &failed {
            match &run.outcomes[h][*s] {
                Some(Out::Err { variant, .. }) => {
                    if let Some(e) = spec.stream_err.iter().find(|e| e.helper == h && e.shard == *s) {
                        labels.push(if *variant == error_variant(&make_error(e.kind)) { "stream-error:same-variant-returned".into() } else { format!("stream-error:returned-{variant}") });
                    } else {
                        labels.push(format!("transport-fault:returned-{variant}"));
                    }
                }
                Some(Out::Ok(v)) => {
                    let (sig, why) = if spec.fault.is_some() {
                        ("transport-fault-swallowed", "its incoming shard-to-shard stream was cut inside a record / carried an undecodable record")
                    } else {
                        ("stream-error-swallowed", "its input stream yielded an Err item")
                    };
                    return Err(violation(sig, format!("helper {h} shard {s} returned Ok({} records) although {why}", v.len()), cj.clone()));
                }
                Some(Out::Panic { .. }) => unreachable!(),
                None => {
                    let other_failed = failed.iter().any(|t| matches!(&run.outcomes[h][*t], Some(Out::Err { .. })));
                    if other_failed {
                        labels.push("second-failing-shard:pending".into());
                    } else {
                        debug_assert!(run.timed_out);
                        debug_timeout(spec, run);
                        return Ok(Checked { labels: vec!["inconclusive:timeout".into()], moved: 0, multi_source_dest: false });
                    }
                }
            }
        }
        if failed.is_empty() && run.outcomes[h].iter().any(Option::is_none) {
            // a healthy helper did not finish before the timeout
            debug_assert!(run.timed_out);
            debug_timeout(spec, run);
            return Ok(Checked { labels: vec!["inconclusive:timeout".into()], moved: 0, multi_source_dest: false });
        }
        // the selection can only be reconstructed completely for helpers without failures
        let sel = match selection(spec, plains, run, h) {
            Ok(s) => s,
            Err(e) => {
                if failed.is_empty() {
                    return Err(violation("selection-not-consulted", e, cj.clone()));
                }
                sels.push(None);
                continue;
            }
        };
        let exp = expected(spec, plains, &sel, h);
        for d in 0..n {
            if failed.contains(&d) {
                continue;
            }
            match &run.outcomes[h][d] {
                Some(Out::Ok(got)) => {
                    if failed.is_empty() {
                        let want: Vec<View> = exp[d].iter().flatten().copied().collect();
                        if let Some((class, detail)) = diff_exact(got, &want) {
                            return Err(violation(class, format!("helper {h} shard {d} {detail} (mode {}, api {:?})", spec.mode.name(), spec.api), cj.clone()));
                        }
                        orders[h][d] = Some(arrangement(got, &want));
                    } else {
                        labels.push("sibling-of-failed-shard:ok".into());
                        if let Some(e) = diff_with_failed_source(got, &exp[d], &failed) {
                            return Err(violation("sibling-of-failed-shard-wrong-content", format!("helper {h} shard {d} returned Ok({} records) while shard(s) {failed:?} failed, but {e}", got.len()), cj.clone()));
                        }
                    }
                }
                Some(Out::Err { variant, display }) => {
                    if failed.is_empty() {
                        return Err(violation(format!("honest-error:{variant}"), format!("helper {h} shard {d} failed without any injected fault: {display}"), cj.clone()));
                    }
                    labels.push("sibling-of-failed-shard:err".into());
                }
                Some(Out::Panic { .. }) => unreachable!(),
                None => labels.push("sibling-of-failed-shard:pending".into()),
            }
        }
        sels.push(Some(sel));
    }
    // the order in which a shard holds its records must be the same on all three helpers (their
    // start delays and stream timings differ within a case), or replicated shares are misaligned.
    // Helpers can only be compared when they selected identically (not under PRSS selection,
    // where each pair of helpers has its own randomness).
    if !matches!(spec.mode, Mode::Prss(_)) {
        for d in 0..n {
            let known: Vec<(usize, &Vec<usize>)> = (0..3).filter_map(|h| orders[h][d].as_ref().map(|o| (h, o))).collect();
            if let Some((h0, o0)) = known.first() {
                for (h, o) in &known[1..] {
                    if o != o0 {
                        return Err(violation("order-differs-between-helpers", format!("shard {d}: helper {h0} holds its records in the arrangement {o0:?} (positions in the source-shard concatenation), helper {h} in {o:?} (mode {}, api {:?})", spec.mode.name(), spec.api), cj.clone()));
                    }
                }
                if o0.iter().enumerate().any(|(i, p)| i != *p) {
                    labels.push("order:not-the-source-shard-concatenation".into());
                }
            }
        }
    }
    // PRSS selection: the two helpers that share the randomness must have selected identically
    // (otherwise their shares of a record end up in different places)
    if let Mode::Prss(pair) = &spec.mode {
        if let (Some(a), Some(b)) = (&sels[*pair], &sels[(*pair + 1) % 3]) {
            if a != b {
                return Err(violation("prss-selection-disagrees", format!("helpers {pair} (right) and {} (left) picked different shards from their common PRSS", (*pair + 1) % 3), cj.clone()));
            }
        }
    }
    let (mut moved, mut multi) = (0, false);
    if let Some(Some(sel)) = sels.iter().find(|s| s.is_some()) {
        for d in 0..n {
            let srcs = (0..n).filter(|s| sel[*s].iter().any(|x| *x == d)).count();
            multi |= srcs >= 2;
        }
        for s in 0..n {
            moved += sel[s].iter().filter(|d| **d != s).count();
        }
    }
    Ok(Checked { labels, moved, multi_source_dest: multi })
}

// ------------------------------------------------------------------------------------------
// generators
// ------------------------------------------------------------------------------------------

#[derive(Clone, Copy, PartialEq, Eq)]
enum Flavor {
    Honest,
    StreamErr,
    Transport,
}

fn gen_spec(env: &Env, src: &mut Src<'_>, flavor: Flavor) -> (Spec, Vec<String>) {
    let mut labels = vec![];
    let shards = match flavor {
        Flavor::Transport => src.pick(&[2usize, 3, 5, 2]),
        _ => src.pick(&[2usize, 3, 5, 1, 2, 3, 5, 2]),
    };
    let max = if env.thorough() { 400 } else { 80 };
    // record counts per source shard
    let class = if flavor == Flavor::Transport { 4 + src.below(6) } else { src.below(10) };
    let mut counts = vec![0usize; shards];
    let count_class = match class {
        0 => "counts:all-empty",
        1 => {
            counts[src.idx(shards)] = 1;
            "counts:single-record"
        }
        2 => {
            for _ in 0..src.urange(0, shards.saturating_sub(1)) {
                counts[src.idx(shards)] += 1;
            }
            "counts:fewer-than-shards"
        }
        3 => {
            counts[src.idx(shards)] = src.urange(2, max);
            "counts:one-source-only"
        }
        4 | 5 => {
            let t = src.urange(2, max);
            for s in 0..shards {
                counts[s] = t / shards + usize::from(s < t % shards);
            }
            "counts:even"
        }
        6 => {
            // skewed: one heavy shard, the rest light
            let t = src.urange(2, max);
            let heavy = src.idx(shards);
            let light = src.urange(0, 3);
            for s in 0..shards {
                counts[s] = if s == heavy { t.saturating_sub(light * (shards - 1)).max(1) } else { light };
            }
            "counts:skewed"
        }
        _ => {
            let t = src.urange(2, max);
            let mut rest = t;
            for s in 0..shards {
                counts[s] = if s + 1 == shards { rest } else { src.urange(0, rest) };
                rest -= counts[s];
            }
            "counts:random-split"
        }
    };
    labels.push(count_class.to_string());
    let total: usize = counts.iter().sum();
    let rec = src.pick(&[RecType::Share64, RecType::PrfReport]);
    let rec = if flavor == Flavor::Transport && src.bool() { RecType::PrfReport } else { rec };
    let api = match flavor {
        Flavor::StreamErr => src.pick(&[Api::TryStream, Api::Aad]),
        _ => src.pick(&[Api::TryStream, Api::Stream, Api::Iter, Api::TryStream, Api::Aad]),
    };
    let mode = match src.below(if rec == RecType::PrfReport { 6 } else { 5 }) {
        0 => Mode::RoundRobin(src.idx(shards)),
        1 => Mode::AllToOne(src.idx(shards)),
        2 => Mode::Keep,
        3 => Mode::Prss(src.idx(3)),
        4 => Mode::Table(counts.iter().map(|n| (0..*n).map(|_| src.idx(shards)).collect()).collect()),
        _ => Mode::ByValue,
    };
    let hint_extra: Vec<usize> = (0..shards).map(|_| if matches!(api, Api::TryStream | Api::Aad) { src.pick(&[0usize, 0, 1, 3, 17, 1000]) } else { 0 }).collect();
    let malicious = src.bool();
    let workers = src.pick(&[0usize, 0, 2, 4]);
    let active = src.pick(&[0u32, 2, 4, 16, 64, 0]);
    let read_size = src.pick(&[0usize, 16, 24, 48, 100, 0]);
    let timing: Vec<Vec<Timing>> = (0..3)
        .map(|_| {
            (0..shards)
                .map(|_| {
                    let start = if src.chance(1, 2) { src.below(12) as u8 } else { 0 };
                    let item = if matches!(api, Api::TryStream | Api::Aad) && src.chance(1, 2) { (0..3).map(|_| src.below(4) as u8).collect() } else { vec![] };
                    Timing { start, item }
                })
                .collect()
        })
        .collect();
    let mut stream_err = vec![];
    if flavor == Flavor::StreamErr {
        let k = if src.chance(1, 4) { 2 } else { 1 };
        for _ in 0..k {
            let helper = src.idx(3);
            let shard = src.idx(shards);
            if stream_err.iter().any(|e: &StreamErr| e.helper == helper && e.shard == shard) {
                continue;
            }
            let pos = match src.below(4) {
                0 => 0,
                1 => counts[shard],
                _ => src.urange(0, counts[shard]),
            };
            stream_err.push(StreamErr { helper, shard, pos, kind: src.below(N_ERROR_KINDS) as u8 });
        }
    }
    let mut hint_extra = hint_extra;
    for e in &stream_err {
        // the failing item is an element of the stream, the bound must cover it
        hint_extra[e.shard] = hint_extra[e.shard].max(1);
    }
    labels.push(format!("shards:{shards}"));
    labels.push(format!("rec:{}", if rec == RecType::Share64 { "share64" } else { "prf-report" }));
    labels.push(format!("api:{api:?}"));
    labels.push(format!("mode:{}", mode.name()));
    labels.push(if malicious { "ctx:malicious".into() } else { "ctx:semi-honest".to_string() });
    labels.push(format!("workers:{workers}"));
    labels.push(format!("active:{}", if active == 0 { "default".into() } else { active.to_string() }));
    labels.push(format!("read-size:{}", if read_size == 0 { "default".into() } else { read_size.to_string() }));
    labels.push(format!("records:{}", match total { 0 => "0", 1 => "1", 2..=9 => "2-9", 10..=39 => "10-39", 40..=80 => "40-80", _ => "81+" }));
    if counts.iter().any(|c| *c == 0) && total > 0 {
        labels.push("has-empty-source-shard".into());
    }
    if hint_extra.iter().any(|e| *e > 0) {
        labels.push("size-hint-overstated".into());
    }
    if timing.iter().flatten().any(|t| t.start > 0) {
        labels.push("timing:start-delays".into());
    }
    if timing.iter().flatten().any(|t| t.item.iter().any(|d| *d > 0)) {
        labels.push("timing:input-stream-pending".into());
    }
    let spec = Spec {
        shards,
        counts,
        rec,
        api,
        mode,
        hint_extra,
        malicious,
        workers,
        active,
        read_size,
        world_seed: src.seed(),
        data_seed: src.seed(),
        timing,
        stream_err,
        fault: None,
        timeout: case_timeout(),
    };
    (spec, labels)
}

fn case_timeout() -> Duration {
    Duration::from_millis(std::env::var("VERIF_C19_TIMEOUT_MS").ok().and_then(|s| s.parse().ok()).unwrap_or(60_000))
}

fn debug_timeout(spec: &Spec, run: &Run) {
    if std::env::var("VERIF_DEBUG").is_ok() {
        eprintln!("[c19] timeout: {} :: {}", spec.json(), run.summary());
    }
}

fn inconclusive(labels: Vec<String>) -> CaseResult {
    Ok(CaseOk::new(false, &0u8, Value::Null).label("inconclusive:timeout").labels(labels))
}

fn finish(spec: &Spec, chk: Checked, mut labels: Vec<String>, run: &Run, nontrivial: bool) -> CaseResult {
    if chk.labels.iter().any(|l| l == "inconclusive:timeout") {
        return inconclusive(labels);
    }
    let mut cl = chk.labels;
    cl.sort();
    cl.dedup();
    labels.extend(cl);
    if chk.moved > 0 {
        labels.push("some-record-changes-shard".into());
    }
    if chk.multi_source_dest {
        labels.push("dest-fed-by-several-sources".into());
    }
    Ok(CaseOk {
        nontrivial,
        digest: digest(&(format!("{:?}{:?}{:?}", spec.rec, spec.api, spec.mode), &spec.counts, &spec.hint_extra, spec.malicious, spec.data_seed, format!("{:?}{:?}", spec.stream_err, spec.fault))),
        labels,
        sample: json!({"spec": spec.json(), "elapsed_us": run.elapsed.as_micros() as u64}),
    })
}

pub fn honest(env: &Env, src: &mut Src<'_>) -> CaseResult {
    let (spec, labels) = gen_spec(env, src, Flavor::Honest);
    let plains = make_plains(&spec);
    let cj = spec.json();
    let run = run(&spec, &plains);
    let chk = check(&spec, &plains, &run, &cj)?;
    let nontrivial = spec.shards >= 2 && chk.moved > 0 && chk.multi_source_dest;
    finish(&spec, chk, labels, &run, nontrivial)
}

pub fn stream_errors(env: &Env, src: &mut Src<'_>) -> CaseResult {
    let (spec, mut labels) = gen_spec(env, src, Flavor::StreamErr);
    let plains = make_plains(&spec);
    let cj = spec.json();
    for e in &spec.stream_err {
        labels.push(format!("err-pos:{}", if e.pos == 0 { "first" } else if e.pos >= spec.counts[e.shard] { "after-last" } else { "middle" }));
        let injected = make_error(e.kind);
        labels.push(match &injected {
            Error::Io(io) => format!("injected:Io:{:?}", io.kind()),
            other => format!("injected:{}", error_variant(other)),
        });
    }
    labels.push(format!("failing-streams:{}", spec.stream_err.len()));
    let run = run(&spec, &plains);
    let chk = check(&spec, &plains, &run, &cj)?;
    finish(&spec, chk, labels, &run, true)
}

pub fn transport_faults(env: &Env, src: &mut Src<'_>) -> CaseResult {
    let (mut spec, mut labels) = gen_spec(env, src, Flavor::Transport);
    let plains = make_plains(&spec);
    // honest run first: it yields the chunk catalogue of the shard-to-shard streams
    let base = run(&spec, &plains);
    let cj0 = spec.json();
    let chk0 = check(&spec, &plains, &base, &cj0)?;
    if chk0.labels.iter().any(|l| l == "inconclusive:timeout") {
        return inconclusive(labels);
    }
    let flows: Vec<(&(usize, usize, usize), &Vec<usize>)> = base.chunks.iter().filter(|(_, v)| v.iter().any(|l| *l > 0)).collect();
    if flows.is_empty() {
        return Ok(CaseOk::new(false, &0u8, Value::Null).label("no-cross-shard-data").labels(labels));
    }
    let (key, chunks) = flows[src.idx(flows.len())];
    let data_chunks: Vec<usize> = (0..chunks.len()).filter(|i| chunks[*i] > 0).collect();
    let ordinal = data_chunks[match src.below(3) {
        0 => 0,
        1 => data_chunks.len() - 1,
        _ => src.idx(data_chunks.len()),
    }];
    let len = chunks[ordinal];
    let rs = spec.rec.size();
    let edit = if spec.rec == RecType::PrfReport && src.bool() {
        ChunkEdit::BadPadding(src.idx(len / rs))
    } else {
        // 1 <= k < len... k not a multiple of the record size
        let recs = src.idx(len / rs);
        ChunkEdit::CutTail(recs * rs + 1 + src.idx(rs - 1))
    };
    labels.push(format!("edit:{}", match edit { ChunkEdit::CutTail(_) => "cut-inside-record", ChunkEdit::BadPadding(_) => "undecodable-record" }));
    labels.push(format!("chunk:{}", if ordinal == *data_chunks.last().unwrap() { "last" } else { "not-last" }));
    labels.push(format!("chunks-in-flow:{}", match data_chunks.len() { 1 => "1", 2..=3 => "2-3", _ => "4+" }));
    spec.fault = Some(TransportFault { helper: key.0, from: key.1, to: key.2, ordinal, edit });
    let cj = spec.json();
    let run = run(&spec, &plains);
    if !run.fired || !run.changed {
        return Ok(CaseOk::new(false, &0u8, Value::Null).label("edit-not-effective").labels(labels));
    }
    let chk = check(&spec, &plains, &run, &cj)?;
    finish(&spec, chk, labels, &run, true)
}

/// Every selection table for tiny inputs: S=2 with 0..=3 records per shard (225 cases) and S=3
/// with 0..=2 records per shard (2197 cases).
pub const SMALL_TOTAL: u64 = 225 + 2197;

pub fn small_tables(_env: &Env, src: &mut Src<'_>) -> CaseResult {
    let i = u64::from(src.raw()) | (u64::from(src.raw()) << 32);
    let (shards, maxc, mut k) = if i < 225 { (2usize, 3usize, i) } else { (3usize, 2usize, i - 225) };
    // enumerate count vectors in lexicographic order, each followed by its shards^total tables
    let mut counts = vec![0usize; shards];
    let mut found = false;
    let combos = (maxc + 1).pow(shards as u32);
    for c in 0..combos {
        let mut x = c;
        for s in 0..shards {
            counts[s] = x % (maxc + 1);
            x /= maxc + 1;
        }
        let tables = (shards as u64).pow(counts.iter().sum::<usize>() as u32);
        if k < tables {
            found = true;
            break;
        }
        k -= tables;
    }
    if !found {
        return Err(CaseErr::Reject("index outside the enumerated space".into()));
    }
    let mut table = vec![];
    for s in 0..shards {
        let mut row = vec![];
        for _ in 0..counts[s] {
            row.push((k % shards as u64) as usize);
            k /= shards as u64;
        }
        table.push(row);
    }
    let spec = Spec {
        shards,
        counts,
        rec: if (i / 3) % 2 == 0 { RecType::Share64 } else { RecType::PrfReport },
        api: [Api::TryStream, Api::Stream, Api::Iter, Api::Aad][(i % 4) as usize],
        mode: Mode::Table(table),
        hint_extra: vec![0; shards],
        malicious: (i / 6) % 2 == 1,
        workers: 0,
        active: 0,
        read_size: 0,
        world_seed: i,
        data_seed: i ^ 0x5eed,
        timing: vec![vec![Timing::default(); shards]; 3],
        stream_err: vec![],
        fault: None,
        timeout: case_timeout(),
    };
    let plains = make_plains(&spec);
    let cj = spec.json();
    let run = run(&spec, &plains);
    let chk = check(&spec, &plains, &run, &cj)?;
    let nontrivial = chk.moved > 0;
    finish(&spec, chk, vec![format!("shards:{shards}")], &run, nontrivial)
}

pub fn subs(_env: &Env) -> Vec<Sub> {
    vec![
        Sub::random(
            "reshard_order", 700, 12_000, 240_000, honest,
            "shards {1,2,3,5} x records per source shard (all empty, one record, fewer than shards, one source only, even, skewed, random split; total 0..80, thorough 0..400) x record type {Replicated<BA64>, PrfHybridReport<BA8,BA3>} x entry point {reshard_try_stream, reshard_stream, reshard_iter, query::runner::reshard_aad (positions stay local, records are resharded)} x selection {round-robin by record id, all-to-one, keep, ctx.pick_shard (PRSS) as the shuffle does, generated table, public value mod S as the PRF resharding does} x size hint overstated by {0,1,3,17,1000} x {semi-honest, malicious} sharded context x runtime {current-thread, 2/4 workers} x gateway active {default,2,4,16,64} / read size {default,16,24,48,100} x per helper-shard start delay and input-stream Pending pattern; oracle: every helper-shard returns Ok, shard d of helper h holds exactly the multiset of the records of input(h,*) selected for d (compared with the helper's own copies), and the order in which it holds them is the same on all three helpers although their timings differ (the order the code documents - concatenation over source shards in input order - is recorded as a label, not demanded); non-trivial = >=2 shards, a record changes shard and some shard is fed by >=2 sources",
        )
        .shrink_iters(60),
        Sub::exhaustive(
            "small_tables", SMALL_TOTAL, SMALL_TOTAL, small_tables,
            "every selection table for S=2 with 0..=3 records per shard and S=3 with 0..=2 records per shard (2422 cases), entry point / record type / context kind rotating with the index; same oracle; non-trivial = a record changes shard",
        ),
        Sub::random(
            "stream_errors", 700, 4000, 80_000, stream_errors,
            "as reshard_order (reshard_try_stream and reshard_aad) with an Err item - one of 24 failures: I/O errors of 10 kinds (UnexpectedEof as reported for a body that breaks mid-upload, InvalidData, WriteZero, ConnectionReset, ...), parse / parameter / truncation errors, validation failures, RecordIdOutOfRange, ... - at a generated position (first, middle, after the last record) of the input stream of one or two helper-shards; oracle: that helper-shard returns Err (never Ok with fewer records); helpers without a failing stream return exactly the expected content on every shard; a sibling shard of a failed shard may wait forever, fail, or return Ok with all records of the healthy sources and a prefix of those the failed shard selected for it",
        )
        .shrink_iters(60),
        Sub::random(
            "transport_faults", 700, 3000, 60_000, transport_faults,
            "honest run records the chunks of every shard-to-shard stream; then one chunk of one stream is cut inside a record (tail of k bytes dropped, k not a multiple of the record size) or one PrfHybridReport in it gets a set padding bit (undecodable); oracle: the receiving shard returns Err; all other helpers return exactly the expected content; siblings as in stream_errors",
        )
        .shrink_iters(40),
    ]
}
