// C20 - helper-to-helper and shard-to-shard endpoints refuse unauthenticated callers.
//
// Three sub-checks:
//  * `registered_routes` (exhaustive): every path template of the wire API (net/http_serde.rs) x
//    every HTTP method on both server flavours, sent through the real axum router
//    (`IpaHttpServer::handle_req`) without a peer identity: the set of routes that exist must be
//    exactly the set this file classifies (peer route / report-collector route), peer routes
//    answer 401, report-collector routes do not.
//  * `routes_inprocess` (generated): peer and report-collector routes with generated query ids,
//    gates, query strings, bodies, forged identity headers, wrong methods, mutated suffixes,
//    without a verified identity => every peer route answers 401 and never reaches the request
//    handler, every report-collector route is reachable.
//  * `loopback_identity` (generated, real sockets): TestServer with TLS on/off x {no identity,
//    client certificate of helper i, certificate outside the network} x {no / forged / matching
//    identity header}: the identity under which protocol traffic is registered is the certificate
//    identity under TLS (header ignored) and the header identity only when TLS is disabled.
//
// The classification "peer route" is written down here from the property text and from what the
// HTTP transports send to peers (HttpTransport::send: records/step, prepare; shard transports also
// complete and status-match); it is not derived from the routers under test.

use std::sync::{
    Arc,
    atomic::{AtomicUsize, Ordering},
};

use axum::body::Body;
use futures::StreamExt;
use hyper::{Method, Request, StatusCode};
use serde_json::{Value, json};

use super::common::*;
use crate::{
    config::{ClientConfig, PeerConfig},
    executor::IpaRuntime,
    ff::FieldType,
    helpers::{
        ApiError, BodyStream, HandlerBox, HelperIdentity, HelperResponse, RequestHandler, RoleAssignment,
        TransportIdentity, make_owned_handler,
        query::{PrepareQuery, QueryConfig, QueryType},
        routing::{Addr, RouteId},
    },
    net::{
        ClientIdentity, ConnectionFlavor, Helper, IpaHttpClient, IpaHttpServer, MpcHttpTransport, Shard,
        ShardHttpTransport,
        test::{DEFAULT_TEST_PORTS, TestConfig, TestServer, TestServerBuilder, get_client_test_identity},
    },
    protocol::{Gate, QueryId},
    query::{QueryKilled, QueryStatus},
    sharding::{ShardIndex, ShardedHelperIdentity},
};

pub const LEVEL: &str = "exploration";

const HELPER_HEADER: &str = "x-unverified-helper-identity";
const SHARD_HEADER: &str = "x-unverified-shard-index";

#[derive(Clone, Copy, PartialEq, Eq, Debug, Hash)]
enum Flavour {
    Ring,
    Shards,
}

impl Flavour {
    fn name(self) -> &'static str {
        match self {
            Flavour::Ring => "helper_ring",
            Flavour::Shards => "shard",
        }
    }
}

// ------------------------------------------------------------------------------------------
// the wire API (templates as in net/http_serde.rs) and the independent classification
// ------------------------------------------------------------------------------------------

#[derive(Clone, Copy, PartialEq, Eq, Debug, Hash)]
enum Class {
    /// carries protocol traffic / coordination between helpers or shards: needs a verified peer
    Peer(&'static str),
    /// report-collector route: reachable without peer identity
    Open(&'static str),
    /// no such route with this method on this server flavour
    Unregistered,
}

const METHODS: [&str; 7] = ["GET", "POST", "PUT", "DELETE", "PATCH", "HEAD", "OPTIONS"];

/// (template name, path with `{q}` / `{g}` placeholders, registered method)
const TEMPLATES: [(&str, &str, &str); 12] = [
    ("echo", "/echo", "GET"),
    ("metrics", "/metrics", "GET"),
    ("create", "/query", "POST"),
    ("prepare", "/query/{q}", "POST"),
    ("status", "/query/{q}", "GET"),
    ("input", "/query/{q}/input", "POST"),
    ("step", "/query/{q}/step/{g}", "POST"),
    ("complete", "/query/{q}/complete", "GET"),
    ("kill", "/query/{q}/kill", "POST"),
    ("status_match", "/query/{q}/status-match", "GET"),
    ("unknown_suffix", "/query/{q}/results", "GET"),
    ("unknown_root", "/queries/{q}", "POST"),
];

/// Classify (flavour, method, raw path). `None`: an edge of URL matching that this file does not
/// take a position on (empty segments, wrong method on a path that has a peer route).
fn classify(fl: Flavour, method: &str, path: &str) -> Option<Class> {
    let path = path.split('?').next().unwrap_or("");
    let rest = path.strip_prefix('/')?;
    let segs: Vec<&str> = rest.split('/').collect();
    if segs.iter().any(|s| s.is_empty()) {
        return None;
    }
    let ring = fl == Flavour::Ring;
    let m = method;
    Some(match segs.as_slice() {
        ["echo"] => match m {
            "GET" | "HEAD" => {
                if m == "GET" {
                    Class::Open("echo")
                } else {
                    return None;
                }
            }
            _ => Class::Unregistered,
        },
        ["metrics"] if ring => match m {
            "GET" => Class::Open("metrics"),
            "HEAD" => return None,
            _ => Class::Unregistered,
        },
        ["query"] if ring => match m {
            "POST" => Class::Open("create"),
            _ => Class::Unregistered,
        },
        ["query", _q] => match m {
            "POST" => Class::Peer("prepare"),
            "GET" if ring => Class::Open("status"),
            // other methods on a path that carries a peer route: 401 or 405, both acceptable
            _ => return None,
        },
        ["query", _q, "input"] if ring => match m {
            "POST" => Class::Open("input"),
            _ => Class::Unregistered,
        },
        ["query", _q, "kill"] if ring => match m {
            "POST" => Class::Open("kill"),
            _ => Class::Unregistered,
        },
        ["query", _q, "complete"] => match (m, ring) {
            ("GET", true) => Class::Open("complete"),
            ("GET", false) => Class::Peer("complete"),
            ("HEAD", _) => return None,
            (_, true) => Class::Unregistered,
            (_, false) => return None,
        },
        ["query", _q, "status-match"] if !ring => match m {
            "GET" => Class::Peer("status_match"),
            _ => return None,
        },
        ["query", _q, "step", ..] if segs.len() >= 4 => match m {
            "POST" => Class::Peer("step"),
            _ => return None,
        },
        _ => Class::Unregistered,
    })
}

// ------------------------------------------------------------------------------------------
// in-process servers (no sockets)
// ------------------------------------------------------------------------------------------

fn ok_handler<I: TransportIdentity>(reached: Arc<AtomicUsize>) -> Arc<dyn RequestHandler<I>> {
    make_owned_handler(move |addr: Addr<I>, _body: BodyStream| {
        reached.fetch_add(1, Ordering::SeqCst);
        let r: Result<HelperResponse, ApiError> = Ok(match addr.route {
            RouteId::QueryStatus => HelperResponse::from(QueryStatus::Running),
            RouteId::KillQuery => HelperResponse::from(QueryKilled(QueryId)),
            RouteId::ReceiveQuery => HelperResponse::from(PrepareQuery {
                query_id: QueryId,
                config: QueryConfig::new(QueryType::TestMultiply, FieldType::Fp31, 1).unwrap(),
                roles: RoleAssignment::new(HelperIdentity::make_three()),
            }),
            RouteId::CompleteQuery | RouteId::Metrics => HelperResponse::from(vec![1u8, 2, 3]),
            _ => HelperResponse::ok(),
        });
        async move { r }
    })
}

enum Server {
    Ring(IpaHttpServer<Helper>, Arc<dyn RequestHandler<HelperIdentity>>),
    Shards(IpaHttpServer<Shard>, Arc<dyn RequestHandler<ShardIndex>>),
}

impl Server {
    /// must be called inside a tokio runtime; binds no socket
    fn build(fl: Flavour, reached: &Arc<AtomicUsize>) -> Server {
        let conf = TestConfig::builder().with_ports_by_ring(vec![DEFAULT_TEST_PORTS]).build();
        let rt = IpaRuntime::current();
        match fl {
            Flavour::Ring => {
                let ring = conf.rings.into_iter().next().unwrap();
                let handler = ok_handler::<HelperIdentity>(Arc::clone(reached));
                let clients = IpaHttpClient::from_conf(&rt, &ring.network, &ClientIdentity::None);
                let (_t, server) = MpcHttpTransport::new(
                    rt,
                    HelperIdentity::ONE,
                    ring.servers[0].config.clone(),
                    ring.network.clone(),
                    &clients,
                    Some(HandlerBox::owning_ref(&handler)),
                );
                Server::Ring(server, handler)
            }
            Flavour::Shards => {
                let [net, ..] = conf.shards;
                let handler = ok_handler::<ShardIndex>(Arc::clone(reached));
                let clients = IpaHttpClient::<Shard>::shards_from_conf(&rt, &net.network, &ClientIdentity::None);
                let (_t, server) = ShardHttpTransport::new(
                    rt,
                    ShardIndex::FIRST,
                    ShardIndex::from(1u32),
                    net.servers[0].config.clone(),
                    net.network.clone(),
                    clients,
                    Some(HandlerBox::owning_ref(&handler)),
                );
                Server::Shards(server, handler)
            }
        }
    }
    async fn send(&self, req: Request<Body>) -> StatusCode {
        match self {
            Server::Ring(s, _) => s.handle_req(req).await.status(),
            Server::Shards(s, _) => s.handle_req(req).await.status(),
        }
    }
}

#[derive(Clone, Debug)]
struct Candidate {
    template: &'static str,
    method: String,
    path: String,
    query: Option<String>,
    headers: Vec<(String, String)>,
    body: Vec<u8>,
}

impl Candidate {
    fn json(&self) -> Value {
        json!({"method": self.method, "path": self.path, "query": self.query, "headers": self.headers, "body_len": self.body.len(),
               "body_head": String::from_utf8_lossy(&self.body[..self.body.len().min(40)])})
    }
    fn build(&self, base: &str) -> Option<Request<Body>> {
        let mut uri = format!("{base}{}", self.path);
        if let Some(q) = &self.query {
            uri.push('?');
            uri.push_str(q);
        }
        let mut b = Request::builder().method(Method::from_bytes(self.method.as_bytes()).ok()?).uri(uri);
        for (k, v) in &self.headers {
            b = b.header(k.as_str(), v.as_str());
        }
        b.body(Body::from(self.body.clone())).ok()
    }
}

const VALID_CONFIG_QS: &str = "query_type=test-multiply&field_type=Fp31&size=1";

fn roles_body() -> Vec<u8> {
    serde_json::to_vec(&json!({"roles": RoleAssignment::new(HelperIdentity::make_three())})).unwrap()
}

fn valid_candidate(template: usize, method: &str) -> Candidate {
    let (name, path, _) = TEMPLATES[template];
    let path = path.replace("{q}", "0").replace("{g}", "protocol/prss");
    let (query, body, ct) = match name {
        "create" => (Some(VALID_CONFIG_QS.to_string()), vec![], None),
        "prepare" => (Some(VALID_CONFIG_QS.to_string()), roles_body(), Some("application/json")),
        "status_match" => (Some("status=Running".to_string()), vec![], None),
        "input" | "step" => (None, vec![7u8; 16], Some("application/octet-stream")),
        "echo" => (Some("foo=1".to_string()), vec![], None),
        _ => (None, vec![], None),
    };
    let mut headers = vec![];
    if let Some(ct) = ct {
        headers.push(("content-type".to_string(), ct.to_string()));
    }
    Candidate { template: name, method: method.to_string(), path, query, headers, body }
}

fn block_on_io<F: std::future::Future>(f: F) -> F::Output {
    let rt = tokio::runtime::Builder::new_multi_thread().worker_threads(2).enable_all().build().unwrap();
    let out = rt.block_on(f);
    rt.shutdown_background();
    out
}

fn check_unauthenticated(env: &Env, fl: Flavour, c: &Candidate, status: StatusCode, reached: usize) -> Result<Option<String>, CaseErr> {
    let case = json!({"server": fl.name(), "request": c.json(), "status": status.as_u16(), "identity": "none"});
    match classify(fl, &c.method, &c.path) {
        Some(Class::Peer(name)) => {
            if status != StatusCode::UNAUTHORIZED {
                known_or_violation(
                    env,
                    &format!("peer-route-not-401:{}:{name}", fl.name()),
                    format!("{} {} on the {} server answered {} to a request without verified peer identity (expected 401)", c.method, c.path, fl.name(), status),
                    case.clone(),
                )?;
            }
            if reached > 0 {
                known_or_violation(
                    env,
                    &format!("peer-route-reached-handler:{}:{name}", fl.name()),
                    format!("{} {} on the {} server: a request without verified peer identity reached the request handler", c.method, c.path, fl.name()),
                    case,
                )?;
            }
            Ok(Some(format!("peer:{name}")))
        }
        Some(Class::Open(name)) => {
            if status == StatusCode::UNAUTHORIZED || status == StatusCode::NOT_FOUND || status == StatusCode::METHOD_NOT_ALLOWED {
                known_or_violation(
                    env,
                    &format!("collector-route-unreachable:{}:{name}", fl.name()),
                    format!("{} {} on the {} server is a report-collector route but answered {} without peer identity", c.method, c.path, fl.name(), status),
                    case,
                )?;
            }
            Ok(Some(format!("open:{name}")))
        }
        Some(Class::Unregistered) => Ok(Some("unregistered".into())),
        None => Ok(None),
    }
}

// ------------------------------------------------------------------------------------------
// sub-check: the registered routes are exactly the classified ones
// ------------------------------------------------------------------------------------------

fn registered_routes(env: &Env, src: &mut Src<'_>) -> CaseResult {
    let i = u64::from(src.raw()) | (u64::from(src.raw()) << 32);
    let fl = if i % 2 == 0 { Flavour::Ring } else { Flavour::Shards };
    let method = METHODS[(i / 2 % 7) as usize];
    let template = (i / 14 % 12) as usize;
    let c = valid_candidate(template, method);
    let reached = Arc::new(AtomicUsize::new(0));
    let (status, n) = block_on(async {
        let server = Server::build(fl, &reached);
        let req = c.build("http://localhost").expect("well-formed request");
        let st = server.send(req).await;
        (st, reached.load(Ordering::SeqCst))
    });
    let class = classify(fl, method, &c.path);
    let exists = status != StatusCode::NOT_FOUND && status != StatusCode::METHOD_NOT_ALLOWED;
    let case = json!({"server": fl.name(), "request": c.json(), "status": status.as_u16(), "classified": format!("{class:?}")});
    match class {
        Some(Class::Unregistered) if exists => {
            return Err(violation(
                format!("unclassified-route:{}:{} {}", fl.name(), method, TEMPLATES[template].1),
                format!("{} {} exists on the {} server (status {status}) but is neither a known peer route nor a known report-collector route: cannot tell whether it must be authenticated", method, c.path, fl.name()),
                case,
            ));
        }
        Some(Class::Peer(_) | Class::Open(_)) if !exists => {
            return Err(violation(
                format!("route-missing:{}:{} {}", fl.name(), method, TEMPLATES[template].1),
                format!("{} {} is part of the wire API of the {} server but answered {status}", method, c.path, fl.name()),
                case,
            ));
        }
        _ => {}
    }
    let label = check_unauthenticated(env, fl, &c, status, n)?.unwrap_or_else(|| "edge".into());
    let nontrivial = matches!(class, Some(Class::Peer(_) | Class::Open(_)));
    Ok(CaseOk::new(nontrivial, &(fl, method, template), case).label(format!("{}:{label}", fl.name())).label(format!("status:{}", status.as_u16())))
}

// ------------------------------------------------------------------------------------------
// sub-check: generated requests without identity, through the router
// ------------------------------------------------------------------------------------------

const QIDS: [&str; 14] = ["0", "1", "00", "abc", "-1", "0x0", "%30", "0%20", "query", "step", "complete", "18446744073709551616", "%F0%9F%A6%80", "null"];
const GATE_SEGS: [&str; 10] = ["prss", "protocol", "a", "x%2Fy", "0", "..", "%2e%2e", "step", "complete", "very-long-segment-aaaaaaaaaaaaaaaaaaaaaaaaaaaaaaaaaaaaaaaaaaaaaaaaaaaaaaaaaaaaaaaa"];
const QUERY_STRINGS: [&str; 9] = [
    VALID_CONFIG_QS,
    "status=Running",
    "status=Completed",
    "query_type=malicious-hybrid&field_type=Fp32BitPrime&size=10&max_breakdown_key=5&with_dp=0&epsilon=1.0",
    "size=0",
    "a=b&&c",
    "query_type=&field_type=&size=",
    "status=",
    "x",
];

fn gen_candidate(src: &mut Src<'_>, fl: Flavour) -> Candidate {
    // bias towards the peer routes of the flavour
    let peer: &[usize] = if fl == Flavour::Ring { &[3, 6] } else { &[3, 6, 7, 9] };
    let t = if src.chance(7, 10) { src.pick(peer) } else { src.idx(TEMPLATES.len()) };
    let (name, tpl, reg_method) = TEMPLATES[t];
    let method = if src.chance(8, 10) { reg_method } else { src.pick(&METHODS) };
    let q = if src.chance(1, 2) { "0".to_string() } else { src.pick(&QIDS).to_string() };
    let ng = src.urange(1, 4);
    let g: Vec<&str> = (0..ng).map(|_| src.pick(&GATE_SEGS)).collect();
    let mut path = tpl.replace("{q}", &q).replace("{g}", &g.join("/"));
    // structural mutations
    match src.below(12) {
        0 => path.push_str("/extra"),
        1 => path.push('/'),
        2 => path = path.replace("/query", "/Query"),
        3 => path = format!("/{}", path.trim_start_matches('/').replace("step", "steps")),
        _ => {}
    }
    let query = match src.below(4) {
        0 => None,
        1 => Some(
            match name {
                "status_match" => "status=Running",
                _ => VALID_CONFIG_QS,
            }
            .to_string(),
        ),
        _ => Some(src.pick(&QUERY_STRINGS).to_string()),
    };
    let body = match src.below(6) {
        0 => vec![],
        1 => roles_body(),
        2 => b"{".to_vec(),
        3 => {
            let n = src.urange(1, 64);
            src.bytes(n)
        }
        4 => vec![0xA5; 4096],
        _ => b"{\"roles\":[1,1,1]}".to_vec(),
    };
    let mut headers = vec![];
    match src.below(3) {
        0 => {}
        1 => headers.push(("content-type".to_string(), "application/json".to_string())),
        _ => headers.push(("content-type".to_string(), "application/octet-stream".to_string())),
    }
    // forged identity headers: without TLS termination in front of the router they must be inert
    if src.chance(1, 2) {
        headers.push((HELPER_HEADER.to_string(), src.pick(&["A", "B", "C", "Z", ""]).to_string()));
    }
    if src.chance(1, 2) {
        headers.push((SHARD_HEADER.to_string(), src.pick(&["0", "1", "7", "x"]).to_string()));
    }
    Candidate { template: name, method: method.to_string(), path, query, headers, body }
}

fn routes_inprocess(env: &Env, src: &mut Src<'_>) -> CaseResult {
    let fl = if src.bool() { Flavour::Shards } else { Flavour::Ring };
    let n = 24;
    let cands: Vec<Candidate> = (0..n).map(|_| gen_candidate(src, fl)).collect();
    let reached = Arc::new(AtomicUsize::new(0));
    let results: Vec<Option<(StatusCode, usize)>> = block_on(async {
        let server = Server::build(fl, &reached);
        let mut out = vec![];
        for c in &cands {
            match c.build("http://localhost") {
                None => out.push(None),
                Some(req) => {
                    let before = reached.load(Ordering::SeqCst);
                    let st = server.send(req).await;
                    out.push(Some((st, reached.load(Ordering::SeqCst) - before)));
                }
            }
        }
        out
    });
    let mut labels = vec![];
    let mut peer_checked = 0;
    for (c, r) in cands.iter().zip(results.iter()) {
        let Some((status, hits)) = r else {
            labels.push(format!("{}:not_a_valid_http_request", fl.name()));
            continue;
        };
        match check_unauthenticated(env, fl, c, *status, *hits)? {
            Some(l) => {
                if l.starts_with("peer:") {
                    peer_checked += 1;
                    let malformed = !c.path.contains("/query/0") || c.query.as_deref().is_some_and(|q| q != VALID_CONFIG_QS && q != "status=Running");
                    labels.push(format!("{}:{l}:{}", fl.name(), if malformed { "malformed_params" } else { "valid_params" }));
                } else {
                    labels.push(format!("{}:{l}", fl.name()));
                }
            }
            None => labels.push(format!("{}:edge:{}", fl.name(), status.as_u16())),
        }
    }
    let sample = json!({"server": fl.name(), "requests": cands.iter().take(4).map(Candidate::json).collect::<Vec<_>>()});
    let dig: Vec<(String, String, Option<String>, usize)> = cands.iter().map(|c| (c.method.clone(), c.path.clone(), c.query.clone(), c.body.len())).collect();
    Ok(CaseOk::new(peer_checked > 0, &dig, sample).labels(labels))
}

// ------------------------------------------------------------------------------------------
// sub-check: real connections, TLS on/off, certificates and forged headers
// ------------------------------------------------------------------------------------------

#[derive(Clone, Copy, Debug, PartialEq, Eq)]
enum Cred {
    None,
    /// certificate of helper i (shard 0) - on the shard server: the certificate of shard 0 of helper i
    Cert(usize),
    /// a certificate that is not part of the server's network (helper 0, shard index 1)
    Outsider,
}

struct Seen {
    status: Option<StatusCode>,
    conn_error: Option<String>,
}

async fn send_one<F: ConnectionFlavor>(client: &IpaHttpClient<F>, req: Request<Body>) -> Seen {
    match tokio::time::timeout(std::time::Duration::from_secs(20), client.request(req)).await {
        Ok(Ok(resp)) => Seen { status: Some(resp.status()), conn_error: None },
        Ok(Err(e)) => Seen { status: None, conn_error: Some(format!("{e}")) },
        Err(_) => Seen { status: None, conn_error: Some("timeout".into()) },
    }
}

/// under which identities has a record stream for `gate` been registered? (None: could not tell)
async fn stream_owner<F: ConnectionFlavor>(transport: &crate::net::HttpTransport<F>, ids: &[F::Identity], expect: Option<usize>, gate: &Gate) -> Option<Vec<usize>> {
    let mut found = vec![];
    // expected owner first: wait for its data (bounded), then the others must have nothing
    let order: Vec<usize> = expect.into_iter().chain((0..ids.len()).filter(|i| Some(*i) != expect)).collect();
    for (n, i) in order.iter().enumerate() {
        let mut s = Box::pin(transport.receive(ids[*i], &(QueryId, gate.clone())));
        let wait = if n == 0 && expect.is_some() { 2000 } else { 150 };
        match tokio::time::timeout(std::time::Duration::from_millis(wait), s.next()).await {
            Ok(Some(_)) => found.push(*i),
            Ok(None) => found.push(*i),
            Err(_) => {
                if n == 0 && expect.is_some() {
                    // nothing arrived for the expected owner within the bound: look at the others, but
                    // absence alone is not a verdict
                    continue;
                }
            }
        }
    }
    if found.is_empty() && expect.is_some() { None } else { Some(found) }
}

/// the same through the public `Transport` face of a helper's MPC transport
async fn stream_owner_mpc(transport: &MpcHttpTransport, expect: Option<usize>, gate: &Gate) -> Option<Vec<usize>> {
    use crate::helpers::Transport;
    let ids = HelperIdentity::make_three();
    let mut found = vec![];
    let order: Vec<usize> = expect.into_iter().chain((0..ids.len()).filter(|i| Some(*i) != expect)).collect();
    for (n, i) in order.iter().enumerate() {
        let mut s = Box::pin(Transport::receive(transport, ids[*i], (QueryId, gate.clone())).into_bytes_stream());
        let wait = if n == 0 && expect.is_some() { 2000 } else { 150 };
        match tokio::time::timeout(std::time::Duration::from_millis(wait), s.next()).await {
            Ok(_) => found.push(*i),
            Err(_) => {}
        }
    }
    if found.is_empty() && expect.is_some() { None } else { Some(found) }
}

fn loopback_identity(env: &Env, src: &mut Src<'_>) -> CaseResult {
    let fl = if src.chance(1, 3) { Flavour::Shards } else { Flavour::Ring };
    let tls = src.chance(2, 3);
    let cred = if tls {
        match src.below(6) {
            0 | 1 => Cred::None,
            2 => Cred::Outsider,
            k => Cred::Cert(if fl == Flavour::Ring { (k - 3) as usize } else { 0 }),
        }
    } else {
        Cred::None
    };
    // identity header supplied by the caller
    let header: Option<String> = match (fl, src.below(5)) {
        (_, 0 | 1) => None,
        (Flavour::Ring, k) => Some(["A", "B", "C"][(k - 2) as usize].to_string()),
        (Flavour::Shards, k) => Some(["0", "1", "5"][(k - 2) as usize].to_string()),
    };
    let kind = src.pick(&["step", "step", "prepare", "collector"]);
    let tag = src.u64();
    let gate_name = format!("c20-{tag:016x}");
    let body: Vec<u8> = {
        let n = src.urange(1, 48);
        src.bytes(n)
    };

    // who the server should believe the caller is
    let expect_id: Option<usize> = if tls {
        match cred {
            Cred::Cert(i) => Some(i),
            _ => None,
        }
    } else {
        header.as_ref().map(|h| match fl {
            Flavour::Ring => ["A", "B", "C"].iter().position(|x| x == h).unwrap(),
            Flavour::Shards => ["0", "1", "5"].iter().position(|x| x == h).unwrap(),
        })
    };

    let reached = Arc::new(AtomicUsize::new(0));
    let reached2 = Arc::clone(&reached);
    let header2 = header.clone();
    let gate2 = gate_name.clone();
    let body2 = body.clone();
    let outcome: Result<(Seen, usize, Option<Vec<usize>>), String> = block_on_io(async move {
        let scheme = if tls { "https" } else { "http" };
        let hdr_name = if fl == Flavour::Ring { HELPER_HEADER } else { SHARD_HEADER };
        let gate = Gate::from(gate2.as_str());
        let server_cert = TestConfig::builder().with_ports_by_ring(vec![DEFAULT_TEST_PORTS]).build().rings[0].network.peers[0].certificate.clone();
        let mk_req = |port: u16| -> Request<Body> {
            let (method, pq, body) = match kind {
                "step" => ("POST", format!("/query/0/step/{gate2}"), body2.clone()),
                "prepare" => ("POST", format!("/query/0?{VALID_CONFIG_QS}"), roles_body()),
                // the status route on the ring server; the shard server only offers echo to outsiders
                _ => ("GET", if fl == Flavour::Ring { "/query/0".to_string() } else { "/echo?foo=1".to_string() }, vec![]),
            };
            let mut b = Request::builder().method(method).uri(format!("{scheme}://localhost:{port}{pq}"));
            if kind == "prepare" {
                b = b.header("content-type", "application/json");
            }
            if let Some(h) = &header2 {
                b = b.header(hdr_name, h.as_str());
            }
            b.body(Body::from(body)).unwrap()
        };
        let sid = |i: usize, shard: u32| ShardedHelperIdentity::new(HelperIdentity::make_three()[i], ShardIndex::from(shard));
        match fl {
            Flavour::Ring => {
                let mut b = TestServerBuilder::<Helper>::default().with_request_handler(ok_handler::<HelperIdentity>(reached2.clone()));
                if !tls {
                    b = b.disable_https();
                }
                let server: TestServer<Helper> = b.build().await;
                let port = server.addr.port();
                let peer = PeerConfig::new(format!("{scheme}://localhost:{port}").parse().unwrap(), if tls { server_cert } else { None });
                let identity: ClientIdentity<Helper> = match cred {
                    Cred::None => ClientIdentity::None,
                    Cred::Cert(i) => get_client_test_identity(sid(i, 0)).helper,
                    Cred::Outsider => get_client_test_identity(sid(0, 1)).helper,
                };
                let client = IpaHttpClient::<Helper>::new(IpaRuntime::current(), &ClientConfig::default(), peer, identity);
                let seen = send_one(&client, mk_req(port)).await;
                let owners = if kind == "step" {
                    stream_owner(&server.transport, &HelperIdentity::make_three(), expect_id, &gate).await
                } else {
                    Some(vec![])
                };
                Ok((seen, reached2.load(Ordering::SeqCst), owners))
            }
            Flavour::Shards => {
                let mut b = TestServerBuilder::<Shard>::default().with_request_handler(ok_handler::<ShardIndex>(reached2.clone()));
                if !tls {
                    b = b.disable_https();
                }
                let server: TestServer<Shard> = b.build().await;
                let port = server.addr.port();
                let peer = PeerConfig::new(format!("{scheme}://localhost:{port}").parse().unwrap(), if tls { server_cert } else { None });
                let identity: ClientIdentity<Shard> = match cred {
                    Cred::None => ClientIdentity::None,
                    Cred::Cert(_) => get_client_test_identity(sid(0, 0)).shard,
                    Cred::Outsider => get_client_test_identity(sid(1, 0)).shard,
                };
                let client = IpaHttpClient::<Shard>::new(IpaRuntime::current(), &ClientConfig::default(), peer, identity);
                let seen = send_one(&client, mk_req(port)).await;
                let ids = [ShardIndex::from(0u32), ShardIndex::from(1u32), ShardIndex::from(5u32)];
                let owners = if kind == "step" { stream_owner(&server.transport, &ids, expect_id, &gate).await } else { Some(vec![]) };
                Ok((seen, reached2.load(Ordering::SeqCst), owners))
            }
        }
    });
    let (seen, hits, owners) = match outcome {
        Ok(x) => x,
        Err(e) => return Err(CaseErr::Reject(e)),
    };
    let names: &[&str] = if fl == Flavour::Ring { &["A", "B", "C"] } else { &["0", "1", "5"] };
    let case = json!({
        "server": fl.name(), "tls": tls, "credential": format!("{cred:?}"), "identity_header": header, "request": kind,
        "status": seen.status.map(|s| s.as_u16()), "connection_error": seen.conn_error, "handler_calls": hits,
        "stream_registered_under": owners.as_ref().map(|o| o.iter().map(|i| names[*i]).collect::<Vec<_>>()),
        "expected_identity": expect_id.map(|i| names[i]),
    });
    let mode = if tls { "tls" } else { "plain" };
    let mut labels = vec![
        format!("{}:{mode}:{}:{}:{}", fl.name(), match cred { Cred::None => "no_cert", Cred::Cert(_) => "peer_cert", Cred::Outsider => "outsider_cert" }, if header.is_some() { "header" } else { "no_header" }, kind),
    ];
    let peer_route = kind != "collector";
    let sigbase = format!("{}:{mode}:{kind}", fl.name());
    if let Some(e) = &seen.conn_error {
        // no HTTP answer. Fine when the caller presented a certificate the server does not know
        // (refused during the handshake); otherwise the environment failed us: no verdict
        labels.push(if cred == Cred::Outsider { "refused_in_handshake".into() } else { format!("no_verdict:connection_error") });
        if cred == Cred::Outsider && (hits > 0 || owners.as_ref().is_some_and(|o| !o.is_empty())) {
            known_or_violation(env, &format!("unverified-caller-served:{sigbase}"), format!("a caller with a certificate outside the network got its request served ({e})"), case.clone())?;
        }
        return Ok(CaseOk::new(false, &(fl, tls, kind, tag), case).labels(labels));
    }
    let status = seen.status.unwrap();
    if !peer_route {
        if status == StatusCode::UNAUTHORIZED {
            known_or_violation(env, &format!("collector-route-unreachable:{sigbase}"), format!("a report-collector route answered 401 ({case})"), case.clone())?;
        }
        labels.push("collector_reachable".into());
        return Ok(CaseOk::new(true, &(fl, tls, kind, tag), case).labels(labels));
    }
    match expect_id {
        None => {
            // no verified identity (under TLS a supplied header must not count)
            if status != StatusCode::UNAUTHORIZED {
                let served = status.is_success() || hits > 0 || owners.as_ref().is_some_and(|o| !o.is_empty());
                let what = if tls && header.is_some() && served { "identity-header-honoured-under-tls" } else { "peer-route-not-401" };
                known_or_violation(env, &format!("{what}:{sigbase}"), format!("request without verified identity answered {status}: {case}"), case.clone())?;
            }
            if hits > 0 || owners.as_ref().is_some_and(|o| !o.is_empty()) {
                known_or_violation(env, &format!("unverified-caller-served:{sigbase}"), format!("request without verified identity was served: {case}"), case.clone())?;
            }
            labels.push(if tls && header.is_some() { "forged_header_ignored".into() } else { "unauthenticated_401".into() });
        }
        Some(i) => {
            if status == StatusCode::UNAUTHORIZED {
                let what = if tls { "certificate-identity-refused" } else { "header-identity-refused-without-tls" };
                known_or_violation(env, &format!("{what}:{sigbase}"), format!("a caller with a verified identity was answered 401: {case}"), case.clone())?;
            } else if kind == "step" {
                match &owners {
                    None => labels.push("no_verdict:stream_not_seen".into()),
                    Some(o) => {
                        if o.as_slice() != [i] {
                            let what = if tls && header.is_some() && header.as_deref() != Some(names[i]) && o.iter().any(|x| Some(names[*x]) == header.as_deref()) {
                                "identity-header-honoured-under-tls"
                            } else {
                                "wrong-peer-identity"
                            };
                            known_or_violation(env, &format!("{what}:{sigbase}"), format!("records were registered under {:?}, the verified identity is {}: {case}", o.iter().map(|x| names[*x]).collect::<Vec<_>>(), names[i]), case.clone())?;
                        }
                        labels.push(if tls { "identity_from_certificate".into() } else { "identity_from_header_plain_http".into() });
                    }
                }
            } else {
                if !status.is_success() || hits == 0 {
                    labels.push(format!("no_verdict:prepare_status_{}", status.as_u16()));
                } else {
                    labels.push("authenticated_prepare_served".into());
                }
            }
        }
    }
    Ok(CaseOk::new(true, &(fl, tls, kind, tag), case).labels(labels))
}

// ------------------------------------------------------------------------------------------
// sub-check: TLS servers whose view of the network lacks the certificate of some peers
// ------------------------------------------------------------------------------------------

/// `certificate` is optional in the network configuration (a helper's own entry, a peer that has
/// not been filled in yet). Whatever entries lack a certificate, a TLS caller without a client
/// certificate has no verified identity: peer routes answer 401 and nothing reaches the handler,
/// with or without an identity header; a caller with the certificate of a peer that still has
/// one is served under that identity; collector routes stay reachable.
fn missing_certificates(env: &Env, src: &mut Src<'_>) -> CaseResult {
    use crate::net::test::{ClientIdentities, TestNetwork};
    // non-empty strict subset of {0,1,2}: rustls needs at least one trust anchor
    // (or nothing stripped: the complete configuration, started the way the helper binary does)
    let strip: Vec<usize> = match src.below(8) {
        6 | 7 => vec![],
        0 => vec![0],
        1 => vec![1],
        2 => vec![2],
        3 => vec![0, 1],
        4 => vec![0, 2],
        _ => vec![1, 2],
    };
    let cred = match src.below(4) {
        0 | 1 => Cred::None,
        _ => Cred::Cert(src.idx(3)),
    };
    let header: Option<String> = match src.below(4) {
        0 | 1 => None,
        k => Some(["A", "B", "C"][(k - 1) as usize % 3].to_string()),
    };
    // how the server gets its socket: a pre-bound listener (what the test fixtures do) or it
    // binds a port itself (what the helper binary does unless it is handed a socket fd)
    let self_bound = src.bool();
    let kind = src.pick(&["step", "step", "prepare", "collector"]);
    let tag = src.u64();
    let gate_name = format!("c20m-{tag:016x}");
    let body: Vec<u8> = {
        let n = src.urange(1, 48);
        src.bytes(n)
    };
    let cert_known = matches!(cred, Cred::Cert(i) if !strip.contains(&i));
    let reached = Arc::new(AtomicUsize::new(0));
    let (reached2, strip2, header2, gate2, body2) = (Arc::clone(&reached), strip.clone(), header.clone(), gate_name.clone(), body.clone());
    let cred_i = match cred {
        Cred::Cert(i) => Some(i),
        _ => None,
    };
    let outcome: Result<(Seen, usize, Option<Vec<usize>>), String> = block_on_io(async move {
        // sockets bound to ephemeral ports (several cases run in parallel)
        let mut test_config = TestConfig::builder().build();
        let TestNetwork { network, servers } = test_config.rings.pop().ok_or("no ring")?;
        let mut h1 = servers.into_iter().next().ok_or("no server")?;
        let h1_peer = network.peers[0].clone();
        let mut view = network.clone();
        for i in &strip2 {
            view.peers[*i].certificate = None;
        }
        let clients = IpaHttpClient::from_conf(&IpaRuntime::current(), &network, &ClientIdentities::new(false, ShardedHelperIdentity::ONE_FIRST).helper);
        let handler = ok_handler::<HelperIdentity>(reached2.clone());
        let mut server_config = h1.config.clone();
        let listener = if self_bound {
            // let the kernel pick the port; the fixture's pre-bound socket is released
            drop(h1.socket.take());
            server_config.port = None;
            None
        } else {
            h1.socket.take()
        };
        let (transport, server) = MpcHttpTransport::new(IpaRuntime::current(), HelperIdentity::ONE, server_config, view, &clients, Some(HandlerBox::owning_ref(&handler)));
        let (addr, _join) = server.start_on(&IpaRuntime::current(), listener, ()).await;
        let port = addr.port();
        let sid = |i: usize| ShardedHelperIdentity::new(HelperIdentity::make_three()[i], ShardIndex::from(0u32));
        let identity: ClientIdentity<Helper> = match cred_i {
            None => ClientIdentity::None,
            Some(i) => get_client_test_identity(sid(i)).helper,
        };
        let client = IpaHttpClient::<Helper>::new(IpaRuntime::current(), &ClientConfig::default(), h1_peer, identity);
        let (method, pq, body) = match kind {
            "step" => ("POST", format!("/query/0/step/{gate2}"), body2.clone()),
            "prepare" => ("POST", format!("/query/0?{VALID_CONFIG_QS}"), roles_body()),
            _ => ("GET", "/echo?foo=1".to_string(), vec![]),
        };
        let mut b = Request::builder().method(method).uri(format!("https://localhost:{port}{pq}"));
        if kind == "prepare" {
            b = b.header("content-type", "application/json");
        }
        if let Some(h) = &header2 {
            b = b.header(HELPER_HEADER, h.as_str());
        }
        let seen = send_one(&client, b.body(Body::from(body)).unwrap()).await;
        // under which identity were the records of a step request filed?
        let owners = if kind == "step" && seen.conn_error.is_none() {
            let expect = cred_i.filter(|i| !strip2.contains(i));
            stream_owner_mpc(&transport, expect, &Gate::from(gate2.as_str())).await
        } else {
            Some(vec![])
        };
        Ok((seen, reached2.load(Ordering::SeqCst), owners))
    });
    let (seen, hits, owners) = match outcome {
        Ok(x) => x,
        Err(e) => return Err(CaseErr::Reject(e)),
    };
    let case = json!({
        "server": "helper ring, TLS", "peer_entries_without_certificate": strip.iter().map(|i| ["A", "B", "C"][*i]).collect::<Vec<_>>(),
        "credential": format!("{cred:?}"), "identity_header": header, "request": kind,
        "status": seen.status.map(|s| s.as_u16()), "connection_error": seen.conn_error, "handler_calls": hits,
        "socket": if self_bound { "bound by the server" } else { "pre-bound listener" },
        "records_filed_under": owners.as_ref().map(|o| o.iter().map(|i| ["A", "B", "C"][*i]).collect::<Vec<_>>()),
    });
    let mut labels = vec![format!("socket:{}", if self_bound { "self-bound" } else { "pre-bound" }), format!("stripped:{}", strip.len()), format!("cred:{}", match cred { Cred::None => "none", Cred::Cert(_) if cert_known => "known-cert", _ => "cert-of-stripped-peer" }), format!("req:{kind}")];
    if let Some(e) = &seen.conn_error {
        // refused during the handshake: fine for a certificate the server no longer knows
        labels.push(if matches!(cred, Cred::Cert(_)) && !cert_known { "refused_in_handshake".into() } else { "no_verdict:connection_error".to_string() });
        if !cert_known && hits > 0 {
            known_or_violation(env, &format!("unverified-caller-served:missing-cert:{kind}"), format!("the handler was reached on behalf of a caller without verified identity ({e}): {case}"), case.clone())?;
        }
        return Ok(CaseOk::new(false, &(strip, kind, tag), case).labels(labels));
    }
    let status = seen.status.unwrap();
    if kind == "collector" {
        if status == StatusCode::UNAUTHORIZED {
            known_or_violation(env, "collector-route-unreachable:missing-cert", format!("a report-collector route answered 401 ({case})"), case.clone())?;
        }
        labels.push("collector_reachable".into());
    } else if !cert_known {
        if status != StatusCode::UNAUTHORIZED || hits > 0 || owners.as_ref().is_some_and(|o| !o.is_empty()) {
            known_or_violation(env, &format!("peer-route-not-401:missing-cert:{kind}"), format!("a TLS caller without a certificate known to the server was answered {status} (handler calls: {hits}): {case}"), case.clone())?;
        }
        labels.push("unauthenticated_401".into());
    } else {
        if status == StatusCode::UNAUTHORIZED {
            known_or_violation(env, &format!("certificate-identity-refused:missing-cert:{kind}"), format!("a caller with a certificate the server knows was answered 401: {case}"), case.clone())?;
        }
        if let (Cred::Cert(i), "step", Some(o)) = (cred, kind, &owners) {
            // the identity is the certificate's; a header naming somebody else changes nothing
            if status.is_success() && o.as_slice() != [i] {
                known_or_violation(env, "wrong-peer-identity:configured-server:step", format!("records sent over the TLS connection of peer {} were filed under {:?}: {case}", ["A", "B", "C"][i], o.iter().map(|x| ["A", "B", "C"][*x]).collect::<Vec<_>>()), case.clone())?;
            }
            labels.push("identity_from_certificate".into());
        }
        labels.push("known_certificate_served".into());
    }
    Ok(CaseOk::new(true, &(strip, kind, tag, header.is_some(), self_bound), case).labels(labels))
}

fn loopback_available() -> bool {
    let Ok(l) = std::net::TcpListener::bind("localhost:0") else { return false };
    let Ok(addr) = l.local_addr() else { return false };
    std::net::TcpStream::connect(addr).is_ok()
}

pub fn subs(_env: &Env) -> Vec<Sub> {
    // the TLS part needs real loopback connections: without them there is no verdict (a panic here
    // leaves the test binary with a harness error => ./check exits 2 "inconclusive")
    assert!(loopback_available(), "C20: loopback sockets are not available in this environment - inconclusive");
    vec![
        Sub::exhaustive("registered_routes", 168, 168, registered_routes,
            "2 server flavours x 7 methods x 12 path templates of the wire API (10 real, 2 non-existent) with valid parameters, no peer identity, through the axum router: the routes that exist are exactly the classified ones; peer routes (ring: prepare, step; shard: prepare, step, complete, status-match) answer 401 and do not reach the handler; report-collector routes answer neither 401 nor 404/405; non-trivial = a peer or collector route")
            .streams(8),
        Sub::random("routes_inprocess", 420, 20_000, 600_000, routes_inprocess,
            "24 requests per case against a freshly built helper-ring or shard server (router only): template biased 7:3 to the peer routes of the flavour, registered method 8:2, query id '0' or one of 13 malformed ids, 1-4 gate segments incl. encoded slashes and dot segments, valid / foreign / malformed query strings, empty / roles / truncated JSON / random / 4 KiB bodies, content types, forged x-unverified-* identity headers, structural mutations (extra segment, trailing slash, case, renamed segment); every request classified as peer route => 401 and handler not reached, collector route => not 401/404/405; non-trivial = at least one peer-route request in the case"),
        Sub::random("loopback_identity", 16, 640, 12_000, loopback_identity,
            "real connections to TestServer (helper ring 2/3, shard 1/3) with TLS on (2/3) or disabled; credential under TLS: none / client certificate of helper 1..3 (shard server: of shard 0) / a certificate outside the network; identity header none or one of three identities; request: step (records), prepare, or the collector's status route; expected identity = certificate identity under TLS (header ignored), header identity without TLS; no identity => 401 and nothing served; records must be registered under exactly the expected identity; non-trivial = an HTTP answer was received")
            .streams(8)
            .shrink_iters(6),
        Sub::random("missing_certificates", 16, 240, 6_000, missing_certificates,
            "real TLS connections to a helper server built from its configuration (MpcHttpTransport::new + start_on), with a pre-bound listener (as the fixtures do) or binding its port itself (as the helper binary does), whose own view of the network is complete or lacks the certificate of one or two of the three peers (certificates are optional in network.toml; at least one must remain as trust anchor); caller: no client certificate / certificate of peer i (known or stripped), with or without an identity header; request: step, prepare, echo; oracle: without a certificate the server knows, peer routes answer 401 (or the handshake is refused) and the handler is never reached and no records are filed; a known certificate is not answered 401 and its step records are filed under the certificate's identity whatever the header says; echo stays reachable")
            .streams(8)
            .shrink_iters(6),
    ]
}
